"""C13 — cars compose in order with documented precedence; provisioning mirrors templates (DESIGN §4 C13)."""
import os as real_os

from esrally import exceptions
from esrally.mechanic import provisioner, team

from harness.common import accessor, concrete
from symx import core
from symx.core import fresh_bool, fresh_int, observe, shadowed
from symx.explore import Harness

PROPERTY = "C13"
EXPLANATION = ("C13: team.load_car / CarLoader.load_car run over an in-memory team in which, per car and per config base, the presence of a "
               "variable is a solver variable and its VALUE is a symbolic integer (so falsy values such as 0 are covered), as are "
               "command-line car parameters; ElasticsearchInstaller.variables, provisioner._apply_config (in-memory template tree with "
               "symbolic file presence) and provisioner.cleanup (symbolic path existence, preserve flag) run on top.")

TEAM = "/team"
CARS_DIR = TEAM + "/cars/v1"


class FakeConfig(dict):
    def sections(self):
        return list(self.keys())


def _team(sl, files):
    """files: path -> FakeConfig.  Cars c0..; bases b0..; every layer may define variable `x` (symbolic value) and `http_port`."""
    ncars = sl["cars"]
    layers = []  # (kind, name, defines_x, value_x)
    base_names = ["b0", "b1", "b2"]
    used_bases_per_car = []
    for c in range(ncars):
        nb = concrete(fresh_int("car%d_number_of_bases" % c, 0, sl["max_bases"]))
        first = concrete(fresh_int("car%d_first_base" % c, 0, 2)) if nb else 0
        bases = [base_names[(first + j) % 3] for j in range(nb)]
        if nb and c == ncars - 1 and bool(fresh_bool("car%d_names_its_first_base_twice" % c)):
            bases.append(bases[0])  # e.g. base=vanilla,g1gc,vanilla
        used_bases_per_car.append(bases)
        cfg = FakeConfig({"meta": {"description": "car %d" % c, "type": "car" if nb else "mixin"}, "config": {"base": ",".join(bases)}})
        if bool(fresh_bool("car%d_defines_x" % c)):
            v = fresh_int("car%d_x" % c)
            cfg["variables"] = {"x": v, "http_port": "1"}
            layers.append(("car", c, v))
        files["%s/c%d.ini" % (CARS_DIR, c)] = cfg
    base_vals = {}
    for b in base_names:
        if bool(fresh_bool("base_%s_defines_x" % b)):
            v = fresh_int("base_%s_x" % b)
            files["%s/%s/config.ini" % (CARS_DIR, b)] = FakeConfig({"variables": {"x": v, "node_name": "from-base"}})
            base_vals[b] = v
        elif b == "b2":
            files["%s/%s/config.ini" % (CARS_DIR, b)] = FakeConfig({})  # a config.ini without variables section
    return used_bases_per_car, layers, base_vals


def car_precedence(sl):
    files = {}
    used, car_layers, base_vals = _team(sl, files)
    param_given = bool(fresh_bool("car_param_x_given"))
    params = {"x": fresh_int("param_x")} if param_given else ({} if bool(fresh_bool("empty_params_dict")) else None)

    class Io:
        exists = staticmethod(lambda p: p in files)
        splitext = staticmethod(real_os.path.splitext)
        basename = staticmethod(real_os.path.basename)

    class NoHooks:
        def __init__(self, component):
            pass

        def can_load(self):
            return False

    names = ["c%d" % c for c in range(sl["cars"])]
    with shadowed(team, (), extra={"io": Io, "BootstrapHookHandler": NoHooks, "_path_for": lambda root, kind: CARS_DIR}):
        real_loader = team.CarLoader._config_loader
        team.CarLoader._config_loader = lambda self, f: files[f]
        try:
            car = team.load_car(TEAM, names, params)
            how, err = "ret", None
        except Exception as e:  # noqa: BLE001
            car, how, err = None, "raise", e
        finally:
            team.CarLoader._config_loader = real_loader
    all_bases = []
    for bl in used:
        for b in bl:
            if b not in all_bases:
                all_bases.append(b)
    core.note("bases per car", used)
    core.note("outcome", (how, repr(err)[:80]))
    core.trace("bases", len(all_bases))
    if not all_bases:
        observe("no config base at all is a system setup error", how == "raise" and isinstance(err, exceptions.SystemSetupError))
        return
    observe("car loads", how == "ret")
    if how != "ret":
        return
    observe("config bases applied in first-seen order without duplicates", car.config_paths == ["%s/%s/templates" % (CARS_DIR, b) for b in all_bases])
    # expected value of x: car parameter, else last car defining it, else last config base (in application order) defining it
    exp = None
    base_order = [b for bl in used for b in bl]
    for b in base_order:
        if b in base_vals:
            exp = base_vals[b]
    for (_, _, v) in car_layers:
        exp = v
    if param_given:
        exp = params["x"]
    if exp is None:
        observe("x undefined everywhere stays undefined", "x" not in car.variables)
    else:
        observe("x defined", "x" in car.variables)
        if "x" in car.variables:
            observe("precedence: car parameter > later car > earlier car > config base (falsy values included)", car.variables["x"] is exp or car.variables["x"] == exp)
    # Rally's own node variables win whatever cars say
    inst = provisioner.ElasticsearchInstaller(car, java_home="/java", node_name="rally-node-0", cluster_name="c", node_root_dir="/root-dir",
                                              all_node_ips=["10.0.0.1"], all_node_names=["rally-node-0"], ip="10.0.0.1", http_port=39200)
    snapshot = dict(car.variables)
    inst.es_home_path = "/root-dir/install/elasticsearch-8.0.0"  # what install() does after unpacking
    inst.data_paths = inst._data_paths()
    v = inst.variables
    observe("internal variables cannot be overridden by cars or bases", v["http_port"] == "39200" and v["node_name"] == "rally-node-0"
            and v["transport_port"] == "39300" and v["network_host"] == "10.0.0.1")
    if exp is not None:
        observe("car variables reach the installer", "x" in v and (v["x"] is exp or v["x"] == exp))
    # a second node on the same host is provisioned from the same Car object
    inst2 = provisioner.ElasticsearchInstaller(car, java_home="/java", node_name="rally-node-1", cluster_name="c", node_root_dir="/root-dir-1",
                                               all_node_ips=["10.0.0.1"], all_node_names=["rally-node-0", "rally-node-1"], ip="10.0.0.1", http_port=39201)
    inst2.es_home_path = "/root-dir-1/install/elasticsearch-8.0.0"  # what install() does after unpacking
    inst2.data_paths = inst2._data_paths()
    v2 = inst2.variables
    observe("the car's own variables are not modified by provisioning a node", dict(car.variables) == snapshot)
    observe("every node gets its own internal variables (name, ports, paths)", v2["node_name"] == "rally-node-1" and v2["http_port"] == "39201"
            and ("data_paths" in snapshot or all(p.startswith("/root-dir-1") for p in v2["data_paths"])))


# ------------------------------------------------------------------------------------------------------------------
PLAIN = ["elasticsearch.yml", "jvm.options", "log4j2.properties"]
BINARY = ["keystore.bin", "cert.p12"]
DIRS = ["", "config/certs"]


def apply_tree(sl):
    """provisioner._apply_config for two config bases over an in-memory template tree, rendered by the REAL Jinja2"""
    import jinja2

    bases = ["/team/cars/v1/b0/templates", "/team/cars/v1/b1/templates"]
    tree, content = {}, {}
    for bi, b in enumerate(bases):
        for d in DIRS:
            present = [f for f in (PLAIN[:1] + BINARY[:1]) if bool(fresh_bool("base%d_%s_%s" % (bi, d.replace("/", "_") or "root", f.split(".")[0])))]
            if d == "" and bi == 0:
                present.append(PLAIN[1])
            tree[(b, d)] = present
            for f in present:
                root = real_os.path.join(b, d) if d else b
                nl = bool(fresh_bool("base%d_%s_%s_ends_with_newline" % (bi, d.replace("/", "_") or "root", f.split(".")[0]))) if f in PLAIN else True
                content[(root, f)] = "setting{{ x }}: from-base%d-%s" % (bi, f) + ("\n" if nl else "")
    # two config bases may provide the very same text for a file (a mixin switching a JVM flag back on): it is appended like any other
    same_text = bool(fresh_bool("second_base_repeats_the_text_of_the_first"))
    if same_text:
        for (root, f), c in list(content.items()):
            if root.startswith(bases[1]) and f in PLAIN:
                content[(root, f)] = c.replace("from-base1", "from-base0")
    written, copied, dirs = {}, [], []

    class FsPath:
        """os.path over the model: what has been written exists"""

        def __getattr__(self, name):
            return getattr(real_os.path, name)

        @staticmethod
        def exists(p):
            return p in written or any(c[1] == p for c in copied)

        isfile = exists

    class Walk:
        path = FsPath()

        @staticmethod
        def walk(root):
            for d in DIRS:
                yield (real_os.path.join(root, d) if d else root), [], list(tree[(root, d)])

    class Jinja:
        exceptions = jinja2.exceptions
        Environment = jinja2.Environment

        @staticmethod
        def FileSystemLoader(root):
            return jinja2.DictLoader({f: c for (r, f), c in content.items() if r == root})

    class Out:
        def __init__(self, path, mode):
            self.path, self.mode = path, mode

        def write(self, s):
            written.setdefault(self.path, []).append((self.mode, s))

        def read(self):
            return "".join(s_ for (_, s_) in written.get(self.path, []))

        def __enter__(self):
            return self

        def __exit__(self, *a):
            return False

    class Io:
        ensure_dir = staticmethod(dirs.append)
        splitext = staticmethod(real_os.path.splitext)
        basename = staticmethod(real_os.path.basename)

    class Sh:
        copy = staticmethod(lambda s, d: copied.append((s, d)))

    target = "/install/elasticsearch-8.0.0"
    with shadowed(provisioner, (), extra={"os": Walk, "jinja2": Jinja, "open": lambda p, mode="r", encoding=None: Out(p, mode), "io": Io, "shutil": Sh}):
        try:
            for b in bases:
                provisioner._apply_config(b, target, {"x": 1})
        except Exception as e:  # noqa: BLE001
            core.note("_apply_config raised", repr(e))
            observe("templates of every config base can be applied", False)
            return
    core.trace("files", sum(len(v) for v in tree.values()))
    for d in DIRS:
        tdir = real_os.path.join(target, d)
        for f in PLAIN[:2]:
            exp_lines = ["setting1: from-base%d-%s" % (0 if same_text else bi, f) for bi, b in enumerate(bases) if f in tree[(b, d)]]
            got = written.get(real_os.path.join(tdir, f), [])
            text = "".join(s_ for (_, s_) in got)
            observe("every template is rendered (variables substituted) into the same relative path; snippets of several config bases are appended in "
                    "order, each on its own lines", text.splitlines() == exp_lines and all(m == "a" for (m, _) in got) and (text == "" or text.endswith("\n")))
        for f in BINARY[:1]:
            exp = [(real_os.path.join(real_os.path.join(b, d) if d else b, f), real_os.path.join(tdir, f)) for b in bases if f in tree[(b, d)]]
            observe("binary files are copied verbatim to the same relative path", [c for c in copied if c[1] == real_os.path.join(tdir, f)] == exp)
    observe("nothing else is written", len(written) + len(copied) == len({(d, f) for (b, d), fs in tree.items() for f in fs if f in PLAIN}) + sum(
        1 for fs in tree.values() for f in fs if f in BINARY))


def docker_precedence(sl):
    """Docker provisioning composes its variables like the bare-metal path: car / config-base variables and car parameters are visible to
    the templates, but Rally's own node variables (names, ports, network host, the bind-mounted paths, cluster settings) are Rally's"""
    internal = ["cluster_name", "node_name", "network_host", "http_port", "transport_port", "data_paths", "log_path", "heap_dump_path",
                "install_root_path", "discovery_type", "cluster_settings"]
    car_vars = {"docker_image": "docker.elastic.co/elasticsearch/elasticsearch", "heap_size": fresh_int("heap_size")}
    tried = [n for n in internal if bool(fresh_bool("car_defines_%s" % n))]
    for n in tried:
        car_vars[n] = "from-the-car"
    car = team.Car("c", None, ["/team/base0/templates"], car_vars)
    p = provisioner.DockerProvisioner(car, "rally-node-0", "rally-benchmark", "10.0.0.1", 39200, "/root-dir", "8.0.0", "/rally")
    own = {"cluster_name": "rally-benchmark", "node_name": "rally-node-0", "network_host": "0.0.0.0", "http_port": "39200", "transport_port": "39300",
           "data_paths": ["/usr/share/elasticsearch/data"], "log_path": "/var/log/elasticsearch", "heap_dump_path": "/usr/share/elasticsearch/heapdump",
           "install_root_path": "/usr/share/elasticsearch", "discovery_type": "single-node", "cluster_settings": {}}
    core.trace("tried", len(tried))
    core.note("car tries to define", tried)
    for n in internal:
        observe("Rally's own variable %s cannot be overridden by the car (Docker)" % n, p.config_vars.get(n) == own[n])
    observe("other car variables reach the templates", p.config_vars.get("heap_size") is car_vars["heap_size"] and p.config_vars.get("docker_image") == car_vars["docker_image"])
    observe("the car's own variables are not modified", all(car.variables.get(n) == "from-the-car" for n in tried) and len(car.variables) == len(car_vars))


def bare_prepare(sl):
    """BareProvisioner.prepare / _provisioner_variables with the real ElasticsearchInstaller (install/hook steps stubbed): every config
    base of the car, then of every plugin, is applied in order into the installation with the composed variables"""
    n_bases = concrete(fresh_int("car_config_bases", 1, 3))
    n_plugins = concrete(fresh_int("plugins", 0, 2))
    car_x = fresh_int("car_value_of_x") if bool(fresh_bool("car_defines_x")) else None
    car_vars = {"runtime.jdk": "17", "runtime.jdk.bundled": "true"}
    if car_x is not None:
        car_vars["x"] = car_x
    if bool(fresh_bool("car_tries_to_set_internal_variables")):
        car_vars.update({"http_port": "1", "node_name": "evil", "network_host": "0.0.0.0", "cluster_settings": {"evil": True}})
    car = team.Car("c", None, ["/team/base%d/templates" % i for i in range(n_bases)], car_vars)
    applied, hooks = [], []

    class Hook:
        def __init__(self, c):
            pass

        def can_load(self):
            return False

        def invoke(self, phase, variables=None, **kw):
            hooks.append((phase, variables))
            variables["x"] = "changed-by-hook"  # hooks only get a copy

    inst = provisioner.ElasticsearchInstaller(car, java_home="/java", node_name="rally-node-0", cluster_name="c", node_root_dir="/root-dir",
                                              all_node_ips=["10.0.0.1"], all_node_names=["rally-node-0"], ip="10.0.0.1", http_port=39200,
                                              hook_handler_class=Hook)

    def fake_install(binary):
        inst.es_home_path = "/root-dir/install/elasticsearch-8.0.0"
        inst.data_paths = inst._data_paths()

    inst.install = fake_install
    inst.delete_pre_bundled_configuration = lambda: None
    plugins = []
    for i in range(n_plugins):
        moved = bool(fresh_bool("plugin%d_moved_to_module" % i))
        pname = ["repository-s3", "repository-gcs"][i] if moved else "plug%d" % i  # these moved into modules unless listed as core plugins
        pv = {}
        py = fresh_int("plugin%d_value_of_y" % i) if bool(fresh_bool("plugin%d_defines_y" % i)) else None
        if py is not None:
            pv["y"] = py
        d = team.PluginDescriptor(pname, variables=pv, config_paths=["/team/plugins/plug%d/templates" % i])
        pi = provisioner.PluginInstaller(d, java_home="/java", hook_handler_class=Hook)
        pi.install = lambda root, url=None, _i=i: applied.append(("install-plugin", _i, root))
        plugins.append((pi, moved, py, pname))
    bp = provisioner.BareProvisioner(inst, [p[0] for p in plugins], apply_config=lambda src, target, v: applied.append(("apply", src, target, v)))
    nc = bp.prepare({"elasticsearch": "/dist/es.tar.gz"})
    core.trace("applied", len(applied))
    core.note("applied", [a[:3] for a in applied])
    applies = [a for a in applied if a[0] == "apply"]
    want_src = list(car.config_paths) + ["/team/plugins/plug%d/templates" % i for i in range(n_plugins)]
    observe("every config base of the car, then every plugin's, is applied once, in order, into the installation",
            [a[1] for a in applies] == want_src and all(a[2] == "/root-dir/install/elasticsearch-8.0.0" for a in applies))
    for i in range(n_plugins):
        k = applied.index(("install-plugin", i, "/root-dir/install/elasticsearch-8.0.0")) if ("install-plugin", i, "/root-dir/install/elasticsearch-8.0.0") in applied else -1
        observe("plugin %d is installed before its configuration is applied" % i, k >= 0 and applied[k + 1][0] == "apply" and applied[k + 1][1] == want_src[n_bases + i])
    v = applies[0][3]
    observe("all templates are rendered with the same variables", all(a[3] is v or a[3] == v for a in applies))
    observe("Rally's own node variables win over the car's", v["http_port"] == "39200" and v["node_name"] == "rally-node-0" and v["network_host"] == "10.0.0.1"
            and v["install_root_path"] == "/root-dir/install/elasticsearch-8.0.0" and v["data_paths"] == ["/root-dir/install/elasticsearch-8.0.0/data"])
    if car_x is not None:
        observe("car variables reach the templates", "x" in v and (v["x"] is car_x or v["x"] == car_x))
    last_y = None
    for (_, _, py, _) in plugins:
        if py is not None:
            last_y = py
    if last_y is not None:
        observe("plugin variables reach the templates (later plugins win)", "y" in v and (v["y"] is last_y or v["y"] == last_y))
    mandatory = [pname for (_, moved, _, pname) in plugins if not moved]
    observe("cluster_settings is Rally's own: exactly the installed plugins that are not modules are mandatory",
            v["cluster_settings"] == ({"plugin.mandatory": mandatory} if mandatory else {}))
    observe("install hooks run once per installer after all configuration was applied and only get a copy of the variables",
            len(hooks) == 1 + n_plugins and all(h[1] is not v for h in hooks) and v.get("x") != "changed-by-hook")
    observe("the node configuration names this node's own paths", nc.node_name == "rally-node-0" and nc.binary_path == "/root-dir/install/elasticsearch-8.0.0"
            and nc.data_paths == ["/root-dir/install/elasticsearch-8.0.0/data"] and nc.node_root_path == "/root-dir" and nc.ip == "10.0.0.1")


def plain_text_kinds(sl):
    for f in PLAIN + ["a.json", "b.yaml", "c.txt", "d.ini"]:
        observe("%s is a template" % f, provisioner.plain_text("/x/" + f))
    for f in BINARY + ["lib.jar", "noext"]:
        observe("%s is copied verbatim" % f, not provisioner.plain_text("/x/" + f))
    fresh_int("dummy", 0, 0)


def cleanup(sl):
    install = "/root-dir/install/elasticsearch-8.6.1"
    cands = [install + "/data", "/mnt/fast/data", install + "-data", "/root-dir/install/other"]
    data_paths = [p for i, p in enumerate(cands) if bool(fresh_bool("data_path_%d_configured" % i))]
    exists = {p: bool(fresh_bool("exists_%d" % i)) for i, p in enumerate(cands + [install])}
    preserve = bool(fresh_bool("preserve_install"))
    removed = []
    fail = bool(fresh_bool("rmtree_fails_once"))

    class P:
        exists = staticmethod(lambda p: exists.get(p, False))

    class O:
        path = P

    class Sh:
        @staticmethod
        def rmtree(p):
            removed.append(p)
            if fail and len(removed) == 1:
                raise OSError("busy")

    class Con:
        info = staticmethod(lambda *a, **k: None)

    with shadowed(provisioner, (), extra={"os": O, "shutil": Sh, "console": Con}):
        provisioner.cleanup(preserve, install, data_paths)
    core.trace("removed", len(removed))
    if preserve:
        observe("preserve-install removes nothing", removed == [])
    else:
        want = [p for p in data_paths if exists[p]] + ([install] if exists[install] else [])
        observe("cleanup removes every existing data path and the installation, each exactly once (a failing removal does not stop the rest)", removed == want)


READS = [team.load_car, team.CarLoader.load_car, team.CarLoader._copy_section, team.CarLoader._value, accessor(provisioner.ElasticsearchInstaller.variables),
         provisioner.ElasticsearchInstaller._data_paths, provisioner._apply_config, provisioner.plain_text, provisioner.cleanup]

HARNESSES = [
    Harness("car_precedence", car_precedence, "symbolic",
            lambda tier: [{"cars": c, "max_bases": b, "_w": c * b} for (c, b) in (((1, 2), (2, 1), (2, 2), (3, 1)) if tier == "quick" else ((1, 3), (2, 2), (3, 2), (3, 1)))],
            reads=READS, stubs=["CarLoader._config_loader returns in-memory configs; io.exists over the same team; no bootstrap hooks"],
            assumptions=["one variable name stands for all (dict.update treats keys independently)"],
            bounds={"cars/mixins": "<=3", "config bases per car": "<=2 (3) out of 3", "values": "unbounded symbolic integers (0 included)", "car parameter": "absent / given"},
            doc="precedence parameter > later car > earlier car > config base; config paths in order without duplicates; internal variables win"),
    Harness("apply_tree", apply_tree, "symbolic", lambda tier: [{}], reads=READS,
            stubs=["os.walk over an in-memory tree with symbolic file presence", "jinja2.FileSystemLoader replaced by a DictLoader over the in-memory tree (Environment and rendering are the real Jinja2)", "open/shutil.copy/ensure_dir recorders"],
            bounds={"config bases": 2, "directories": DIRS, "files per directory": "1 template + 1 binary, each present or absent (plus one fixed template); every template with or without a final newline"},
            doc="templates rendered into the same relative path with append, binaries copied"),
    Harness("bare_prepare", bare_prepare, "symbolic", lambda tier: [{}], reads=READS + [provisioner.BareProvisioner.prepare, provisioner.BareProvisioner._provisioner_variables],
            stubs=["ElasticsearchInstaller.install (sets es_home_path/data_paths as the real one does after unpacking), delete_pre_bundled_configuration, "
                   "PluginInstaller.install, bootstrap hook handler, apply_config recorder (the real _apply_config is covered by apply_tree)"],
            bounds={"config bases": "1..3", "plugins": "0..2, each moved to a module or not", "values": "unbounded symbolic integers"},
            assumptions=["plugin variables named like Rally's internal variables are not part of the claim (the statement is about cars; DESIGN §12.2)"],
            doc="prepare applies every config base in order with the composed variables; internal variables and cluster_settings are Rally's own"),
    Harness("docker_precedence", docker_precedence, "bounded-exhaustive", lambda tier: [{}], reads=READS + [provisioner.DockerProvisioner.__init__],
            bounds={"internal variables": "every subset of the 11 names the Docker provisioner sets may also be defined by the car"},
            doc="Docker provisioning: Rally's own node variables win over car variables"),
    Harness("plain_text_kinds", plain_text_kinds, "bounded-exhaustive", lambda tier: [{}], reads=READS, doc="template vs binary by extension"),
    Harness("cleanup", cleanup, "symbolic", lambda tier: [{}], reads=READS, stubs=["os.path.exists / shutil.rmtree over a symbolic set of existing paths"],
            bounds={"data paths": "any subset of 4 candidates incl. one inside the install dir and one sharing its name as a prefix"},
            doc="cleanup removes installation and all data paths unless preserve"),
]
