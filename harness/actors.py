"""Fake actor runtime (DESIGN §2.2): the REAL rally actor classes run outside thespian.

Thespian's Actor.send/wakeupAfter/createActor/myAddress all delegate to self._myRef; the real classes are instantiated directly,
given a fake ref, and messages are dispatched through the real ActorTypeDispatcher.receiveMessage.  One FIFO queue per
(sender, receiver) pair, a bag of pending wake-ups, modelled executor runs.  Any enabled event may fire next (covers every delay
assignment and clock offset).  Failure contract as read from thespian/system/actorManager.py::_handleOneMessage."""
import collections
import copy
import threading

import thespian.actors as ta

from esrally import actor, log, track
from esrally.driver import driver

# -- environment stubs (the trusted base; listed in each check's evidence) ------------------------------------------
log.post_configure_actor_logging = lambda: None


def survives_transport(msg):
    import pickle

    try:
        pickle.loads(pickle.dumps(msg))
        return True
    except Exception:  # noqa: BLE001 - any failure to encode or decode loses the message
        return False


# the real collaborators, kept for harnesses that run in the same worker process after the stubs were installed
REAL = {"AsyncIoAdapter": driver.AsyncIoAdapter, "register_default_runners": driver.runner.register_default_runners}


def install_driver_stubs():
    driver.load_local_config = lambda c: c
    driver.load_track = lambda *a, **k: None
    driver.track.set_absolute_data_path = lambda *a, **k: None
    driver.runner.register_default_runners = lambda *a, **k: None
    driver.AsyncIoAdapter = Ex


class Cfg:
    def __init__(self, values=None):
        self.v = {("track", "test.mode.enabled"): True, ("driver", "on.error"): "continue", ("driver", "load_driver_hosts"): ["localhost"],
                  ("system", "quiet.mode"): True}
        self.v.update(values or {})

    def opts(self, section, key, mandatory=True, default_value=None):
        if (section, key) == ("client", "options"):
            return ClientOptions
        return self.v.get((section, key), default_value)


class ClientOptions:
    all_client_options = {"default": {}}
    uses_static_responses = True


class Ex:
    """stands for AsyncIoAdapter: the load-generating thread of one worker for one row of the allocation matrix"""

    def __init__(self, cfg, trk, task_allocations, sampler, cancel, complete, abort_on_error, client_contexts, worker_id):
        self.task_allocations = task_allocations
        self.sampler = sampler
        self.cancel = cancel
        self.complete = complete
        self.worker_id = worker_id


def endless(t):
    return t.iterations is None and t.time_period is None


class Run:
    """executor contract (DESIGN §2.2): (1) a run whose tasks are all finite may finish at any time, (2) a run with an endless task
    finishes only after `complete` is set, (3) on finishing, a run with a completing task sets `complete`, (4) a run may fail,
    (5) a run may emit samples through the real Sampler"""

    def __init__(self, ex, system):
        self.ex = ex
        self.sys = system
        self.finished = False
        self.error = None
        self.emitted = 0
        self.tasks = [ca.task.task for ca in ex.task_allocations]
        self.rows = [(ca.client_id, ca.task.task.name) for ca in ex.task_allocations]
        self.complete_at_start = ex.complete.is_set()

    def can_finish(self):
        return not any(endless(t) for t in self.tasks) or self.ex.complete.is_set()

    def finish(self, error=None):
        self.finished = True
        self.error = error
        for t in self.tasks:
            if t.completes_parent or t.any_completes_parent:
                self.ex.complete.set()  # AsyncExecutor's finally block


class Fut:
    def __init__(self, run):
        self.run = run

    def done(self):
        return self.run.finished

    def running(self):
        return not self.run.finished

    def exception(self, timeout=None):
        return self.run.error

    def result(self, timeout=None):
        assert self.run.finished, "Worker waits for a run that has not finished (would block the actor)"
        if self.run.error:
            raise self.run.error


class Pool:
    def __init__(self, system, key):
        self.sys = system
        self.key = key

    def submit(self, ex):
        r = Run(ex, self.sys)
        r.worker_key = self.key
        self.sys.runs.append(r)
        self.sys.submitted.append((self.key, tuple(r.rows), ex.complete.is_set()))
        return Fut(r)

    def shutdown(self, *a, **kw):
        pass


class Ref:
    def __init__(self, system, addr):
        self.sys = system
        self.address = addr
        self.globalName = None

    def actor_send(self, target, msg):
        self.sys.send(self.address, target, msg)

    def wakeupAfter(self, period, payload=None):
        self.sys.timers.append((self.address.addressDetails, ta.WakeupMessage(period, payload)))

    def createActor(self, cls, targetActorRequirements=None, globalName=None, sourceHash=None):
        return self.sys.create(cls, parent=self.address, requirements=targetActorRequirements)

    def notifyOnSystemRegistrationChanges(self, addr, enable):
        self.sys.registration_listeners[addr.addressDetails] = enable


class Endpoint(ta.ActorTypeDispatcher):
    """stands for race control (or any external party): records what it receives"""

    def __init__(self):
        self.got = []

    def receiveMessage(self, msg, sender):
        self.got.append(msg)


class System:
    def __init__(self):
        self.n = 0
        self.actors = {}
        self.addr = {}
        self.parent = {}
        self.requirements = {}
        self.chan = collections.defaultdict(collections.deque)
        self.timers = []
        self.runs = []
        self.submitted = []
        self.dead = set()
        self.registration_listeners = {}
        self.trace = []
        self.sent = []  # chronological log of sends: (src key, dst key, message)
        self.dropped = []  # failure notifications that would not survive the transport
        self.faults = {}  # hooks for C09

    # -- construction
    def create(self, cls, parent=None, requirements=None):
        self.n += 1
        addr = ta.ActorAddress(self.n)
        a = cls()
        a._myRef = Ref(self, addr)
        k = addr.addressDetails
        self.actors[k] = a
        self.addr[k] = addr
        self.parent[k] = parent.addressDetails if parent is not None else None
        self.requirements[k] = requirements
        if isinstance(a, driver.Worker):
            a.pool = Pool(self, k)
        return addr

    def send(self, src, dst, msg):
        if isinstance(msg, actor.BenchmarkFailure) and not survives_transport(msg):
            # thespian's transport between processes pickles every message; a packet that cannot be decoded on the other side is
            # dropped and the sender never learns about it. Failure notifications are the messages whose payload is built from
            # arbitrary exceptions, so the contract is enforced for them.
            self.dropped.append((src.addressDetails, dst.addressDetails, msg))
            return
        self.sent.append((src.addressDetails, dst.addressDetails, msg))
        self.chan[(src.addressDetails, dst.addressDetails)].append((src, msg))

    # -- events
    def enabled(self):
        ev = [("msg", k) for k, q in sorted(self.chan.items()) if q and k[1] in self.actors and k[1] not in self.dead]
        ev += [("timer", i) for i, (k, _) in enumerate(self.timers) if k not in self.dead]
        ev += [("fin", i) for i, r in enumerate(self.runs) if not r.finished and r.can_finish()]
        return ev

    def describe(self, ev):
        kind, x = ev
        if kind == "msg":
            return "deliver %s %s->%s" % (type(self.chan[x][0][1]).__name__, x[0], x[1])
        if kind == "timer":
            return "wake-up of %s" % (self.timers[x][0],)
        return "run of worker %s finishes" % (getattr(self.runs[x], "worker_key", "?"),)

    def fire(self, ev):
        kind, x = ev
        self.trace.append(self.describe(ev))
        if kind == "msg":
            src, m = self.chan[x].popleft()
            self.deliver(x[1], m, src)
        elif kind == "timer":
            k, m = self.timers.pop(x)
            self.deliver(k, m, self.addr[k])
        else:
            self.runs[x].finish()

    def deliver(self, k, msg, sender):
        """thespian's failure contract: Exception -> the message is delivered once more -> second Exception -> PoisonMessage to the
        sender (no retry for ActorExitRequest, no poison for a PoisonMessage); anything that is not an Exception kills the actor"""
        a = self.actors[k]
        attempts = 1 if isinstance(msg, ta.ActorExitRequest) else 2
        for attempt in range(attempts):
            try:
                m = msg if attempt == 0 else copy.copy(msg)
                a.receiveMessage(m, sender)
                return
            except Exception as e:  # noqa: BLE001 - the runtime's contract
                last = e
            except BaseException:
                self.kill(k)
                return
        if not isinstance(msg, ta.PoisonMessage) and not isinstance(msg, ta.ActorExitRequest):
            self.send(self.addr[k], sender, ta.PoisonMessage(msg, repr(last)))

    def kill(self, k):
        self.dead.add(k)
        p = self.parent.get(k)
        if p is not None and p in self.actors:
            self.chan[(0, p)].append((self.addr[p], ta.ChildActorExited(self.addr[k])))


# --------------------------------------------------------------------------------------------------------------------
# a driver + workers on the runtime
# --------------------------------------------------------------------------------------------------------------------
class MetricsStoreStub:
    opened = True

    def to_externalizable(self, clear=False):
        return None

    def close(self):
        self.opened = False

    def reset_relative_time(self):
        pass

    def flush(self, refresh=True):
        pass


class TelemetryStub:
    """contract of the real devices: detaching queries the cluster once more (IngestPipelineStats, DiskUsageStats, ...) and raises a
    RallyError when the cluster cannot be reached - e.g. after the fatal connection error that is just being reported"""
    cluster_reachable = True

    def on_benchmark_start(self):
        pass

    def on_benchmark_stop(self):
        if not self.cluster_reachable:
            from esrally import exceptions

            raise exceptions.RallyError("A transport error occurred while collecting ingest pipeline stats (cluster unreachable)")


class ProgressStub:
    def print(self, *a, **kw):
        pass

    def finish(self):
        pass


def build_driver(schedule, cores=2, hosts=1, cfg_values=None, metrics_store=None, post_processor=None):
    """real DriverActor + Driver (+ Worker actors once StartBenchmark is delivered); returns the system"""
    install_driver_stubs()
    s = System()
    rc = s.create(Endpoint)
    da_addr = s.create(driver.DriverActor)
    da = s.actors[da_addr.addressDetails]
    cfg = Cfg(cfg_values)
    d = driver.Driver(da, cfg)
    da.driver = d
    da.benchmark_actor = rc
    d.metrics_store = metrics_store if metrics_store is not None else MetricsStoreStub()
    d.telemetry = TelemetryStub()
    d.quiet = True
    d.progress_reporter = ProgressStub()
    d.sample_post_processor = post_processor if post_processor is not None else (lambda samples: None)
    d.track = track.Track("t")
    d.challenge = track.Challenge("c", schedule=schedule)
    d.load_driver_hosts = [{"host": "localhost" if h == 0 else "10.0.0.%d" % h, "cores": cores} for h in range(hosts)]
    s.rc, s.rc_key = s.actors[rc.addressDetails], rc.addressDetails
    s.da, s.da_key, s.D = da, da_addr.addressDetails, d
    s.send(rc, da_addr, driver.StartBenchmark())
    return s


def workers(s):
    return [(wid, a.addressDetails, s.actors[a.addressDetails]) for wid, a in enumerate(s.D.workers)]


def to_worker(s, k):
    return s.chan.get((s.da_key, k), ())


def to_driver(s, k):
    return s.chan.get((k, s.da_key), ())


def names(q):
    return [type(m).__name__ for _, m in q]


def wakeups(s, k):
    return sum(1 for a, _ in s.timers if a == k)
