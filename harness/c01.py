"""C01 — the schedule runs step by step on all clients under any message timing (DESIGN §4 C01).

Deciding step: an inductive invariant INV over global states of the real DriverActor/Driver/Worker objects on the fake actor
runtime.  Abstract states within a size bound are enumerated BY THE SOLVER under the cheap clauses of INV, materialised on the real
objects, filtered by the full INV, and every enabled event is fired once on the real handlers; INV, the progress clause and the
local facts must hold afterwards.  Closed-system runs with state hashing are auxiliary (INV on reachable states, reachable witness
for a counterexample-to-induction, the end-to-end monitors of the property)."""
import collections
import threading
import time

import thespian.actors as ta

from esrally import track
from esrally.driver import driver

from harness import actors, c04
from harness.actors import endless, names, to_driver, to_worker, wakeups
from harness.common import concrete
from symx import core
from symx.core import choose, fresh_bool, fresh_int, fresh_real, observe, shadowed
from symx.explore import Harness

PROPERTY = "C01"
EXPLANATION = ("C01: inductive invariant over global states of the real DriverActor/Driver/Worker (fake actor runtime): the solver "
               "enumerates every abstract state of the bound that satisfies the structural clauses of INV, each is materialised on the real "
               "objects, and every enabled event (message delivery, wake-up, run finishing) is fired once on the real handlers; INV, the "
               "progress clause and the local facts of the barrier must hold afterwards, so histories of any length and every interleaving "
               "are covered. Timestamps are symbolic reals (same start instant for all workers). Closed runs with state hashing are auxiliary.")

OP = track.Operation("s", "search")


def T(name, clients=1, iterations=1, **kw):
    return track.Task(name, OP, iterations=iterations, clients=clients, **kw)


def A():
    return T("A", completes_parent=True)


SHAPES = {
    "seq2x2": (lambda: [T("x", 2), T("y", 2)], 2),
    "seq_3workers": (lambda: [T("x", 3), T("y", 1)], 3),
    "par_named_endless": (lambda: [track.Parallel([A(), T("B", iterations=None)]), T("z", 2)], 2),
    "par_capped": (lambda: [track.Parallel([A(), T("B")], clients=1), T("z")], 2),
    "par_any": (lambda: [track.Parallel([T("C", any_completes_parent=True), T("D", iterations=None, any_completes_parent=True)])], 2),
    "par_capped3on2": (lambda: [track.Parallel([A(), T("B", iterations=None), T("C")], clients=2)], 2),
    "three_elements": (lambda: [T("x"), track.Parallel([A(), T("B", iterations=None)]), T("y", 2)], 2),
    "named_2clients": (lambda: [track.Parallel([T("A", 2, completes_parent=True), T("B", iterations=None)], clients=3), T("z")], 3),
    # several clients per worker: client ids and worker ids differ (clients 0,1 on worker 0, client 2 on worker 1)
    "named_2clients_on_1worker": (lambda: [track.Parallel([T("A", 2, completes_parent=True), T("B", iterations=None)]), T("z")], 2),
    "any_3clients_2workers": (lambda: [track.Parallel([T("C", 2, any_completes_parent=True), T("D", iterations=None, any_completes_parent=True)])], 2),
    # an element with completed-by 'any' that uses fewer clients than the widest element: a worker without any task in it reaches
    # the join point at once, which must not count as "a task finished"
    # over-committed element where a worker runs a finite task and then an endless one, completed by a task on ANOTHER worker: the
    # broadcast may arrive while the finite run is finished but the worker has not yet woken up to start the endless one
    "named_finite_then_endless": (lambda: [track.Parallel([A(), T("X"), T("F"), T("E", iterations=None)], clients=2)], 2),
    "any_idle_worker": (lambda: [T("x", 2), track.Parallel([T("C", any_completes_parent=True)])], 2),
    "any_idle_worker_endless": (lambda: [T("x", 3), track.Parallel([T("C", any_completes_parent=True), T("D", iterations=None, any_completes_parent=True)])], 3),
}


def build(shape):
    """real start_benchmark + Bootstrap + StartWorker on the fake runtime: all workers at join point 0 with JoinPointReached in flight"""
    mk, cores = SHAPES[shape]
    s = actors.build_driver(mk(), cores=cores)
    while True:
        evs = [e for e in s.enabled() if e[0] == "msg" and not isinstance(s.chan[e[1]][0][1], driver.JoinPointReached)]
        if not evs:
            break
        s.fire(evs[0])
    s.timers = [t for t in s.timers if t[0] != s.da_key]  # the driver's own 1 s tick only prints progress (and C07's post-processing)
    s.shape = shape
    return s


# ------------------------------------------------------------------------------------------------------------------
# helpers on worker allocation matrices
# ------------------------------------------------------------------------------------------------------------------
def jp_rows(w):
    n = len(w.client_allocations.allocations[0]["tasks"])
    return [i for i in range(n) if w.client_allocations.tasks(i) and w.client_allocations.is_joinpoint(i)]


def rows_of_element(w, j):
    rows = jp_rows(w)
    return [i for i in range(rows[j] + 1, rows[j + 1]) if w.client_allocations.tasks(i)]


def closing_jp(s, j):
    w = s.actors[s.D.workers[0].addressDetails]
    return w.client_allocations.tasks(jp_rows(w)[j + 1])[0].task


class _Completing:
    """who completes element j, derived from the SCHEDULE (not from the allocator's join point bookkeeping, which is under test)"""

    def __init__(self, clients):
        self.clients_executing_completing_task = clients


def kind_of(s, j):
    tasks = list(s.D.challenge.schedule[j])
    clients = []
    for _, k, w in actors.workers(s):
        if w.client_allocations is None:
            continue
        for i in rows_of_element(w, j):
            for ca in w.client_allocations.tasks(i):
                if ca.task.task.completes_parent:
                    clients.append(ca.client_id)
    if any(t.any_completes_parent for t in tasks):
        return "any", _Completing(clients)
    if any(t.completes_parent for t in tasks):
        return "named", _Completing(sorted(clients))
    return None, _Completing([])


def row_tasks(w, i):
    return [a.task.task for a in w.client_allocations.tasks(i)]


def completing(t):
    return t.completes_parent or t.any_completes_parent


# ------------------------------------------------------------------------------------------------------------------
# abstract <-> concrete states
# ------------------------------------------------------------------------------------------------------------------
PHASES = ["inflight", "armed", "run", "jpr", "wait"]
CCT = [None, "ahead", "behind"]


def materialise(shape, st, times=None):
    """st = (d, sent, ((phase, row_pos, run_done, complete, cct), ...)); returns the system or None if not realisable"""
    s = build(shape)
    D = s.D
    d, sent, ws = st
    for k in list(s.chan):
        s.chan[k].clear()
    s.timers = []
    s.runs = []
    s.submitted = []
    D.current_step = d
    D.complete_current_task_sent = sent
    D.workers_completed_current_step = {}
    me = s.da.myAddress
    for wid, (addr, (phase, rp, run_done, complete, cct)) in enumerate(zip(D.workers, ws)):
        k = addr.addressDetails
        w = s.actors[k]
        rows = jp_rows(w)
        tw, td = s.chan[(s.da_key, k)], s.chan[(k, s.da_key)]
        w.executor_future = None
        w.start_driving = False
        w.complete.clear()
        w.cancel.clear()
        w.sampler = None
        if phase in ("inflight", "armed"):
            idx = rows[d]
            if cct == "ahead":
                tw.append((me, driver.CompleteCurrentTask()))
            if phase == "inflight":
                tw.append((me, driver.Drive(0.0)))
            else:
                w.start_driving = True
                s.timers.append((k, ta.WakeupMessage(0, None)))
            if cct == "behind":
                tw.append((me, driver.CompleteCurrentTask()))
        elif phase == "run":
            er = rows_of_element(w, d)
            if rp >= len(er) or cct == "ahead":
                return None
            idx = er[rp]
            ex = actors.Ex(None, None, w.client_allocations.tasks(idx), None, w.cancel, w.complete, None, None, wid)
            run = actors.Run(ex, s)
            run.worker_key = k
            s.runs.append(run)
            w.executor_future = actors.Fut(run)
            run.finished = run_done
            w.sampler = driver.Sampler(0)
            s.timers.append((k, ta.WakeupMessage(0, None)))
            if cct == "behind":
                tw.append((me, driver.CompleteCurrentTask()))
        else:
            if cct == "ahead" or d + 1 >= len(rows):
                return None
            idx = rows[d + 1]
            if phase == "jpr":
                msg = driver.JoinPointReached(wid, w.client_allocations.tasks(idx))
                if times:
                    msg.worker_timestamp = times[wid][0]
                td.append((addr, msg))
            else:
                D.workers_completed_current_step[wid] = times[wid] if times else (0.0, 0.0)
            if cct == "behind":
                tw.append((me, driver.CompleteCurrentTask()))
        if complete:
            w.complete.set()
        w.current_task_index = idx
        w.next_task_index = idx + 1
    D.currently_completed = len(D.workers_completed_current_step)
    return s


def abstract(s):
    """abstract view of a concrete system (inverse of materialise on INV states)"""
    D = s.D
    d = D.current_step
    out = []
    for wid, k, w in actors.workers(s):
        tw, td = names(to_worker(s, k)), names(to_driver(s, k))
        ahead = "Drive" in tw and "CompleteCurrentTask" in tw[: tw.index("Drive")]
        behind = tw.count("CompleteCurrentTask") - (1 if ahead else 0)
        cct = "ahead" if ahead else ("behind" if behind else None)
        if w.client_allocations is None:
            out.append(("boot",))
            continue
        if w.at_joinpoint():
            if "JoinPointReached" in td:
                ph = "jpr"
            elif wid in D.workers_completed_current_step:
                ph = "wait"
            elif w.start_driving:
                ph = "armed"
            elif "Drive" in tw:
                ph = "inflight"
            else:
                ph = "idle"
            out.append((ph, 0, False, w.complete.is_set(), cct))
        else:
            er = rows_of_element(w, d) if 0 <= d < D.number_of_steps else []
            rp = er.index(w.current_task_index) if w.current_task_index in er else -1
            out.append(("run", rp, bool(w.executor_future and w.executor_future.run.finished), w.complete.is_set(), cct))
    return (d, D.complete_current_task_sent, tuple(out))


# ------------------------------------------------------------------------------------------------------------------
# INV
# ------------------------------------------------------------------------------------------------------------------
def inv(s):
    """returns None if the invariant holds, else the name of the broken clause"""
    try:
        return _inv(s)
    except (IndexError, KeyError) as e:
        # a worker index outside its allocation matrix / on a row the clauses cannot read: not a state of the protocol
        return "1: worker position is not a row of its allocation matrix (%s)" % type(e).__name__


def _inv(s):
    D = s.D
    d, J = D.current_step, D.number_of_steps
    if D.currently_completed != len(D.workers_completed_current_step):
        return "1: currently_completed != number of recorded workers"
    complete_msgs = [m for m in s.rc.got if isinstance(m, driver.BenchmarkComplete)]
    if d == J:
        if len(complete_msgs) + names(s.chan.get((s.da_key, s.rc_key), ())).count("BenchmarkComplete") != 1:
            return "completion: not exactly one BenchmarkComplete at the end"
        for wid, k, w in actors.workers(s):
            if not w.at_joinpoint() or w.executor_future is not None or wakeups(s, k) or names(to_worker(s, k)).count("Drive"):
                return "final: a worker is still active after the last element"
        return None
    if complete_msgs or names(s.chan.get((s.da_key, s.rc_key), ())).count("BenchmarkComplete"):
        return "completion: BenchmarkComplete before the last element"
    if not (-1 <= d < J):
        return "1: step out of range"
    if len(D.workers_completed_current_step) >= len(D.workers):
        return "1: barrier not released although all workers arrived"
    kind, jp = kind_of(s, d) if d >= 0 else (None, None)
    prev_kind = kind_of(s, d - 1)[0] if d >= 1 else None
    phases = {}
    for wid, k, w in actors.workers(s):
        if w.client_allocations is None:
            return None if d == -1 else "boot: worker not started"
        tw, td = names(to_worker(s, k)), names(to_driver(s, k))
        wake = wakeups(s, k)
        if tw.count("Drive") > 1 or td.count("JoinPointReached") > 1:
            return "2: duplicate Drive / JoinPointReached in flight"
        ncct = tw.count("CompleteCurrentTask")
        ahead = "Drive" in tw and "CompleteCurrentTask" in tw[: tw.index("Drive")]
        behind = ncct - (1 if ahead else 0)
        if ncct > 2 or behind > 1:
            return "2: more than one CompleteCurrentTask per element in flight"
        if ahead and prev_kind is None:
            return "2: CompleteCurrentTask of a previous element without completed-by"
        if not w.client_allocations.tasks(w.current_task_index):
            return "1: worker rests on a filler row (no client of it has anything there); rows without tasks are skipped, never waited on"
        if w.at_joinpoint():
            q = w.client_allocations.tasks(w.current_task_index)[0].task.id
            if w.executor_future is not None or w.cancel.is_set():
                return "phase: executor or cancel flag at a join point"
            if "JoinPointReached" in td:
                ph = "jpr"
                ok = q == d + 1 and wid not in D.workers_completed_current_step and not wake and not w.start_driving and "Drive" not in tw and not w.complete.is_set()
            elif wid in D.workers_completed_current_step:
                ph = "wait"
                ok = q == d + 1 and not wake and not w.start_driving and "Drive" not in tw and not w.complete.is_set()
            elif w.start_driving:
                ph = "armed"
                ok = q == d and wake == 1 and "Drive" not in tw and d >= 0
            elif "Drive" in tw:
                ph = "inflight"
                ok = q == d and not wake and not w.complete.is_set() and d >= 0
            else:
                return "progress: worker idle at join point %d (step %d): no Drive, no JoinPointReached, not counted" % (q, d)
            if not ok:
                return "1: worker in phase %s at join point %d while the driver is at step %d (wake-ups %d)" % (ph, q, d, wake)
            if ahead and ph != "inflight":
                return "2: stale CompleteCurrentTask after Drive was consumed"
        else:
            ph = "run"
            er = rows_of_element(w, d) if d >= 0 else []
            if w.current_task_index not in er:
                return "1 (barrier): worker executes a row outside element %d" % d
            if wake != 1:
                return "progress: running worker with %d pending wake-ups" % wake
            if w.executor_future is None:
                return "phase: running without executor"
            if ahead or "Drive" in tw:
                return "2: Drive or stale CompleteCurrentTask in flight to a running worker"
        if behind and not D.complete_current_task_sent:
            return "2: CompleteCurrentTask in flight but not recorded as sent"
        phases[wid] = (ph, w, behind)
    if d < 0:
        return None
    waiting = {wid for wid, (ph, _, _) in phases.items() if ph == "wait"}
    # with 'any' the element ends when the first TASK finishes: only workers that run a task of this element can report that
    busy = {wid for wid, (ph, w, _) in phases.items() if rows_of_element(w, d)}
    comp_workers = {D.clients_per_worker[c] for c in jp.clients_executing_completing_task} if kind == "named" else set()
    if kind is None and D.complete_current_task_sent:
        return "4: CompleteCurrentTask sent in an element without completed-by"
    if D.complete_current_task_sent:
        if kind == "named" and not comp_workers <= waiting:
            return "3: CompleteCurrentTask sent before the completing clients arrived"
        if kind == "any" and not (waiting & busy):
            return "3: CompleteCurrentTask sent in a completed-by 'any' element before any of its tasks finished (only workers without a task in it arrived)"
    else:
        if kind == "named" and comp_workers <= waiting and waiting:
            return "3: completing clients arrived but CompleteCurrentTask not sent"
        if kind == "any" and (waiting & busy):
            return "3: a worker that ran a task of the element arrived but CompleteCurrentTask not sent"
    for wid, (ph, w, behind) in phases.items():
        if ph in ("inflight", "armed", "run"):
            er = rows_of_element(w, d)
            rest = [i for i in er if ph != "run" or i >= w.current_task_index]
            tasks = [t for i in rest for t in row_tasks(w, i)]
            has_endless = any(endless(t) for t in tasks)
            if w.complete.is_set():
                cur = row_tasks(w, w.current_task_index) if ph == "run" else []
                own_done = ph == "run" and w.executor_future.run.finished and any(completing(t) for t in cur)
                earlier = ph == "run" and any(completing(t) for i in er if i < w.current_task_index for t in row_tasks(w, i))
                if kind is None:
                    return "4: `complete` set on a worker in an element without completed-by (would cut its tasks short)"
                if not (D.complete_current_task_sent or own_done or earlier):
                    return "4: `complete` set without cause (%s)" % ph
            else:
                if ph == "run" and w.executor_future.run.finished and any(completing(t) for t in row_tasks(w, w.current_task_index)):
                    return "executor contract: completing run finished but `complete` not set"
                if D.complete_current_task_sent and has_endless and not behind:
                    return "3: completion obligation lost (%s): endless task left, `complete` clear, no CompleteCurrentTask in flight" % ph
            if has_endless and kind is None:
                return "shape: endless task outside a completed-by element"
    return None


# ------------------------------------------------------------------------------------------------------------------
# reachable abstract states of a shape (closed system, explicit exploration with state hashing) + witness schedules
# ------------------------------------------------------------------------------------------------------------------
_REACH = {}


def reachable(shape, limit=20000, deadline=None):
    """abstract state -> schedule (list of event indices) reaching it; cached per process"""
    if shape in _REACH:
        return _REACH[shape]
    reach = {}
    frontier = collections.deque([[]])
    seen = set()
    complete = True
    while frontier:
        path = frontier.popleft()
        s = build(shape)
        for i in path:
            s.fire(enabled_events(s)[i])
        a = abstract(s)
        if a not in reach:
            reach[a] = path
        evs = enabled_events(s)
        for i in range(len(evs)):
            s2 = build(shape)
            for j in path + [i]:
                s2.fire(enabled_events(s2)[j])
            fp = fingerprint(s2)
            if fp in seen:
                continue
            seen.add(fp)
            frontier.append(path + [i])
        if len(seen) > limit or (deadline and time.time() > deadline):
            complete = False
            break
    _REACH[shape] = (reach, complete)
    return _REACH[shape]


def enabled_events(s):
    """enabled events minus stutter steps: a worker's poll wake-up while its run is still going only re-arms itself"""
    out = []
    for e in s.enabled():
        if e[0] == "timer":
            k = s.timers[e[1]][0]
            a = s.actors[k]
            if isinstance(a, driver.DriverActor):
                continue
            if isinstance(a, driver.Worker):
                fut = a.executor_future
                if not a.start_driving and fut is not None and not fut.done() and not a.cancel.is_set():
                    continue
        out.append(e)
    return out


SKIP = {"logger", "_myRef", "pool", "config", "track", "driver_actor", "progress_reporter", "metrics_store", "telemetry", "sample_post_processor",
        "es_client_factory", "challenge", "sys", "ex", "wakeup_interval", "sample_queue_size", "on_error", "client_contexts", "sampler"}


def canon(o, s, depth=0, seen=None):
    seen = seen if seen is not None else set()
    if o is None or isinstance(o, (bool, int, str, bytes)):
        return o
    if isinstance(o, float):
        return "f"
    if isinstance(o, threading.Event):
        return ("Ev", o.is_set())
    if isinstance(o, ta.ActorAddress):
        return ("A", o.addressDetails)
    if isinstance(o, (list, tuple, collections.deque)):
        return tuple(canon(x, s, depth + 1, seen) for x in o)
    if isinstance(o, dict):
        return tuple(sorted((repr(canon(k, s, depth + 1, seen)), canon(v, s, depth + 1, seen)) for k, v in o.items()))
    if isinstance(o, driver.JoinPoint):
        return ("JP", o.id)
    if isinstance(o, (track.Task, track.Parallel, track.Operation, driver.TaskAllocation, driver.ClientAllocations, driver.Sampler)):
        return type(o).__name__ + str(getattr(o, "name", ""))
    if isinstance(o, actors.Fut):
        return ("Fut", s.runs.index(o.run), o.run.finished)
    if id(o) in seen or depth > 6:
        return "~"
    seen.add(id(o))
    if hasattr(o, "__dict__"):
        return (type(o).__name__,) + tuple((k, canon(v, s, depth + 1, seen)) for k, v in sorted(vars(o).items()) if k not in SKIP)
    return type(o).__name__


def fingerprint(s):
    acts = tuple((k, canon(a, s)) for k, a in sorted(s.actors.items()) if not isinstance(a, actors.Endpoint))
    D = s.D
    d = tuple((k, canon(getattr(D, k), s)) for k in ("currently_completed", "workers_completed_current_step", "current_step", "complete_current_task_sent",
                                                     "number_of_steps"))
    ch = tuple((k, tuple(type(m).__name__ for _, m in q)) for k, q in sorted(s.chan.items()) if q)
    tm = tuple(sorted((a, str(m.payload)) for a, m in s.timers))
    rn = tuple((r.finished, r.error is not None) for r in s.runs)
    got = tuple(type(m).__name__ for m in s.rc.got)
    return hash((acts, d, ch, tm, rn, got))


# ------------------------------------------------------------------------------------------------------------------
# deciding harness: one event from every INV state
# ------------------------------------------------------------------------------------------------------------------
def _worker_state(wid, d, J, nrows, kind, prev_kind, sent):
    """solver-enumerated abstract worker state under the structural clauses of INV (the full INV is checked on the materialised state)"""
    ph = fresh_int("w%d_phase" % wid, 0, 4)
    rp = fresh_int("w%d_row" % wid, 0, max(nrows - 1, 0))
    done = fresh_bool("w%d_run_finished" % wid)
    comp = fresh_bool("w%d_complete_flag" % wid)
    cct = fresh_int("w%d_cct_in_flight" % wid, 0, 2)
    z3 = core.z3
    if core.symbolic():
        core.assume(core.SBool(z3.And(
            z3.Implies(ph.z != 2, z3.And(rp.z == 0, z3.Not(done.z))),  # row / run state only while running
            z3.Implies(z3.Or(ph.z == 3, ph.z == 4, ph.z == 0), z3.Not(comp.z)),  # `complete` clear at join points without Drive
            z3.Implies(cct.z == 1, z3.Or(ph.z == 0, ph.z == 1)),  # a stale CompleteCurrentTask only ahead of / with the Drive
            z3.Implies(z3.Or(ph.z == 3, ph.z == 4), d + 1 <= J),
            z3.Implies(cct.z == 2, z3.BoolVal(bool(sent))),  # a CompleteCurrentTask of this element in flight only if recorded as sent
            z3.Implies(cct.z == 1, z3.BoolVal(prev_kind is not None)),
            z3.Implies(comp.z, z3.BoolVal(kind is not None)),  # `complete` only in completed-by elements
            z3.Implies(z3.BoolVal(d < 0), z3.Or(ph.z == 3, ph.z == 4)),  # before the first element everybody is at join point 0
            z3.Implies(ph.z == 2, z3.BoolVal(nrows > 0)))))
    return (PHASES[concrete(ph)], concrete(rp), bool(done), bool(comp), CCT[concrete(cct)])


def inductive_step(sl):
    shape, d, sent = sl["shape"], sl["d"], sl["sent"]
    s0 = build(shape)
    W, J = len(s0.D.workers), s0.D.number_of_steps
    kind = kind_of(s0, d)[0] if d >= 0 else None
    prev_kind = kind_of(s0, d - 1)[0] if d >= 1 else None
    if sent and kind is None:
        return  # INV: nothing is sent in an element without completed-by
    wl = actors.workers(s0)
    ws = tuple(_worker_state(wid, d, J, len(rows_of_element(wl[wid][2], d)) if d >= 0 else 0, kind, prev_kind, sent) for wid in range(W))
    if all(w[0] == "wait" for w in ws):
        return  # INV: the barrier is released as soon as everybody arrived
    st = (d, sent, ws)
    # symbolic clocks: when each waiting / arriving worker ended its task (its own clock) and when the driver heard of it
    times = {wid: (fresh_real("w%d_ended_at_worker_clock" % wid, 0), fresh_real("w%d_heard_at_master_clock" % wid, 0)) for wid in range(W)}
    s = materialise(shape, st, times)
    if s is None:
        return
    broken = inv(s)
    if broken is not None:
        return  # not an INV state
    evs = enabled_events(s)
    core.note("pre-state", st)
    if not evs:
        observe("progress: a non-final INV state always has an enabled event (no hang)", s.D.current_step == s.D.number_of_steps)
        return
    i = choose(len(evs), "event")
    ev = evs[i]
    core.note("event", s.describe(ev))
    pre_got = len(s.rc.got)
    pre_to_rc = len(s.chan.get((s.da_key, s.rc_key), ()))
    pre_drives = {k: names(to_worker(s, k)).count("Drive") for _, k, _ in actors.workers(s)}
    pre_cct = {k: names(to_worker(s, k)).count("CompleteCurrentTask") for _, k, _ in actors.workers(s)}
    pre_sent = s.D.complete_current_task_sent
    is_jpr = ev[0] == "msg" and isinstance(s.chan[ev[1]][0][1], driver.JoinPointReached)
    arrivals_before = len(s.D.workers_completed_current_step)
    now = fresh_real("master_clock_now", 0)
    arriving = s.chan[ev[1]][0][1].worker_id if is_jpr else None
    # the master clock is symbolic where the driver computes start instants; worker-side handlers only build a timedelta from it
    with shadowed(driver, (), extra={"time": _Clock(now)} if is_jpr else {}):
        try:
            s.fire(ev)
        except Exception as e:  # noqa: BLE001 - a handler must not fail in a fault-free state
            core.note("handler raised", repr(e))
            observe("handlers do not fail on fault-free INV states", False)
            return
    failures = [(k, type(m).__name__, getattr(m, "message", getattr(m, "details", ""))) for k, q in s.chan.items() for _, m in q
                if isinstance(m, (actors.actor.BenchmarkFailure, ta.PoisonMessage))]
    if failures:
        core.note("failure messages", [(f[0], f[1], str(f[2])[-300:]) for f in failures])
    observe("no handler fails on a fault-free INV state (no BenchmarkFailure / PoisonMessage appears)", not failures)
    core.trace("events", len(evs))
    after = inv(s)
    core.note("post-state", abstract(s))
    if after is not None:
        core.note("INV clause broken", after)
        _report_cti(shape, st, s.trace[-1], after)
    # ---- local facts of the barrier
    to_rc = [m for _, m in list(s.chan.get((s.da_key, s.rc_key), ()))[pre_to_rc:]] + s.rc.got[pre_got:]
    new_drives = {k: names(to_worker(s, k)).count("Drive") - pre_drives[k] for _, k, _ in actors.workers(s)}
    new_cct = {k: names(to_worker(s, k)).count("CompleteCurrentTask") - pre_cct[k] for _, k, _ in actors.workers(s)}
    if is_jpr:
        last = arrivals_before + 1 == W
        final = d + 1 == J
        if last:
            observe("last arrival: counters reset", s.D.currently_completed == 0 and s.D.workers_completed_current_step == {} and not s.D.complete_current_task_sent)
            observe("last arrival: the driver moves on by exactly one step", s.D.current_step == d + 1)
            if final:
                observe("after the last element: exactly one BenchmarkComplete, no Drive", [type(m).__name__ for m in to_rc] == ["BenchmarkComplete"]
                        and not any(new_drives.values()))
            else:
                observe("barrier released: exactly one Drive per worker and one TaskFinished", all(v == 1 for v in new_drives.values())
                        and [type(m).__name__ for m in to_rc] == ["TaskFinished"])
                # same start instant for all workers on the master clock
                start_next = None
                for wid, k, w in actors.workers(s):
                    drive = [m for _, m in to_worker(s, k) if isinstance(m, driver.Drive)][-1]
                    ended, heard = times[wid]
                    if wid == arriving:
                        heard = now  # the last arrival is heard of right now
                    inst = drive.client_start_timestamp - ended + heard  # the worker's start instant expressed on the master clock
                    if start_next is None:
                        start_next = inst
                    else:
                        observe("all workers are told to start at the same instant (master clock), whatever their clock offsets", inst == start_next)
        else:
            observe("not the last arrival: nobody is driven on, nothing reported", not any(v > 0 for v in new_drives.values()) and not to_rc and s.D.current_step == d)
    else:
        observe("only the driver's barrier drives workers / reports progress", not any(v > 0 for v in new_drives.values()) and not to_rc)
    observe("CompleteCurrentTask at most once per element and worker", all(v <= 1 for v in new_cct.values()) and not (pre_sent and any(v > 0 for v in new_cct.values())))
    if any(v > 0 for v in new_cct.values()):
        observe("CompleteCurrentTask goes to every worker", all(v == 1 for v in new_cct.values()))


class _Clock:
    def __init__(self, now):
        self.now = now

    def perf_counter(self):
        return self.now

    def time(self):
        return self.now


def _report_cti(shape, st, event_text, clause):
    """a counterexample-to-induction is a violation only together with a schedule from the initial state (DESIGN §C01)"""
    reach, complete = reachable(shape, deadline=time.time() + 60)
    if st in reach:
        # confirm on the really reached state
        s = build(shape)
        for j in reach[st]:
            s.fire(enabled_events(s)[j])
        evs = [e for e in enabled_events(s) if s.describe(e) == event_text]
        if evs:
            before = inv(s)
            s.fire(evs[0])
            after = inv(s)
            if before is None and after is not None:
                core.note("schedule from the initial state", s.trace)
                observe("INV preserved by every event from every reachable INV state [%s]" % after, False)
                return
    core.inconclusive("CTI without reachable witness: shape=%s pre-state=%s event=[%s] breaks [%s]; strengthen INV%s"
                      % (shape, st, event_text, clause, "" if complete else " (reachability search incomplete)"))


def initial_state(sl):
    s = build(sl["shape"])
    observe("H0: the initial state (all workers started, step -1) satisfies INV", inv(s) is None)
    core.note("inv", inv(s))
    fresh_int("dummy", 0, 0)


# ------------------------------------------------------------------------------------------------------------------
# auxiliary: closed runs with state hashing, end-to-end monitors of the property
# ------------------------------------------------------------------------------------------------------------------
def monitors(s):
    """end-to-end monitors on a reachable state; returns a violation text or None"""
    D = s.D
    # exactly once: every (worker, row) is submitted at most once
    keys = [(k, rows) for (k, rows, _) in s.submitted]
    if len(set(keys)) != len(keys):
        return "a (client, task) row is executed twice"
    # barrier: all unfinished or polled runs belong to the driver's current element
    for wid, k, w in actors.workers(s):
        if w.client_allocations is not None and not w.at_joinpoint():
            if not (0 <= D.current_step < D.number_of_steps) or w.current_task_index not in rows_of_element(w, D.current_step):
                return "barrier: worker %d runs a row of another element than step %d" % (wid, D.current_step)
            if kind_of(s, D.current_step)[0] is None and w.complete.is_set():
                return "a task of an element without completed-by would be cut short (`complete` set)"
    n_complete = sum(1 for m in s.rc.got if isinstance(m, driver.BenchmarkComplete))
    if n_complete > 1 or (n_complete == 1 and not D.finished()):
        return "BenchmarkComplete reported %d times / before the end" % n_complete
    return None


def final_checks(s):
    """at quiescence"""
    if not any(isinstance(m, driver.BenchmarkComplete) for m in s.rc.got):
        return "hang: no event enabled and no BenchmarkComplete (step %d of %d)" % (s.D.current_step, s.D.number_of_steps)
    # every row of every element was either executed once or legitimately skipped (element completed)
    executed = {(k, rows) for (k, rows, _) in s.submitted}
    for wid, k, w in actors.workers(s):
        for j in range(s.D.number_of_steps):
            for i in rows_of_element(w, j):
                rows = tuple((ca.client_id, ca.task.task.name) for ca in w.client_allocations.tasks(i))
                if (k, rows) not in executed and kind_of(s, j)[0] is None:
                    return "a task of an element without completed-by was never executed: %s" % (rows,)
    finished = [type(m).__name__ for m in s.rc.got]
    if finished.count("TaskFinished") != s.D.number_of_steps:  # one per released barrier except the last (join points 0..J-1)
        return "TaskFinished reported %d times for %d elements" % (finished.count("TaskFinished"), s.D.number_of_steps)
    return None


def explore_closed(shape, deadline, max_states=200000):
    visited = set()
    transitions = 0
    stack = [[]]
    violation = None
    inv_broken = None
    exhaustive = True
    while stack:
        path = stack.pop()
        s = build(shape)
        for i in path:
            s.fire(enabled_events(s)[i])
        evs = enabled_events(s)
        if not evs:
            r = final_checks(s)
            if r and violation is None:
                violation = (r, path, list(s.trace))
            continue
        for i in range(len(evs)):
            s2 = build(shape)
            for j in path + [i]:
                s2.fire(enabled_events(s2)[j])
            transitions += 1
            fp = fingerprint(s2)
            if fp in visited:
                continue
            visited.add(fp)
            r = monitors(s2)
            if r and violation is None:
                violation = (r, path + [i], list(s2.trace))
            b = inv(s2)
            if b and inv_broken is None:
                inv_broken = (b, path + [i], list(s2.trace))
            stack.append(path + [i])
        if time.time() > deadline or len(visited) > max_states:
            exhaustive = False
            break
    return {"states": len(visited), "transitions": transitions, "violation": violation, "inv_broken": inv_broken, "exhaustive": exhaustive}


def closed_runs(tier, deadline):
    t0 = time.time()
    shapes = list(SHAPES)
    out = {"name": "closed_runs", "kind": "auxiliary explicit-state exploration of the real actors with state hashing (enumeration, not solver-decided)",
           "states": 0, "transitions": 0, "evaluations": 0, "distinct_nontrivial": 0, "exhaustive": True, "violations": [], "errors": [], "shapes": {}}
    per_shape = max(5.0, (deadline - t0 - 10) / len(shapes))
    for sh in shapes:
        r = explore_closed(sh, min(deadline, time.time() + per_shape))
        out["states"] += r["states"]
        out["transitions"] += r["transitions"]
        out["shapes"][sh] = {"states": r["states"], "transitions": r["transitions"], "exhaustive": r["exhaustive"],
                             "inv_holds_on_reachable_states": r["inv_broken"] is None}
        out["exhaustive"] = out["exhaustive"] and r["exhaustive"]
        if r["violation"]:
            text, path, trace = r["violation"]
            out["violations"].append({"inputs": {"shape": sh, "schedule": path}, "failed": [text], "slice": {"shape": sh}, "trace": trace[-25:]})
        if r["inv_broken"]:
            text, path, trace = r["inv_broken"]
            # INV broken on a reachable state: either INV is too strong (machinery) or the code left the invariant (the monitors decide)
            out["shapes"][sh]["inv_broken"] = {"clause": text, "schedule": path, "trace": trace[-25:]}
            if not r["violation"]:
                out["violations"].append({"inputs": {"shape": sh, "schedule": path}, "failed": ["INV broken on a reachable state: " + text], "slice": {"shape": sh},
                                          "trace": trace[-25:]})
    out["evaluations"] = out["transitions"]
    out["distinct_nontrivial"] = out["states"]
    out["wall_s"] = round(time.time() - t0, 1)
    return out


def _replay_closed(entry):
    sh, path = entry["inputs"]["shape"], entry["inputs"]["schedule"]
    s = build(sh)
    bad = None
    for i in path:
        evs = enabled_events(s)
        if i >= len(evs):
            return True, "schedule no longer applies (event %d of %d)" % (i, len(evs))
        s.fire(evs[i])
        bad = bad or monitors(s) or inv(s)
    if not enabled_events(s):
        bad = bad or final_checks(s)
    msg = "shape %s, %d events:\n  %s\n  -> %s" % (sh, len(path), "\n  ".join(s.trace[-25:]), bad or "no violation")
    return bad is None, msg


AUX = [closed_runs]
AUX_REPLAY = {"closed_runs": _replay_closed}

READS = [driver.Driver.start_benchmark, driver.Driver.joinpoint_reached, driver.Driver.move_to_next_task, driver.Driver.may_complete_current_task,
         driver.Driver.finished, driver.DriverActor.receiveMsg_JoinPointReached, driver.DriverActor.receiveMsg_StartBenchmark,
         driver.DriverActor.drive_at, driver.DriverActor.complete_current_task, driver.DriverActor.on_task_finished,
         driver.DriverActor.on_benchmark_complete, driver.Worker.receiveMsg_StartWorker, driver.Worker.receiveMsg_Drive,
         driver.Worker.receiveMsg_CompleteCurrentTask, driver.Worker.receiveMsg_WakeupMessage, driver.Worker.drive, driver.Worker.at_joinpoint,
         driver.Worker.current_tasks_and_advance, driver.ClientAllocations, driver.Allocator.allocations, driver.JoinPoint]
STUBS = ["thespian transport replaced by the fake actor runtime (FIFO per sender/receiver pair, any enabled event may fire next)",
         "load-generating thread (AsyncIoAdapter) replaced by the executor contract of DESIGN §2.2, established for the real AsyncExecutor by C04 completion_seam / C05",
         "metrics store, telemetry, progress reporter, config/track loading"]


def _step_slices(tier):
    out = []
    for sh in SHAPES:
        s = build(sh)
        J = s.D.number_of_steps
        W = len(s.D.workers)
        if tier == "quick" and W > 2 and sh != "seq_3workers":
            continue
        for d in range(-1, J):
            for sent in (False, True):
                if sent and (d < 0 or kind_of(s, d)[0] is None):
                    continue
                out.append({"shape": sh, "d": d, "sent": sent, "_w": W * 3})
    return out


def late_reset_wakeup(sl):
    """Outside test mode the driver arms a wake-up after every element (to reset the relative time of the metrics store when the next element
    starts). Wake-ups may be late by any amount: whenever this one is delivered - also after the race has completed - race control sees exactly
    one BenchmarkComplete and no failure after it."""
    n_tasks = sl["tasks"]
    schedule = [track.Task("t%d" % i, track.Operation("op%d" % i, "bulk"), clients=1, warmup_iterations=0, iterations=1) for i in range(n_tasks)]
    s = actors.build_driver(schedule, cores=1, cfg_values={("track", "test.mode.enabled"): False})
    marker = driver.DriverActor.RESET_RELATIVE_TIME_MARKER

    def is_reset(ev):
        return ev[0] == "timer" and s.timers[ev[1]][0] == s.da_key and getattr(s.timers[ev[1]][1], "payload", None) == marker

    steps = 0
    release_after = None

    class SteppingClock:
        """every look at the clock finds it two seconds later: start times the driver hands out are always reached at the next wake-up"""
        now = [1000.0]

        @classmethod
        def perf_counter(cls):
            cls.now[0] += 2.0
            return cls.now[0]

        time = perf_counter

    with shadowed(driver, (), extra={"time": SteppingClock}):
        steps, release_after = _run_with_late_resets(s, is_reset, steps, release_after)
    to_rc = [type(m).__name__ for (a, b, m) in s.sent if b == s.rc_key]
    core.trace("events", steps)
    core.note("messages to race control", to_rc)
    observe("the race comes to an end", steps < 400 and "BenchmarkComplete" in to_rc)
    observe("completion is reported exactly once", to_rc.count("BenchmarkComplete") == 1)
    observe("no failure is reported for a race that ran without any fault (however late the reset wake-up is)", "BenchmarkFailure" not in to_rc)
    observe("one TaskFinished per element before the completion", to_rc[:-1].count("TaskFinished") == n_tasks or to_rc.count("TaskFinished") == n_tasks)


def _run_with_late_resets(s, is_reset, steps, release_after):
    while steps < 400:
        ev = s.enabled()
        resets = [e for e in ev if is_reset(e)]
        # messages first, then runs that can finish, then the periodic wake-ups (which would otherwise starve everything else)
        others = sorted([e for e in ev if not is_reset(e)], key=lambda e: {"msg": 0, "fin": 1, "timer": 2}[e[0]])
        if resets and release_after is None:
            # the solver picks how late the wake-up is: after 0..12 further events, or only when nothing else is left to happen
            release_after = steps + core.choose(14, "reset_wakeup_late_by_events")
            if release_after == steps + 13:
                release_after = 10 ** 9
        if resets and (steps >= (release_after or 0) or not others):
            s.fire(resets[0])
            release_after = None
        elif others:
            s.fire(others[0])
        else:
            break
        steps += 1
    return steps, release_after


def adapter_completion_seam(sl):
    """Contract (3) of the modelled executor run (DESIGN 2.2), checked on the real AsyncIoAdapter.run: a worker that hosts ANY subset of the
    clients of the completed-by task (the other clients may live on other workers) sets `complete` when its own clients of that task have
    finished, which ends the dependent tasks it hosts; the named task itself runs all its iterations on every hosted client."""
    import asyncio

    from esrally.client import context as client_context
    from harness.common import StubCfg

    named_clients = 2
    n_iter = concrete(fresh_int("iterations_of_the_named_task", 1, 2))
    long_run = 400
    named = track.Task("named", track.Operation("named-op", "verif-op"), clients=named_clients, warmup_iterations=0, iterations=n_iter, completes_parent=True)
    dependent = track.Task("dependent", track.Operation("dep-op", "verif-op"), clients=1, warmup_iterations=0, iterations=long_run)
    matrix = driver.Allocator([track.Parallel([named, dependent])]).allocations
    # which of the three clients this worker hosts: at least one client of the named task
    mask = concrete(fresh_int("clients_hosted_by_this_worker", 1, 7))
    hosted = [c for c in range(3) if mask >> c & 1]
    if not any(c < named_clients for c in hosted):
        observe("(worker without a client of the named task: completion arrives by CompleteCurrentTask, see inductive_step)", True)
        return
    ca = driver.ClientAllocations()
    for c in hosted:
        ca.add(c, matrix[c])
    calls = collections.Counter()

    class EsStub(client_context.RequestContextHolder):
        def __init__(self, client_id):
            self.client_id = client_id

        async def close(self):
            pass

    class Factory:
        def __init__(self, hosts, options, distribution_version=None, distribution_flavor=None):
            pass

        def create_async(self, api_key=None, client_id=None):
            return EsStub(client_id)

    class ClientNs:
        EsClientFactory = Factory

    class Source:
        infinite = True

        def partition(self, i, n):
            return self

        def params(self):
            return {}

    class TrackNs:
        @staticmethod
        def operation_parameters(t, task):
            return Source()

        def __getattr__(self, name):
            return getattr(track, name)

    class Rn:
        completed = None
        percent_completed = None

        def __init__(self, op_type):
            pass

        async def __aenter__(self):
            return self

        async def __aexit__(self, *a):
            return False

        async def __call__(self, es, params):
            calls[es["default"].client_id] += 1
            es["default"].on_request_start()
            await asyncio.sleep(0)
            es["default"].on_request_end()
            return {"weight": 1, "unit": "ops"}

    class Hosts:
        all_hosts = {"default": [{"host": "localhost", "port": 9200}]}

    cfg = StubCfg({("driver", "profiling"): False, ("driver", "assertions"): False, ("system", "async.debug"): False, ("client", "hosts"): Hosts,
                   ("client", "options"): {"default": {}}, ("mechanic", "distribution.version"): None, ("mechanic", "distribution.flavor"): None})
    contexts = {c: type("Ctx", (), {"api_key": None})() for c in hosted}
    complete = threading.Event()
    row = [r for r in range(len(matrix[0])) if any(isinstance(matrix[c][r], driver.TaskAllocation) for c in hosted)][0]
    with shadowed(driver, (), extra={"client": ClientNs, "track": TrackNs()}), shadowed(driver.runner, (), extra={"runner_for": Rn}):
        sampler = driver.Sampler(start_timestamp=time.perf_counter())
        adapter = actors.REAL["AsyncIoAdapter"](cfg, None, ca.tasks(row), sampler, threading.Event(), complete, "continue", contexts, 0)
        asyncio.run(adapter.run())
    core.trace("requests", sum(calls.values()))
    core.note("hosted clients / requests per client", (hosted, dict(calls)))
    observe("the worker's run sets `complete` once its clients of the named task have finished (also when other clients of that task live elsewhere)",
            complete.is_set())
    for c in hosted:
        if c < named_clients:
            observe("client %d of the named task runs all its iterations" % c, calls[c] == n_iter)
        else:
            observe("the dependent task on this worker ends when the named task is done here, not after its own %d iterations" % long_run, calls[c] < long_run)



HARNESSES = [
    Harness("initial_state", initial_state, "bounded-exhaustive", lambda tier: [{"shape": sh} for sh in SHAPES], reads=READS, stubs=STUBS,
            doc="H0: initial state satisfies INV"),
    Harness("inductive_step", inductive_step, "symbolic", _step_slices, reads=READS, stubs=STUBS,
            assumptions=["INV (DESIGN §C01) on the pre-state", "executor contract (1)-(4) of DESIGN §2.2"],
            bounds={"shapes": sorted(SHAPES), "workers": "<=2 quick / <=3 thorough (plus one 3-worker sequential shape)", "elements": "<=3",
                    "per worker": "phase x row <=3 x run finished x complete flag x CompleteCurrentTask in flight (none/ahead of Drive/behind)",
                    "history length": "unbounded (induction)", "timestamps": "symbolic reals"},
            real_valued=True, doc="H1/H2: every enabled event from every INV state preserves INV, progress and the local barrier facts"),
]
HARNESSES.append(Harness("executor_seam", c04.completion_seam, "symbolic",
                         lambda tier: [{"completes": c, "any": a} for (c, a) in ((False, False), (True, False), (False, True))],
                         reads=[driver.AsyncExecutor.__call__], stubs=c04.STUBS, real_valued=True,
                         doc="assume/guarantee seam: the real AsyncExecutor honours the executor contract used by the actor harnesses (shared with C04)"))
HARNESSES.append(Harness("late_reset_wakeup", late_reset_wakeup, "bounded-exhaustive", lambda tier: [{"tasks": 1}, {"tasks": 2}],
                         reads=[driver.DriverActor.receiveMsg_WakeupMessage, driver.DriverActor.on_task_finished, driver.Driver.reset_relative_time, driver.Driver.move_to_next_task],
                         stubs=["fake actor runtime, modelled executor runs, metrics store / telemetry stubs (as in closed_runs); NOT in test mode: elements start one second after the barrier"],
                         bounds={"elements": "1..2 single-client tasks", "lateness of each reset wake-up": "0..12 further events or until nothing else can happen"},
                         doc="a late 'reset relative time' wake-up never turns a completed race into a failed one"))
HARNESSES.append(Harness("adapter_completion_seam", adapter_completion_seam, "bounded-exhaustive", lambda tier: [{}],
                         reads=[actors.REAL["AsyncIoAdapter"].run, driver.AsyncExecutor.__call__],
                         stubs=["EsClientFactory, track.operation_parameters, runner registry (stub runner yielding to the event loop once per request)"],
                         assumptions=["runs on a real event loop and the real clock (nothing symbolic: the finite family of client subsets a worker can host)"],
                         bounds={"element": "parallel of a completed-by task with 2 clients and a dependent task with 1 client", "hosted clients": "every subset of the 3 clients",
                                 "iterations of the named task": "1..2"},
                         doc="executor contract (3) on the real AsyncIoAdapter for workers hosting only some clients of the completed-by task"))
BUDGET = {"quick": 170, "thorough": 1200}
