"""C06 — throughput counts every operation exactly once, however samples are batched (DESIGN §4 C06).

One-step inductive harness on the real ThroughputCalculator: arbitrary carried TaskStats state satisfying the
representation invariant "between two calls", one calculate(batch) with an arbitrary batch.
"""
from esrally import metrics, track
from esrally.driver import driver

from harness.common import concrete
from symx import core
from symx.core import fresh_bool, fresh_int, fresh_real, implies, observe, s_and, s_or, shadowed
from symx.explore import Harness

PROPERTY = "C06"
EXPLANATION = ("C06: conservation of operations across post-processing batches is shown as a one-step inductive invariant of the real "
               "ThroughputCalculator.calculate: from ANY carried TaskStats state (within the size bound) that satisfies the stated "
               "representation invariant, and ANY batch, ops(total_count)+ops(unprocessed) after the call equals the same sum before "
               "plus the batch; hence by induction for every batching of every stream.")

TASK = track.Task("t", track.Operation("op", "bulk"))
BI = 1  # bucket interval used by the driver (SamplePostprocessor passes 1 by default)


class S:
    """Same attribute surface as driver.Sample as far as ThroughputCalculator reads it."""

    def __init__(self, t, ops, st, period, gid, throughput=None, unit="docs"):
        self.absolute_time = t
        self.relative_time = t
        self.total_ops = ops
        self.sample_type = st
        self.task = TASK
        self.throughput = throughput
        self.time_period = period
        self.total_ops_unit = unit
        self.client_id = 0
        self.gid = gid


def _samples(prefix, n, start):
    out = []
    for i in range(n):
        t = fresh_real("%st%d" % (prefix, i))
        ops = fresh_int("%sops%d" % (prefix, i), 0)
        st = fresh_int("%stype%d" % (prefix, i), 0, 1)
        # a task's samples may carry different units: a rejected request under on-error=continue is recorded as 1 "ops"
        out.append(S(t, ops, st, 0, "%s%d" % (prefix, i), unit="ops" if (i + len(prefix)) % 2 == 0 else "docs"))
    return out


def _state(task, stype, start):
    """a TaskStats as the code itself creates it on the first sample of a task (first request rejected: unit "ops"); the
    harness then overwrites the fields of the representation invariant. Not calling the constructor keeps the harness
    independent of its signature."""
    tc = driver.ThroughputCalculator()
    first = S(0.0, 0, 0, 0, "first", unit="ops")
    first.task = task
    tc.calculate([first], bucket_interval_secs=BI)
    st = tc.task_stats[task]
    st.sample_type = stype
    st.start_time = start
    return tc, st


def _unit_of(t_abs, samples):
    for x in samples:
        if x.absolute_time is t_abs:
            return "%s/s" % x.total_ops_unit
    return None


def carry_step(sl):
    nu, nb = sl["carried"], sl["new"]
    with shadowed(driver, ("int",)):
        start = fresh_real("start")
        interval = fresh_real("interval", 0)
        bucket = fresh_int("bucket", BI)
        total = fresh_int("total", 0)
        has = sl["has"] if "has" in sl else fresh_bool("has")
        stype = sl["stype"] if "stype" in sl else fresh_int("stype", 0, 1)
        core.assume(interval < bucket)  # a bucket is open between two calls
        carried = _samples("u", nu, start)
        for s in carried:
            # carried samples were seen: no later than start+interval, and their type did not exceed the state's
            core.assume(s_and(s.absolute_time - start <= interval, s.sample_type <= stype))
        batch = _samples("b", nb, start)
        # big slices are split by whether given samples did any work (the two cases cover every value): more, smaller slices for the 16 cores
        for key, smp in (("b0_worked", batch[0] if batch else None), ("u0_worked", carried[0] if carried else None), ("b1_worked", batch[1] if len(batch) > 1 else None)):
            if key in sl and smp is not None:
                core.assume(smp.total_ops > 0 if sl[key] else smp.total_ops == 0)
        tc, st = _state(TASK, stype, start)
        st.unprocessed = list(carried)
        st.total_count = total
        st.interval = interval
        st.bucket = bucket
        st.has_samples_in_sample_type = has
        # the unit of the work counted so far is part of the carried state
        state_unit = "docs" if sl.get("_w", 0) >= 4 else ["ops", "docs"][concrete(fresh_int("unit_of_the_work_counted_so_far", 0, 1))]
        st.ops_unit = state_unit
        seen = total
        for s in carried + batch:
            seen = seen + s.total_ops
        # samples of another task of the same parallel element arrive interleaved with this task's samples (one worker hosting clients of
        # both tasks, or alternating shipments of two workers): they must not affect what is counted for this task
        mixed = list(batch)
        if nb >= 2:
            other = S(0.5, 3, 1, 0, "other", unit="ops")  # concrete: the other task's own accounting is not under test here
            other.task = TASK_B
            mixed.insert(1, other)
        out = tc.calculate(mixed, bucket_interval_secs=BI)
        tuples = out[TASK]
        got = st.total_count
        for s in st.unprocessed:
            got = got + s.total_ops
        core.trace("total_after", got)
        core.note("tuples", [(core.jsonable(t[0]) if not core.is_sym(t[0]) else "<sym>", t[3] if not core.is_sym(t[3]) else "<sym>") for t in tuples])
        core.note("total_count/unprocessed after", (st.total_count if not core.is_sym(st.total_count) else "<sym>", len(st.unprocessed)))
        everything = carried + batch
        observe("conservation: total_count + ops(unprocessed) == everything seen", got == seen)
        prev_type = stype
        for k, tp in enumerate(tuples):
            t_abs, _, t_type, value, unit = tp
            # the unit of a value is the unit in which the task's operations are counted - never the unit of a request that did no work
            # (a failed request under on-error=continue is recorded as 0 "ops") while the value counts documents
            worked = [s_and(x.total_ops > 0, x.absolute_time <= t_abs) for x in everything]
            nothing_yet = value == 0  # a value that counts no work at all (only failed requests so far) may carry any of the units seen
            observe("tuple %d unit is '<ops unit>/s': the unit of work that was counted, not of a request that did none" % k,
                    s_or(nothing_yet, s_and(total > 0, unit == "%s/s" % state_unit), *[s_and(w, unit == "%s/s" % x.total_ops_unit) for w, x in zip(worked, everything)]))
            observe("tuple %d value >= 0" % k, value >= 0)
            observe("tuple %d sample type does not regress" % k, t_type >= prev_type)
            prev_type = t_type
            iv = core.s_max(interval, t_abs - start)
            lower = total
            upper = total
            for s in everything:
                lower = lower + core.ite(s.absolute_time < t_abs, s.total_ops, 0)
                upper = upper + core.ite(s.absolute_time <= t_abs, s.total_ops, 0)
            observe("tuple %d value*elapsed counts each earlier sample once (lower)" % k, value * iv >= lower)
            observe("tuple %d value*elapsed counts each earlier sample once (upper)" % k, value * iv <= upper)
        observe("state sample type does not regress", st.sample_type >= stype)
        observe("state type is at least every seen type", s_and(*[st.sample_type >= s.sample_type for s in batch]))
        observe("positive elapsed time => a value of the current type exists", implies(st.interval > 0, st.has_samples_in_sample_type))
        changed = s_or(core.s_not(has), st.sample_type != stype)
        emitted_cur = s_or(*[tp[2] == st.sample_type for tp in tuples]) if tuples else False
        observe("flag for the current type set in this call => a value of that type emitted in this call",
                implies(s_and(st.has_samples_in_sample_type, changed), emitted_cur))
        observe("interval covers every seen sample", s_and(*[st.interval >= s.absolute_time - start for s in everything]))
        observe("representation invariant re-established: 0 <= interval < bucket",
                s_and(st.interval >= 0, st.interval < st.bucket, st.bucket >= BI))
        for s in st.unprocessed:
            observe("carried sample no later than interval", s.absolute_time - start <= st.interval)


def first_call(sl):
    """First calculate() of a task: TaskStats is created by the code itself."""
    nb = sl["new"]
    with shadowed(driver, ("int",)):
        batch = []
        for i in range(nb):
            t = fresh_real("bt%d" % i)
            period = fresh_real("bperiod%d" % i, 0)
            ops = fresh_int("bops%d" % i, 0)
            stp = fresh_int("btype%d" % i, 0, 1)
            batch.append(S(t, ops, stp, period, "b%d" % i))
        tc = driver.ThroughputCalculator()
        out = tc.calculate(list(batch), bucket_interval_secs=BI)
        st = tc.task_stats[TASK]
        got = st.total_count
        for s in st.unprocessed:
            got = got + s.total_ops
        seen = 0
        for s in batch:
            seen = seen + s.total_ops
        core.trace("total_after", got)
        observe("conservation", got == seen)
        tuples = out[TASK]
        any_normal = s_or(*[s.sample_type == 1 for s in batch])
        normal_emitted = s_or(*[tp[2] == 1 for tp in tuples]) if tuples else False
        observe("normal sample and positive elapsed time => a normal throughput value",
                implies(s_and(any_normal, st.interval > 0), normal_emitted))
        prev = 0
        for k, tp in enumerate(tuples):
            observe("tuple %d type monotone" % k, tp[2] >= prev)
            prev = tp[2]
            observe("tuple %d value >= 0" % k, tp[3] >= 0)
            observe("tuple %d unit" % k, tp[4] == "docs/s")
        observe("representation invariant established", s_and(st.interval >= 0, st.interval < st.bucket))
        for s in st.unprocessed:
            observe("carried type <= state type", s.sample_type <= st.sample_type)


def passthrough(sl):
    """A runner-supplied throughput is passed through unchanged with its own sample type."""
    nb = sl["new"]
    batch = []
    for i in range(nb):
        t = fresh_real("pt%d" % i)
        thr = fresh_real("pthr%d" % i)
        stp = fresh_int("ptype%d" % i, 0, 1)
        batch.append(S(t, fresh_int("pops%d" % i, 0), stp, 0, "p%d" % i, throughput=thr))
    tc = driver.ThroughputCalculator()
    out = tc.calculate(list(batch), bucket_interval_secs=BI)[TASK]
    observe("one value per sample", len(out) == nb)
    if len(out) == nb:
        by_id = sorted(batch, key=lambda s: s.absolute_time)
        for s, tp in zip(by_id, out):
            observe("time", tp[0] == s.absolute_time)
            observe("type", tp[2] == s.sample_type)
            observe("value unchanged", tp[3] == s.throughput)
            observe("unit", tp[4] == "docs/s")
    observe("no state created", TASK not in tc.task_stats)


def passthrough_mixed(sl):
    """a task whose runner supplies the throughput, with requests that failed under on-error=continue in between (those carry no
    supplied value: 0 operations, throughput None). Two successive post-processing calls with arbitrary batches: every supplied value comes
    out exactly once and unchanged, and no value is None or negative - wherever the stream is cut."""
    n1, n2 = sl["first"], sl["second"]
    with shadowed(driver, ("int",)):
        batches, supplied = [], []
        for b, n in enumerate((n1, n2)):
            batch = []
            for i in range(n):
                t = fresh_real("t_%d_%d" % (b, i), 0)
                has = bool(fresh_bool("runner_supplied_throughput_%d_%d" % (b, i)))
                stp = fresh_int("type_%d_%d" % (b, i), 0, 1)
                if has:
                    thr = fresh_real("supplied_%d_%d" % (b, i), 0)
                    smp = S(t, fresh_int("ops_%d_%d" % (b, i), 0), stp, 0, "s%d_%d" % (b, i), throughput=thr)
                    supplied.append(smp)
                else:
                    smp = S(t, 0, stp, 0, "f%d_%d" % (b, i), unit="ops")  # what execute_single records for a failed request
                batch.append(smp)
            batches.append(batch)
        tc = driver.ThroughputCalculator()
        outs = []
        for batch in batches:
            try:
                outs.append(tc.calculate(list(batch), bucket_interval_secs=BI).get(TASK, []) if batch else [])
            except Exception as e:  # noqa: BLE001
                core.note("calculate raised", repr(e))
                observe("post-processing copes with failed requests in a task whose runner supplies the throughput", False)
                return
        tuples = [tp for out in outs for tp in out]
        core.trace("tuples", len(tuples))
        core.note("supplied / tuples", (len(supplied), len(tuples)))
        observe("no throughput value is None", all(tp[3] is not None for tp in tuples))
        for tp in tuples:
            if tp[3] is not None:
                observe("values are non-negative", tp[3] >= 0)
        for smp in supplied:
            mine = [tp for tp in tuples if tp[3] is smp.throughput]
            observe("a supplied throughput comes out exactly once (never dropped, recomputed or repeated by a later call)", len(mine) == 1)
            if len(mine) == 1:
                observe("unchanged, with the time, sample type and unit of its sample",
                        mine[0][0] is smp.absolute_time and mine[0][2] == smp.sample_type and mine[0][4] == "docs/s")


TASK_B = track.Task("other", track.Operation("op2", "search"))


def other_task_frame(sl):
    """A call whose batch holds no sample of task A must leave A's running state alone (frame condition): the
    one-step induction for A is only valid if calls for other tasks are no-ops for A."""
    nu, nb = sl["carried"], sl["new"]
    with shadowed(driver, ("int",)):
        start = fresh_real("start")
        interval = fresh_real("interval", 0)
        bucket = fresh_int("bucket", BI)
        total = fresh_int("total", 0)
        has = fresh_bool("has")
        stype = fresh_int("stype", 0, 1)
        core.assume(interval < bucket)
        carried = _samples("u", nu, start)
        tc, st = _state(TASK, stype, start)
        st.unprocessed = list(carried)
        st.total_count, st.interval, st.bucket, st.has_samples_in_sample_type = total, interval, bucket, has
        batch = _samples("b", nb, start)
        for s in batch:
            s.task = TASK_B
        out = tc.calculate(list(batch), bucket_interval_secs=BI)
        observe("state of the absent task still there", tc.task_stats.get(TASK) is st)
        observe("total_count untouched", st.total_count == total)
        observe("unprocessed untouched", len(st.unprocessed) == nu and all(a is b for a, b in zip(st.unprocessed, carried)))
        observe("interval/bucket/flags untouched", s_and(st.interval == interval, st.bucket == bucket, st.has_samples_in_sample_type == has,
                                                        st.sample_type == stype))
        observe("no value emitted for the absent task", len(out.get(TASK, [])) == 0)
        observe("other task accounted", TASK_B in tc.task_stats and TASK_B in out)


def _carry_slices(tier):
    m = 2 if tier == "quick" else 3
    out = []
    for u in range(0, m + 1):
        for b in range(1, m + 1):
            if u + b >= 4:
                # split the big slices by the (symbolic elsewhere) state type / flag for parallelism
                for st in (0, 1):
                    for h in (False, True):
                        for w0 in (False, True):
                            for w1 in ((False, True) if u >= 1 else (None,)):
                                for w2 in ((False, True) if b >= 2 else (None,)):
                                    sl = {"carried": u, "new": b, "stype": st, "has": h, "b0_worked": w0, "_w": u + b}
                                    if w1 is not None:
                                        sl["u0_worked"] = w1
                                    if w2 is not None:
                                        sl["b1_worked"] = w2
                                    out.append(sl)
            elif u + b == 3:
                out += [{"carried": u, "new": b, "b0_worked": w0, "_w": u + b} for w0 in (False, True)]
            else:
                out.append({"carried": u, "new": b, "_w": u + b})
    return out


READS = [driver.ThroughputCalculator.calculate, driver.ThroughputCalculator.calculate_task_throughput,
         driver.ThroughputCalculator.map_task_throughput, driver.ThroughputCalculator.TaskStats]

BUDGET = {"quick": 240, "thorough": 2400}

HARNESSES = [
    Harness("carry_step", carry_step, "symbolic", _carry_slices, reads=READS,
            bounds={"carried": "<=2 quick / <=3 thorough", "new": "<=2 quick / <=3 thorough", "times": "unbounded reals",
                    "ops": "unbounded ints >= 0", "bucket_interval": BI},
            assumptions=["floats modelled as exact reals (model R)",
                         "representation invariant of TaskStats between calls: 0 <= interval < bucket, bucket integer >= bucket_interval, "
                         "carried samples no later than start+interval and of a type <= the state's type"],
            real_valued=True, doc="one calculate() from an arbitrary carried state"),
    Harness("first_call", first_call, "symbolic", lambda tier: [{"new": n} for n in range(1, 4 if tier == "quick" else 5)], reads=READS,
            bounds={"new": "<=3 quick / <=4 thorough"}, assumptions=["floats modelled as exact reals (model R)"], real_valued=True,
            doc="first calculate() of a task establishes the invariant and emits a normal value"),
    Harness("other_task_frame", other_task_frame, "symbolic", lambda tier: [{"carried": u, "new": b} for u in (0, 1, 2) for b in (1, 2)], reads=READS,
            bounds={"carried": "<=2", "new": "<=2 samples of another task"}, real_valued=True,
            doc="frame condition: a batch without samples of a task leaves that task's state unchanged"),
    Harness("passthrough", passthrough, "symbolic", lambda tier: [{"new": n} for n in (1, 2, 3)], reads=READS,
            bounds={"new": "<=3"}, real_valued=True, doc="runner-supplied throughput is passed through"),
    Harness("passthrough_mixed", passthrough_mixed, "symbolic", lambda tier: [{"first": a, "second": b, "_w": a + b} for (a, b) in ((1, 1), (2, 1), (1, 2), (2, 2), (3, 0))]
            + ([{"first": 3, "second": 2, "_w": 6}] if tier == "thorough" else []), reads=READS,
            bounds={"batches": "two successive calls with <=2 (3) samples each", "samples": "each either with a runner-supplied throughput (symbolic >= 0) or a failed request (0 ops, none supplied)",
                    "times, types": "symbolic"}, real_valued=True,
            doc="supplied values exactly once and unchanged when failed requests are mixed in, however the stream is cut"),
]
