"""C18 — request timings span all sub-requests and never leak between clients (DESIGN §4 C18).

Real RequestContextManager/RequestContextHolder (+ runner.RequestTiming) with REAL asyncio tasks; the interleaving of the tasks is
a sequence of choose() decisions (gates), all wire timestamps come from a symbolic clock."""
import asyncio

from esrally.client import context as client_context
from esrally.driver import runner

from harness.common import concrete
from harness.execenv import Client, Clock
from symx import core
from symx.core import choose, fresh_bool, fresh_int, observe, shadowed
from symx.explore import Harness

PROPERTY = "C18"
EXPLANATION = ("C18: the real request context manager/holder run inside real asyncio tasks; which task proceeds next is an enumeration "
               "decision (every interleaving of start / end / exit events of the sub-requests within the bound), every wire timestamp is "
               "a symbolic real from a monotone clock; z3 decides that the outer context holds min(start)/max(end) of all wire requests, "
               "each child exactly its own, and that concurrent top-level clients do not influence each other.")


class Failure(Exception):
    pass


async def _settle():
    for _ in range(4):
        await asyncio.sleep(0)


def _run(coro_fn):
    return asyncio.run(coro_fn())


def concurrent_children(sl):
    k = sl["children"]
    clock = Clock()
    H = Client()
    wire, kids = {}, {}

    async def child(i, gates, fails):
        try:
            with H.new_request_context() as c:
                await gates[0].wait()
                H.on_request_start()
                s = clock.now
                await gates[1].wait()
                H.on_request_end()
                e = clock.now
                wire[i] = (s, e)
                await gates[2].wait()
                try:
                    if fails:
                        raise Failure("sub-request %d failed" % i)
                finally:
                    kids[i] = c
        except Failure:
            pass

    async def main():
        with H.new_request_context() as outer:
            gates = [[asyncio.Event() for _ in range(3)] for _ in range(k)]
            fails = [bool(fresh_bool("child%d_fails" % i)) if sl.get("failures") else False for i in range(k)]
            tasks = [asyncio.create_task(child(i, gates[i], fails[i])) for i in range(k)]
            await _settle()
            pending = [(i, 0) for i in range(k)]
            order = []
            while pending:
                j = choose(len(pending), "next event")
                i, g = pending.pop(j)
                order.append((i, ("start", "end", "exit")[g]))
                gates[i][g].set()
                await _settle()
                if g < 2:
                    pending.append((i, g + 1))
                    pending.sort()
            await asyncio.gather(*tasks)
            core.note("event order", order)
        return outer

    with shadowed(client_context, (), extra={"time": clock.time_ns()}):
        outer = _run(main)
    starts = [wire[i][0] for i in range(k)]
    ends = [wire[i][1] for i in range(k)]
    core.trace("children", len(kids))
    for i in range(k):
        observe("child %d context holds exactly its own wire request" % i,
                core.s_and(kids[i].request_start == wire[i][0], kids[i].request_end == wire[i][1]))
    observe("outer start is the earliest start of all sub-requests", outer.request_start is not None and outer.request_start == core.s_min(*starts))
    observe("outer end is the latest end of all sub-requests", outer.request_end is not None and outer.request_end == core.s_max(*ends))


def nested_sequential(sl):
    """outer -> mid -> inner, each level issues wire requests before/after its child; a level may fail after its request"""
    clock = Clock()
    H = Client()
    spans = {}
    all_wire = []

    def wire_request(level):
        H.on_request_start()
        s = clock.now
        H.on_request_end()
        e = clock.now
        spans.setdefault(level, []).append((s, e))
        all_wire.append((level, s, e))

    ctxs = {}

    async def main():
        with H.new_request_context() as outer:
            ctxs["outer"] = outer
            if fresh_bool("outer_before"):
                wire_request("outer")
            try:
                with H.new_request_context() as mid:
                    ctxs["mid"] = mid
                    if fresh_bool("mid_before"):
                        wire_request("mid")
                    try:
                        with H.new_request_context() as inner:
                            ctxs["inner"] = inner
                            wire_request("inner")
                            if sl.get("failures") and fresh_bool("inner_fails"):
                                raise Failure("inner")
                    except Failure:
                        pass
                    if fresh_bool("mid_after"):
                        wire_request("mid")
                    if sl.get("failures") and fresh_bool("mid_fails"):
                        raise Failure("mid")
            except Failure:
                pass
            if fresh_bool("outer_after"):
                wire_request("outer")
        return outer

    with shadowed(client_context, (), extra={"time": clock.time_ns()}):
        _run(main)
    core.trace("wire", len(all_wire))

    def span(levels):
        xs = [(s, e) for (lv, s, e) in all_wire if lv in levels]
        return core.s_min(*[s for s, _ in xs]), core.s_max(*[e for _, e in xs])

    for name, levels in (("inner", ("inner",)), ("mid", ("inner", "mid")), ("outer", ("inner", "mid", "outer"))):
        lo, hi = span(levels)
        observe("%s context spans all wire requests issued inside it (also when a nested scope failed)" % name,
                core.s_and(ctxs[name].request_start == lo, ctxs[name].request_end == hi))


def two_clients(sl):
    """two clients of one process, each with its own top-level context, interleaved arbitrarily"""
    clock = Clock()
    clients = [Client(), Client()]
    wire = {0: [], 1: []}
    tops = {}
    nreq = sl["requests"]

    async def client(i, gates):
        with clients[i].new_request_context() as top:
            for r in range(nreq):
                await gates[2 * r].wait()
                clients[i].on_request_start()
                s = clock.now
                await gates[2 * r + 1].wait()
                clients[i].on_request_end()
                wire[i].append((s, clock.now))
            tops[i] = top
            await gates[2 * nreq].wait()
        return top

    async def main():
        gates = [[asyncio.Event() for _ in range(2 * nreq + 1)] for _ in range(2)]
        tasks = [asyncio.create_task(client(i, gates[i])) for i in range(2)]
        await _settle()
        pending = [(0, 0), (1, 0)]
        while pending:
            j = choose(len(pending), "next event")
            i, g = pending.pop(j)
            gates[i][g].set()
            await _settle()
            if g < 2 * nreq:
                pending.append((i, g + 1))
                pending.sort()
        await asyncio.gather(*tasks)

    with shadowed(client_context, (), extra={"time": clock.time_ns()}):
        _run(main)
    core.trace("wire", len(wire[0]) + len(wire[1]))
    for i in (0, 1):
        observe("client %d: start/end are those of its own requests only" % i,
                core.s_and(tops[i].request_start == core.s_min(*[s for s, _ in wire[i]]), tops[i].request_end == core.s_max(*[e for _, e in wire[i]])))


def two_clusters(sl):
    """a multi-cluster runner talks to a second cluster's client object inside one logical request (opened on the default client by the
    executor): every HTTP request issued on behalf of the logical request counts, whichever client object sends it"""
    clock = Clock()
    default, remote = Client(), Client()
    plan = [[remote], [default, remote], [remote, default], [remote, remote]][concrete(fresh_int("which_clients_send", 0, 3))]
    wire = []

    async def main():
        with default.new_request_context() as outer:
            for c in plan:
                c.on_request_start()
                s = clock.now
                c.on_request_end()
                wire.append((s, clock.now))
        return outer

    with shadowed(client_context, (), extra={"time": clock.time_ns()}):
        outer = _run(main)
    core.trace("wire", len(wire))
    observe("the logical request starts with the earliest HTTP request, whichever cluster's client sent it", outer.request_start is not None and outer.request_start == wire[0][0])
    observe("and ends with the latest one", outer.request_end is not None and outer.request_end == wire[-1][1])


def request_timing(sl):
    """runner.RequestTiming: the sub-request's own timing covers exactly that sub-request; the enclosing context covers all"""
    clock = Clock()
    c = Client()
    es = {"default": c}
    nsub = sl["subrequests"]
    results = []
    wire = []

    class Delegate:
        def __init__(self, i):
            self.i = i

        async def __call__(self, es_, params):
            for _ in range(1 + (1 if fresh_bool("sub%d_two_wire_requests" % self.i) else 0)):
                es_["default"].on_request_start()
                s = clock.now
                es_["default"].on_request_end()
                wire.append((self.i, s, clock.now))
            kind = self.i % 3
            return {"weight": 2, "unit": "docs"} if kind == 0 else ((3, "pages") if kind == 1 else None)

        async def __aenter__(self):
            return self

        async def __aexit__(self, *a):
            return False

    async def main():
        with c.new_request_context() as outer:
            for i in range(nsub):
                rt = runner.RequestTiming(Delegate(i))
                async with rt:
                    results.append(await rt(es, {"name": "sub%d" % i, "operation-type": "search"}))
        return outer

    with shadowed(client_context, (), extra={"time": clock.time_ns()}), shadowed(runner, (), extra={"time": clock.time_ns()}):
        outer = _run(main)
    core.trace("wire", len(wire))
    for i, r in enumerate(results):
        mine = [(s, e) for (j, s, e) in wire if j == i]
        dt = r["dependent_timing"]
        lo, hi = core.s_min(*[s for s, _ in mine]), core.s_max(*[e for _, e in mine])
        observe("sub-request %d timing covers exactly its own wire requests" % i, core.s_and(dt["request_start"] == lo, dt["request_end"] == hi))
        observe("sub-request %d service time is its own span" % i, dt["service_time"] == hi - lo)
        observe("sub-request %d carries its operation name and type" % i, dt["operation"] == "sub%d" % i and dt["operation-type"] == "search")
    observe("the logical request spans all sub-requests",
            core.s_and(outer.request_start == core.s_min(*[s for _, s, _ in wire]), outer.request_end == core.s_max(*[e for _, _, e in wire])))


def composite_streams(sl):
    """the real runner.Composite (run_stream, RequestTiming, CompositeContext) on a request structure with two concurrent streams followed
    by an operation; sub-runners are gated stubs, the order of their wire events is an enumeration decision, timestamps are symbolic"""
    clock = Clock()
    c = Client()
    wire = {}
    names = ["a", "b", "after"]
    gates = {}

    class Sub:
        def __init__(self, op):
            self.op = op

        async def __call__(self, es_, params):
            n = params["name"]
            g = gates[n]
            log.append(("enter", n))
            await g[0].wait()
            es_["default"].on_request_start()
            s = clock.now
            await g[1].wait()
            es_["default"].on_request_end()
            wire[n] = (s, clock.now)
            log.append(("done", n))
            return {"weight": 1, "unit": "ops", "success": True}

        async def __aenter__(self):
            return self

        async def __aexit__(self, *a):
            return False

    structure = [{"stream": [{"name": "a", "operation-type": "search"}]}, {"stream": [{"name": "b", "operation-type": "raw-request"}]},
                 {"name": "after", "operation-type": "search"}]
    order, log = [], []

    async def main():
        for n in names:
            gates[n] = [asyncio.Event(), asyncio.Event()]
        with c.new_request_context() as outer:
            task = asyncio.create_task(runner.Composite()(c, {"requests": structure, "max-connections": sl["max_connections"]}))
            await _settle()
            pending = [("a", 0), ("b", 0)]
            released_after = False
            while pending:
                j = choose(len(pending), "next event")
                n, g = pending.pop(j)
                order.append((n, ("start", "end")[g]))
                gates[n][g].set()
                await _settle()
                if g == 0:
                    pending.append((n, 1))
                    pending.sort()
                if not pending and not released_after:
                    released_after = True
                    pending = [("after", 0)]
            result = await task
        return outer, result

    with shadowed(client_context, (), extra={"time": clock.time_ns()}), shadowed(runner, (), extra={"time": clock.time_ns(), "runner_for": Sub}):
        try:
            outer, result = _run(main)
        except Exception as e:  # noqa: BLE001
            core.note("composite raised", repr(e))
            core.note("event order", order)
            observe("the composite operation completes for every interleaving of its streams", False)
            return
    core.note("event order", order)
    core.trace("timings", len(result["dependent_timing"]))
    dts = {d["dependent_timing"]["operation"]: d for d in result["dependent_timing"] if d}
    observe("one dependent timing per sub-request", len(result["dependent_timing"]) == 3 and sorted(dts) == sorted(names))
    for n in names:
        if n in dts:
            dt = dts[n]["dependent_timing"]
            observe("sub-request '%s' timing covers exactly its own wire request" % n,
                    core.s_and(dt["request_start"] == wire[n][0], dt["request_end"] == wire[n][1], dt["service_time"] == wire[n][1] - wire[n][0]))
    observe("the operation after the streams is issued only after both streams finished",
            log.index(("enter", "after")) > max(log.index(("done", "a")), log.index(("done", "b"))))
    if sl["max_connections"] == 1:
        observe("max-connections 1: the streams' requests do not overlap", log.index(("done", log[0][1])) < log.index(("enter", "b" if log[0][1] == "a" else "a")))
    observe("the logical request spans all sub-requests", core.s_and(outer.request_start == core.s_min(*[wire[n][0] for n in names]),
                                                                   outer.request_end == core.s_max(*[wire[n][1] for n in names])))


def composite_failing_stream(sl):
    """a sub-request of one stream fails (on-error=continue turns that into a failed sample of the composite) while a sibling stream is
    at an arbitrary point: when the composite call is over, none of its wire requests is still on the wire - otherwise the logical request
    is sampled before the latest end of the HTTP requests issued on its behalf (and they overlap the client's next request)"""
    clock = Clock()
    c = Client()
    started, over, gates = [], [], {}

    class Failure(Exception):
        pass

    class Sub:
        def __init__(self, op):
            pass

        async def __call__(self, es_, params):
            n = params["name"]
            g = gates[n]
            await g[0].wait()
            es_["default"].on_request_start()
            started.append(n)
            try:
                await g[1].wait()
                es_["default"].on_request_end()
            finally:
                over.append(n)  # answered, failed or cancelled: no longer on the wire
            if n == "fails":
                raise Failure("503")
            return {"weight": 1, "unit": "ops", "success": True}

        async def __aenter__(self):
            return self

        async def __aexit__(self, *a):
            return False

    tail = [{"name": "after", "operation-type": "search"}] if sl["operation_after_the_streams"] else []
    structure = [{"stream": [{"name": "fails", "operation-type": "search"}]}, {"stream": [{"name": "slow", "operation-type": "raw-request"}]}] + tail
    order, verdict = [], {}

    async def main():
        for n in ("fails", "slow", "after"):
            gates[n] = [asyncio.Event(), asyncio.Event()]
        with c.new_request_context():
            task = asyncio.create_task(runner.Composite()(c, {"requests": structure}))
            await _settle()
            pending = [("fails", 0), ("slow", 0)]
            while pending and not task.done():
                j = choose(len(pending), "next event")
                n, g = pending.pop(j)
                order.append((n, ("start", "end")[g]))
                gates[n][g].set()
                await _settle()
                if g == 0:
                    pending.append((n, 1))
                    pending.sort()
            await _settle()
            verdict["done"] = task.done()
            verdict["on_the_wire"] = [n for n in started if n not in over]
            for n in gates:  # let whatever is left run out
                for e in gates[n]:
                    e.set()
            try:
                await task
                verdict["outcome"] = "ret"
            except Failure:
                verdict["outcome"] = "failure"
            except BaseException as e:  # noqa: BLE001
                verdict["outcome"] = repr(e)

    with shadowed(client_context, (), extra={"time": clock.time_ns()}), shadowed(runner, (), extra={"time": clock.time_ns(), "runner_for": Sub}):
        _run(main)
    core.note("event order", order)
    core.note("verdict", verdict)
    core.trace("events", len(order))
    observe("the failure of the sub-request surfaces as the failure of the composite operation", verdict.get("outcome") == "failure")
    if verdict.get("done"):
        observe("when the composite operation is over none of its wire requests is still on the wire", verdict["on_the_wire"] == [])


def composite_two_clients(sl):
    """two clients of one worker process run the SAME composite operation: one registered Composite runner object and one request
    structure (the parameter source's items) are shared by both, as in a real race; each client has its own Elasticsearch client object.
    Every order of the two sub-requests' start/end events; timestamps symbolic. Each client's sub-request timing is its own."""
    clock = Clock()
    clients = [Client(), Client()]
    wire, gates, log = {}, {}, []

    class Sub:
        def __init__(self, op):
            pass

        async def __call__(self, es_, params):
            who = clients.index(es_["default"])
            g = gates[who]
            await g[0].wait()
            es_["default"].on_request_start()
            s = clock.now
            await g[1].wait()
            es_["default"].on_request_end()
            wire[who] = (s, clock.now)
            return {"weight": 1, "unit": "ops", "success": True}

        async def __aenter__(self):
            return self

        async def __aexit__(self, *a):
            return False

    structure = [{"name": "page", "operation-type": "search"}]  # one object, handed to every client by the parameter source
    comp_holder = {}
    order = []

    async def one(who):
        with clients[who].new_request_context() as outer:
            res = await comp_holder["c"](clients[who], {"requests": structure})
        return outer, res

    async def main():
        comp_holder["c"] = runner.Composite()  # the registry holds ONE runner object per operation type
        for who in (0, 1):
            gates[who] = [asyncio.Event(), asyncio.Event()]
        tasks = [asyncio.create_task(one(0)), asyncio.create_task(one(1))]
        await _settle()
        pending = [(0, 0), (1, 0)]
        while pending:
            j = choose(len(pending), "next event")
            who, g = pending.pop(j)
            order.append((who, ("start", "end")[g]))
            gates[who][g].set()
            await _settle()
            if g == 0:
                pending.append((who, 1))
                pending.sort()
        return await asyncio.gather(*tasks, return_exceptions=True)

    with shadowed(client_context, (), extra={"time": clock.time_ns()}), shadowed(runner, (), extra={"time": clock.time_ns(), "runner_for": Sub}):
        results = _run(main)
    core.note("event order", order)
    core.trace("events", len(order))
    for who, r in enumerate(results):
        if isinstance(r, BaseException):
            core.note("client %d raised" % who, repr(r))
            observe("client %d: the composite operation completes whatever the other client does" % who, False)
            continue
        outer, res = r
        dts = [d["dependent_timing"] for d in res["dependent_timing"] if d]
        observe("client %d: one dependent timing" % who, len(dts) == 1)
        if len(dts) == 1:
            observe("client %d: its sub-request timing is its OWN wire request, not the other client's" % who,
                    core.s_and(dts[0]["request_start"] == wire[who][0], dts[0]["request_end"] == wire[who][1], dts[0]["service_time"] == wire[who][1] - wire[who][0]))
        observe("client %d: its logical request spans exactly its own wire request" % who,
                core.s_and(outer.request_start == wire[who][0], outer.request_end == wire[who][1]))


# the order in which aiohttp's tracing signals arrive for one HTTP request (aiohttp tracing reference; rally issue #1860 for the last one)
WIRE_SEQUENCES = {
    "response with a body in one chunk": ["start", "end", "chunk"],
    "large / streamed response": ["start", "end", "chunk", "chunk", "chunk"],
    "response without a body": ["start", "end"],
    "request fails before a response arrives (refused, reset, timeout)": ["start", "exception"],
    "client timeout while the body is read: request end signalled, exception handler not called": ["start", "end", "chunk"],
    "headers arrive, then the connection breaks": ["start", "end", "exception"],
}


CONNECTION_SEQUENCES = {
    "pooled connection reused": ["reuseconn"],
    "new connection": ["create_start", "dns_start", "dns_end", "create_end"],
    "pool exhausted, then a new connection": ["queued_start", "queued_end", "create_start", "create_end"],
}


def wire_hooks(sl):
    """the hooks the REAL EsClientFactory.create_async registers on aiohttp's tracing signals, driven with each documented signal order on a
    symbolic clock: a wire request's start is its request-start signal, its end the LAST signal aiohttp sends for it"""
    from esrally.client import factory

    clock = Clock()
    names = sorted(WIRE_SEQUENCES)
    seqs = [names[concrete(fresh_int("signal_order_of_wire_request_%d" % i, 0, len(names) - 1))] for i in range(sl["requests"])]
    times = []

    async def main():
        f = factory.EsClientFactory([{"host": "localhost", "port": 9200}], {})
        c = f.create_async(client_id=0)
        try:
            tc = list(c.transport.node_pool.all())[0].trace_configs[0]
            signals = {"start": tc.on_request_start, "end": tc.on_request_end, "chunk": tc.on_response_chunk_received, "exception": tc.on_request_exception,
                       # between the start of a request and its first byte on the wire aiohttp acquires a connection: a pooled one is reused, or a
                       # new one is set up (a later wire request of the same logical request may well need a fresh connection: another node of the
                       # cluster, a retry after a failure, a keep-alive connection the server has dropped)
                       "reuseconn": tc.on_connection_reuseconn, "queued_start": tc.on_connection_queued_start, "queued_end": tc.on_connection_queued_end,
                       "create_start": tc.on_connection_create_start, "dns_start": tc.on_dns_resolvehost_start, "dns_end": tc.on_dns_resolvehost_end,
                       "create_end": tc.on_connection_create_end, "headers_sent": tc.on_request_headers_sent, "chunk_sent": tc.on_request_chunk_sent}
            with c.new_request_context() as outer:
                for k, name in enumerate(seqs):
                    ctx = tc.trace_config_ctx()  # aiohttp creates one context object per request
                    mine = []
                    conn = CONNECTION_SEQUENCES[sorted(CONNECTION_SEQUENCES)[concrete(fresh_int("connection_of_wire_request_%d" % k, 0, len(CONNECTION_SEQUENCES) - 1))]]
                    full = WIRE_SEQUENCES[name][:1] + conn + (["headers_sent", "chunk_sent"] if "end" in WIRE_SEQUENCES[name] else []) + WIRE_SEQUENCES[name][1:]
                    for sig in full:
                        before = clock.tick()  # time passes between two signals whether or not a hook looks at the clock
                        for cb in signals[sig]:
                            await cb(None, ctx, None)
                        mine.append((sig, before, clock.now))
                    times.append(mine)
            return outer
        finally:
            await c.close()

    with shadowed(client_context, (), extra={"time": clock.time_ns()}):
        outer = _run(main)
    core.note("signal orders", seqs)
    core.trace("requests", len(times))
    first, last = times[0][0], times[-1][-1]
    observe("the logical request starts with the first wire request's start signal",
            outer.request_start is not None and core.s_and(outer.request_start >= first[1], outer.request_start <= first[2]))
    observe("and ends with the last signal of its last wire request (complete body / failure), not with an earlier one",
            outer.request_end is not None and core.s_and(outer.request_end >= last[1], outer.request_end <= last[2]))


READS = [client_context.RequestContextManager.__enter__, client_context.RequestContextManager.__exit__,
         client_context.RequestContextHolder.update_request_start, client_context.RequestContextHolder.update_request_end,
         client_context.RequestContextHolder.on_request_start, client_context.RequestContextHolder.on_request_end,
         client_context.RequestContextHolder.init_request_context, client_context.RequestContextHolder.restore_context,
         runner.RequestTiming.__call__]
STUBS = ["clock: time.perf_counter inside esrally.client.context / time.time inside esrally.driver.runner (each read = previous + fresh d >= 0)",
         "wire requests are calls of on_request_start/on_request_end as the transport makes them"]

HARNESSES = [
    Harness("composite_failing_stream", composite_failing_stream, "bounded-exhaustive", lambda tier: [{"operation_after_the_streams": False}, {"operation_after_the_streams": True}],
            reads=READS + [runner.Composite.__call__, runner.Composite.run_stream], stubs=STUBS + ["runner_for inside esrally.driver.runner returns gated stub runners, one of which fails"],
            bounds={"structure": "two concurrent single-operation streams (one fails), optionally followed by an operation", "interleavings": "every order of start/end events"},
            doc="a failing stream does not leave sibling requests on the wire when the logical request ends"),
    Harness("composite_two_clients", composite_two_clients, "symbolic", lambda tier: [{}],
            reads=READS + [runner.Composite.__call__, runner.Composite.run_stream], stubs=STUBS + ["runner_for inside esrally.driver.runner returns gated stub runners"],
            bounds={"clients": "2 sharing one Composite runner object and one request structure", "interleavings": "every order of the two sub-requests' start/end events"},
            doc="composite operations of concurrent clients do not read each other's timings"),
    Harness("wire_hooks", wire_hooks, "symbolic", lambda tier: [{"requests": 1}, {"requests": 2}],
            reads=READS + [__import__("esrally.client.factory", fromlist=["x"]).EsClientFactory.create_async], stubs=["clock", "aiohttp itself is not run: its tracing signals are delivered by the harness in the documented orders (listed in the bounds)"],
            bounds={"wire requests": "1..2 in one logical request", "signal orders": sorted(WIRE_SEQUENCES), "connection acquisition per wire request": sorted(CONNECTION_SEQUENCES)}, real_valued=True,
            doc="hook wiring of the async client: start / end of wire requests as aiohttp signals them"),
    Harness("composite_streams", composite_streams, "symbolic", lambda tier: [{"max_connections": m} for m in (1, 2, 16)],
            reads=READS + [runner.Composite.__call__, runner.Composite.run_stream], stubs=STUBS + ["runner_for inside esrally.driver.runner returns gated stub runners"],
            bounds={"structure": "two concurrent single-operation streams followed by one operation", "max-connections": "1, 2, 16",
                    "interleavings": "every order of the streams' start/end events (explicit enumeration); timestamps symbolic"},
            doc="composite operation: per-stream timings, ordering of dependent operations, outer span"),
    Harness("concurrent_children", concurrent_children, "symbolic",
            lambda tier: [{"children": 2}, {"children": 2, "failures": True}] + ([{"children": 3, "_w": 9}] if tier == "thorough" else []),
            reads=READS, stubs=STUBS, bounds={"concurrent sub-requests": "2 quick / 3 thorough", "interleavings": "all orders of start/end/exit events (20 / 1680)",
                                              "timestamps": "unbounded reals, monotone clock"},
            real_valued=True, doc="concurrent sub-requests finishing and exiting in any order"),
    Harness("nested_sequential", nested_sequential, "symbolic", lambda tier: [{}, {"failures": True}], reads=READS, stubs=STUBS,
            bounds={"depth": 3, "wire requests": "optional before/after each nested scope", "failures": "a nested scope may raise after its request"},
            real_valued=True, doc="nested contexts, propagation on normal and exceptional exit"),
    Harness("two_clients", two_clients, "symbolic", lambda tier: [{"requests": 1}] + ([{"requests": 2, "_w": 5}] if tier == "thorough" else []),
            reads=READS, stubs=STUBS, bounds={"clients": 2, "requests per client": "1 quick / 2 thorough", "interleavings": "all"},
            real_valued=True, doc="no leakage between concurrently running clients"),
    Harness("two_clusters", two_clusters, "symbolic", lambda tier: [{}], reads=READS, stubs=STUBS,
            bounds={"client objects": "2 (default and a remote cluster)", "wire requests": "1..2, sent by either client"}, real_valued=True,
            doc="requests sent through another cluster's client object belong to the logical request"),
    Harness("request_timing", request_timing, "symbolic", lambda tier: [{"subrequests": n} for n in (1, 2, 3)], reads=READS, stubs=STUBS,
            bounds={"sub-requests": "<=3, each 1 or 2 wire requests"}, real_valued=True, doc="RequestTiming dependent timings inside a logical request"),
]
