"""Shared stubs for harnesses (each harness lists what it uses under `stubs`)."""
import json

from symx import core


class StubCfg:
    """dict-backed stand-in for esrally.config.Config (opts/all_opts/exists/add)"""

    def __init__(self, values=None):
        self.v = dict(values or {})

    def opts(self, section, key, default_value=None, mandatory=True):
        if (section, key) in self.v:
            return self.v[(section, key)]
        if mandatory:
            from esrally import exceptions

            raise exceptions.ConfigError("No value for mandatory configuration: section='%s', key='%s'" % (section, key))
        return default_value

    def all_opts(self, section):
        return {k[1]: v for k, v in self.v.items() if k[0] == section}

    def exists(self, section, key):
        return (section, key) in self.v

    def add(self, scope, section, key, value):
        self.v[(section, key)] = value


def jsonish(x):
    """What json.loads(json.dumps(x)) does to the STRUCTURE (string keys, lists), identity on the leaves.
    In native mode the real json module is used instead."""
    if not core.symbolic():
        return json.loads(json.dumps(x))
    return _jsonish(x)


def _jsonish(x):
    if isinstance(x, dict):
        out = {}
        for k, v in x.items():
            if isinstance(k, bool):
                k = "true" if k else "false"
            elif k is None:
                k = "null"
            elif isinstance(k, (int, float)):
                k = repr(k) if isinstance(k, float) else str(k)
            elif not isinstance(k, str):
                raise TypeError("keys must be str, int, float, bool or None, not %s" % type(k).__name__)
            out[k] = _jsonish(v)
        return out
    if isinstance(x, (list, tuple)):
        return [_jsonish(v) for v in x]
    if x is None or isinstance(x, (str, int, float, bool, core.Sym)):
        return x
    raise TypeError("Object of type %s is not JSON serializable" % type(x).__name__)


class StatisticsShadow:
    """statistics.mean/median on symbolic values (exact reals)"""

    @staticmethod
    def mean(xs):
        xs = list(xs)
        return sum(xs) / len(xs)

    @staticmethod
    def median(xs):
        s = sorted(xs)
        n = len(s)
        if n % 2 == 1:
            return s[n // 2]
        return (s[n // 2 - 1] + s[n // 2]) / 2


def concrete(v):
    """solver-enumerated concrete value of a symbolic int (enumeration decision)"""
    return core.concretize(v.z) if core.is_sym(v) else v


def accessor(attr):
    """the function behind a property - or behind whatever descriptor a changed tree uses for it (cached_property, plain attribute): the
    evidence lists its source either way and a harness module always imports"""
    return getattr(attr, "fget", None) or getattr(attr, "func", None) or attr
