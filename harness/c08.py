"""C08 — race results are correct statistics of the normal samples and survive storage (DESIGN §4 C08)."""
import datetime

from esrally import metrics, track

from harness.common import StatisticsShadow, StubCfg, concrete, jsonish
from symx import core
from symx.core import fresh_bool, fresh_int, fresh_real, implies, observe, s_and, s_or, shadowed
from symx.explore import Harness

PROPERTY = "C08"
EXPLANATION = ("C08: percentile_value, percentiles_for_sample_size, the in-memory store queries, GlobalStatsCalculator and the "
               "Race/GlobalStats persistence path are executed on symbolic record values (exact reals), symbolic percentiles, symbolic "
               "record attributes (name/task/sample type/success enumerated by the solver) and unbounded sample sizes.")

SHADOW_NAMES = ("int", "float", "round", "isinstance")


def _shadow():
    return shadowed(metrics, SHADOW_NAMES, extra={"math": core.math_shadow, "statistics": StatisticsShadow})


# ------------------------------------------------------------------------------------------------------------------
def _sorted_values(n, strict=False, prefix="v"):
    vals = []
    prev = None
    for i in range(n):
        if prev is None:
            v = fresh_real("%s%d" % (prefix, i))
        else:
            d = fresh_real("%sd%d" % (prefix, i), 0)
            if strict:
                core.assume(d > 0)
            v = prev + d
        vals.append(v)
        prev = v
    return vals


def percentile(sl):
    n = sl["n"]
    vals = _sorted_values(n)
    p = fresh_real("p", 0, 100)
    q = fresh_real("q", 0, 100)
    core.assume(p <= q)
    with _shadow():
        P = metrics.InMemoryMetricsStore.percentile_value(vals, p)
        Q = metrics.InMemoryMetricsStore.percentile_value(vals, q)
        P100 = metrics.InMemoryMetricsStore.percentile_value(vals, 100)
        P0 = metrics.InMemoryMetricsStore.percentile_value(vals, 0)
        P50 = metrics.InMemoryMetricsStore.percentile_value(vals, 50)
        P50s = metrics.InMemoryMetricsStore.percentile_value(vals, "50.0")  # as get_median passes it
    core.trace("P", P)
    observe("min <= P(p)", vals[0] <= P)
    observe("P(p) <= max", P <= vals[-1])
    observe("p <= q => P(p) <= P(q)", P <= Q)
    observe("P(100) == max", P100 == vals[-1])
    observe("P(0) == min", P0 == vals[0])
    med = vals[n // 2] if n % 2 == 1 else (vals[n // 2 - 1] + vals[n // 2]) / 2
    observe("P(50) == median", P50 == med)
    observe("P('50.0') == median", P50s == med)
    # linear interpolation definition at rank p/100*(n-1)
    rank = p / 100 * (n - 1)
    k = concrete(core.SInt(core.z3.ToInt(rank.z))) if core.is_sym(rank) else int(rank)
    if k >= n - 1:
        observe("definition at the top rank", P == vals[-1])
    else:
        observe("linear interpolation between the neighbouring ranks", P == vals[k] + (vals[k + 1] - vals[k]) * (rank - k))


def percentile_sets(sl):
    n = fresh_int("n")
    n2 = fresh_int("n2")
    core.assume(n <= n2)
    try:
        a = metrics.percentiles_for_sample_size(n)
    except AssertionError:
        observe("only sample sizes < 1 are rejected", n < 1)
        return
    observe("sample sizes < 1 are rejected", n >= 1)
    b = metrics.percentiles_for_sample_size(n2)
    core.note("sets", (a, b))
    core.trace("len", len(a))
    observe("ascending", all(x < y for x, y in zip(a, a[1:])))
    observe("ends with 100", a[-1] == 100)
    observe("all within (0, 100]", all(0 < x <= 100 for x in a))
    observe("median reported iff more than one sample", (50 in a) == bool(n > 1))
    observe("larger sample => superset of percentiles", set(a) <= set(b))
    # a percentile is only reported when enough samples exist to resolve it: p < 100 needs >= 1/(1-p/100) samples
    for x in a:
        if x < 100:
            need = round(100 / (100 - x))
            observe("p%s needs >= %d samples" % (x, need), n >= need)
    observe("each decade adds its percentile", s_and(implies(n >= 10, 90 in a), implies(n >= 100, 99 in a), implies(n >= 1000, 99.9 in a),
                                                    implies(n >= 10000, 99.99 in a)))


# ------------------------------------------------------------------------------------------------------------------
NAMES = ["latency", "service_time"]
TASKS = ["t1", "t2"]
TYPES = ["warmup", "normal"]
OPTYPES = ["bulk", "search"]


def _store():
    cfg = StubCfg({("system", "env.name"): "unittest"})
    return metrics.InMemoryMetricsStore(cfg)


def _doc(name, task, stype, value, success=True, optype="bulk", unit="ms", rel=0):
    return {"name": name, "task": task, "operation": "op-" + task, "operation-type": optype, "sample-type": stype, "value": value,
            "unit": unit, "meta": {"success": success}, "relative-time": rel, "@timestamp": 0}


def store_queries(sl):
    n = sl["records"]
    st = _store()
    recs = []
    for i in range(n):
        name = NAMES[concrete(fresh_int("name%d" % i, 0, 1))]
        task = TASKS[concrete(fresh_int("task%d" % i, 0, 1))]
        stype = TYPES[concrete(fresh_int("type%d" % i, 0, 1))]
        optype = OPTYPES[concrete(fresh_int("optype%d" % i, 0, 1))] if sl.get("optypes") else "bulk"
        success = bool(fresh_bool("success%d" % i))
        v = fresh_real("value%d" % i)
        recs.append((name, task, stype, optype, success, v))
        st.docs.append(_doc(name, task, stype, v, success, optype))
    q_type = metrics.SampleType.Normal if sl["q_type"] == "normal" else (metrics.SampleType.Warmup if sl["q_type"] == "warmup" else None)
    q_op = "bulk" if sl.get("optypes") else None
    with _shadow():
        stats = st.get_stats("latency", task="t1", operation_type=q_op, sample_type=q_type)
        mean = st.get_mean("latency", task="t1", operation_type=q_op, sample_type=q_type)
        median = st.get_median("latency", task="t1", operation_type=q_op, sample_type=q_type)
        pct = st.get_percentiles("latency", task="t1", operation_type=q_op, sample_type=q_type, percentiles=[0, 100])
        err = st.get_error_rate("t1", operation_type=q_op, sample_type=q_type)
        raw = st.get("latency", task="t1", operation_type=q_op, sample_type=q_type)
    sel = [r[5] for r in recs if r[0] == "latency" and r[1] == "t1" and (q_type is None or r[2] == sl["q_type"]) and (q_op is None or r[3] == q_op)]
    reqs = [r for r in recs if r[0] == "service_time" and r[1] == "t1" and (q_type is None or r[2] == sl["q_type"]) and (q_op is None or r[3] == q_op)]
    core.note("records", [(r[0], r[1], r[2], r[3], r[4]) for r in recs])
    core.trace("count", len(raw))
    observe("exactly the records of the queried name/task/sample type contribute", len(raw) == len(sel) and all(a is b for a, b in zip(raw, sel)))
    if not sel:
        observe("no matching record => no stats", stats is None and mean is None and median is None and len(pct) == 0)
    else:
        observe("stats exist", stats is not None and mean is not None and median is not None)
        if stats is not None:
            total = sum(sel)
            observe("count", stats["count"] == len(sel))
            observe("sum", stats["sum"] == total)
            observe("mean == sum / count", mean * len(sel) == total)
            observe("min is a lower bound and attained", s_and(*[stats["min"] <= v for v in sel]) & s_or(*[stats["min"] == v for v in sel]))
            observe("max is an upper bound and attained", s_and(*[stats["max"] >= v for v in sel]) & s_or(*[stats["max"] == v for v in sel]))
            observe("min <= mean <= max", s_and(stats["min"] <= mean, mean <= stats["max"]))
            observe("min <= median <= max", s_and(stats["min"] <= median, median <= stats["max"]))
            observe("p0 == min and p100 == max", s_and(pct[0] == stats["min"], pct[100] == stats["max"]))
            below = sum(core.ite(v < median, 1, 0) for v in sel)
            above = sum(core.ite(v > median, 1, 0) for v in sel)
            observe("median splits the values in halves", s_and(below * 2 <= len(sel), above * 2 <= len(sel)))
    failed = len([r for r in reqs if r[4] is False])
    if reqs:
        observe("error rate == failed / all requests of the task (queried sample type only)", err * len(reqs) == failed)
    else:
        observe("error rate 0 without requests", err == 0)


def incremental_hand_over(sl):
    """samples reach race control's store step by step (bulk_add after every step, as the driver hands them over), and results may be
    read in between: every query reflects ALL records handed over so far - nothing computed earlier sticks"""
    from harness import c07

    n1, n2 = sl["first"], sl["second"]
    a = [fresh_real("a%d" % i) for i in range(n1)]
    b = [fresh_real("b%d" % i) for i in range(n2)]
    worker = _store()
    rc = _store()
    with shadowed(metrics, SHADOW_NAMES, extra={"math": core.math_shadow, "statistics": StatisticsShadow, "pickle": c07.Identity, "zlib": c07.Identity}):
        for v in a:
            worker._add(_doc("latency", "t1", "normal", v))
        rc.bulk_add(worker.to_externalizable(clear=True))
        first = rc.get_stats("latency", task="t1", sample_type=metrics.SampleType.Normal)
        p_first = rc.get_percentiles("latency", task="t1", sample_type=metrics.SampleType.Normal, percentiles=[100])
        for v in b:
            worker._add(_doc("latency", "t1", "normal", v))
        rc.bulk_add(worker.to_externalizable(clear=True))
        second = rc.get_stats("latency", task="t1", sample_type=metrics.SampleType.Normal)
        p_second = rc.get_percentiles("latency", task="t1", sample_type=metrics.SampleType.Normal, percentiles=[0, 100])
        raw = rc.get("latency", task="t1", sample_type=metrics.SampleType.Normal)
    core.trace("count", len(raw))
    observe("every handed-over record is in the store exactly once", len(raw) == n1 + n2)
    observe("first query sees the first hand-over", first is not None and first["count"] == n1 and bool(s_and(*[p_first[100] >= v for v in a])))
    observe("second query: count of all records", second is not None and second["count"] == n1 + n2)
    if second is not None:
        observe("second query: sum of all records", second["sum"] == sum(a + b))
        observe("second query: max is an upper bound of ALL records and attained", s_and(*[second["max"] >= v for v in a + b]) & s_or(*[second["max"] == v for v in a + b]))
        observe("second query: p100 == max, p0 == min over all records", s_and(p_second[100] == second["max"], p_second[0] == second["min"],
                                                                              *[p_second[0] <= v for v in a + b]))


# ------------------------------------------------------------------------------------------------------------------
GLOBAL_SUMS = [("node_total_old_gen_gc_count", "old_gc_count"), ("indexing_throttle_time", "indexing_throttle_time"),
               ("flush_total_count", "flush_count"), ("translog_size_in_bytes", "translog_size")]


def _challenge():
    t1 = track.Task("t1", track.Operation("op-t1", "bulk", params={}))
    t2 = track.Task("t2", track.Operation("op-t2", "search", params={}))
    # a named task and a later task that takes its name from the same, shared operation
    shared = track.Operation("shared", "search", params={})
    t3, t4 = track.Task("warm-shared", shared), track.Task("shared", shared)
    ch = track.Challenge("c", schedule=[t1, t2, t3, t4], meta_data={"challenge-meta": 1})
    tr = track.Track("tr", challenges=[ch], meta_data={"track-meta": "x"})
    return tr, ch


def results(sl):
    """GlobalStatsCalculator over a store with warm-up and normal samples, then the persistence round trip"""
    w, n = sl["warmup"], sl["normal"]
    st = _store()
    tr, ch = _challenge()
    lat = {}
    for stype, cnt in (("warmup", w), ("normal", n)):
        for metric in ("latency", "service_time", "processing_time"):
            vals = _sorted_values(cnt, strict=sl.get("strict", cnt > 3), prefix="%s_%s_" % (metric[:3], stype[0]))
            lat[(metric, stype)] = vals
            for i, v in enumerate(vals):
                ok = True
                if metric == "service_time" and i < sl.get("failures", 0) and stype == "normal":
                    ok = False
                st.docs.append(_doc(metric, "t1", stype, v, ok, "bulk", rel=fresh_real("rel_%s_%s%d" % (metric[:3], stype[0], i), 0)
                                    if metric == "service_time" and i == 0 and (n <= 20 or stype == "normal") else i))
    thr_w = [fresh_real("thr_w%d" % i, 0) for i in range(sl.get("thr_w", 1))]
    thr_n = [fresh_real("thr_n%d" % i, 0) for i in range(sl.get("thr_n", 2))]
    for v in thr_w:
        st.docs.append(_doc("throughput", "t1", "warmup", v, True, "bulk", unit="docs/s"))
    for v in thr_n:
        st.docs.append(_doc("throughput", "t1", "normal", v, True, "bulk", unit="docs/s"))
    shared_vals = {"warm-shared": fresh_real("service_time_warm_shared", 0), "shared": fresh_real("service_time_shared", 0)}
    for task_name, v in shared_vals.items():
        st.docs.append(_doc("service_time", task_name, "normal", v, True, "search"))
    gvals = {}
    for name, attr in GLOBAL_SUMS:
        v = fresh_real("g_" + attr, 0)
        gvals[attr] = v
        st.docs.append({"name": name, "value": v, "unit": "x", "sample-type": "normal", "meta": {}, "relative-time": 0, "per-shard": [v]})
    with _shadow():
        res = metrics.GlobalStatsCalculator(st, tr, ch)()
        m1 = res.metrics("t1")
        observe("task t1 reported", m1 is not None)
        observe("task without samples: no latency, error rate 0", res.metrics("t2") is not None and res.metrics("t2")["latency"] == {}
                and res.metrics("t2")["error_rate"] == 0)
        if m1 is None:
            return
        # --- normal samples only
        exp_keys = [metrics.encode_float_key(p) for p in _documented_percentiles(n)] + ["mean", "unit"] if n > 0 else []
        for metric in ("latency", "service_time", "processing_time"):
            got = m1[metric]
            core.note(metric + " keys", list(got.keys()))
            observe("%s: reported percentiles depend only on the NORMAL sample count" % metric, list(got.keys()) == exp_keys)
            if n > 0 and list(got.keys()) == exp_keys:
                vals = lat[(metric, "normal")]
                observe("%s: p100 == max of the normal samples" % metric, got["100_0"] == vals[-1])
                observe("%s: mean of the normal samples" % metric, got["mean"] * n == sum(vals))
                if n > 1:
                    med = vals[n // 2] if n % 2 == 1 else (vals[n // 2 - 1] + vals[n // 2]) / 2
                    observe("%s: p50 == median of the normal samples" % metric, got["50_0"] == med)
                prev = None
                for k in exp_keys[:-2]:
                    observe("%s: %s within [min, max]" % (metric, k), s_and(vals[0] <= got[k], got[k] <= vals[-1]))
                    if prev is not None:
                        observe("%s: percentiles non-decreasing" % metric, got[prev] <= got[k])
                    prev = k
        thr = m1["throughput"]
        if thr_n:
            observe("throughput stats present (zero values are values)", thr["min"] is not None and thr["mean"] is not None
                    and thr["median"] is not None and thr["max"] is not None)
            if thr["min"] is not None and thr["mean"] is not None:
                observe("throughput min/max/mean of the normal samples only",
                        s_and(*[thr["min"] <= v for v in thr_n]) & s_or(*[thr["min"] == v for v in thr_n])
                        & s_and(*[thr["max"] >= v for v in thr_n]) & s_or(*[thr["max"] == v for v in thr_n])
                        & (thr["mean"] * len(thr_n) == sum(thr_n)))
            if thr["median"] is not None and thr["min"] is not None and thr["max"] is not None:
                below = sum(core.ite(v < thr["median"], 1, 0) for v in thr_n)
                above = sum(core.ite(v > thr["median"], 1, 0) for v in thr_n)
                observe("throughput median is the median of the normal samples only (within their min/max, splits them in halves)",
                        s_and(thr["min"] <= thr["median"], thr["median"] <= thr["max"], below * 2 <= len(thr_n), above * 2 <= len(thr_n))
                        & ((thr["median"] * 2 == thr_n[0] + thr_n[1]) if len(thr_n) == 2 else (thr["median"] == thr_n[0]) if len(thr_n) == 1 else True))
        else:
            observe("no normal throughput sample => no throughput stats", thr["min"] is None and thr["max"] is None)
        if n > 0:
            observe("error rate == failed normal requests / normal requests", m1["error_rate"] * n == sl.get("failures", 0))
        for attr, v in gvals.items():
            observe("global metric %s is the recorded value (0 included)" % attr, getattr(res, attr) is not None and getattr(res, attr) == v)
        # --- persistence: Race.as_dict -> JSON -> Race.from_dict -> GlobalStats(results), as compare / list races do
        race = metrics.Race("2.12", "rev", "env", "race-id", datetime.datetime(2024, 1, 1, 12, 0, 0), "from-sources", {}, tr, {}, ch, ["defaults"],
                            {}, {}, results=res)
        stored = jsonish(race.as_dict())
        back = metrics.Race.from_dict(stored)
        res2 = metrics.GlobalStats(back.results)
        m2 = res2.metrics("t1")
        observe("tasks survive storage", res2.tasks() == res.tasks())
        for r_ in (res, res2):
            observe("metrics(task) returns the record of that task, also when an earlier task runs an operation of that name",
                    all(r_.metrics(name) is not None and r_.metrics(name)["task"] == name for name in ("t1", "t2", "warm-shared", "shared")))
            for task_name, v in shared_vals.items():
                mm = r_.metrics(task_name)
                observe("each task reports its own samples", mm is not None and "100_0" in mm["service_time"] and mm["service_time"]["100_0"] == v)
        observe("per-task metrics survive storage", m2 is not None and _same(jsonish(m1), m2))
        for attr, v in gvals.items():
            observe("global metric %s survives storage" % attr, getattr(res2, attr) is not None and getattr(res2, attr) == v)
        f1, f2 = jsonish(res.as_flat_list()), res2.as_flat_list()
        observe("flat result list survives storage", _same(f1, f2))
        for k, v in res.as_dict().items():
            if k != "op_metrics":
                observe("field %s survives storage" % k, _same(jsonish(v), getattr(res2, k)))


VALUES = [0, 0.0, 1, 0.30000000000000004, 1e-07, 12345678.9, 2 ** 40]


def file_race_store(sl):
    """the race file as written by FileRaceStore.store_race and read back by find_by_race_id / list (what compare and list races do),
    on a real temporary directory with the real json module; values from a finite family with awkward floats and zeros"""
    import shutil
    import tempfile

    st = _store()
    tr, ch = _challenge()
    n = concrete(fresh_int("normal_samples", 0, 2))
    vals = [VALUES[concrete(fresh_int("sample_value%d" % i, 0, len(VALUES) - 1))] for i in range(n)]
    for i, v in enumerate(vals):
        for metric in ("latency", "service_time", "processing_time"):
            st.docs.append(_doc(metric, "t1", "normal", v, i != 0 or not sl["fail_first"], "bulk", rel=i))
        st.docs.append(_doc("throughput", "t1", "normal", v, True, "bulk", unit="docs/s"))
    g = VALUES[concrete(fresh_int("global_metric_value", 0, len(VALUES) - 1))]
    for name, attr in GLOBAL_SUMS:
        st.docs.append({"name": name, "value": g, "unit": "x", "sample-type": "normal", "meta": {}, "relative-time": 0, "per-shard": [g]})
    res = metrics.GlobalStatsCalculator(st, tr, ch)()
    # a user may choose any race id; another race whose id merely LOOKS similar (matches it as a shell pattern) is in the same directory
    RID, DECOY = [("race-1", "race-2"), ("8.13.0-[arm64]", "8.13.0-a"), ("run*", "run-other"), ("r?ce", "race")][concrete(fresh_int("race_id_spelling", 0, 3))]
    d = tempfile.mkdtemp(prefix="verif-c08-")
    try:
        def cfg_for(rid, track_filter=None, name_filter=None):
            return StubCfg({("system", "env.name"): "unittest", ("node", "root.dir"): d, ("system", "race.id"): rid, ("system", "list.max_results"): 10,
                            ("system", "admin.track"): track_filter, ("system", "list.races.benchmark_name"): name_filter, ("system", "list.from_date"): None,
                            ("system", "list.to_date"): None})

        decoy = metrics.Race("2.12", "rev", "env", DECOY, datetime.datetime(2023, 1, 1, 12, 0, 0), "from-sources", {"name": "decoy"}, tr, {}, ch, ["defaults"], {}, {},
                             results=metrics.GlobalStatsCalculator(_store(), tr, ch)())
        metrics.FileRaceStore(cfg_for(DECOY)).store_race(decoy)
        # the race is tagged either way the docs offer for `list races --benchmark-name`
        tag_key = sl.get("tag", "name")
        race = metrics.Race("2.12", "rev", "env", RID, datetime.datetime(2024, 1, 1, 12, 0, 0), "from-sources", {tag_key: "n"}, tr, {"p": 1}, ch, ["defaults"],
                            {}, {}, results=res)
        store = metrics.FileRaceStore(cfg_for(RID))
        store.store_race(race)
        try:
            back = store.find_by_race_id(RID)
        except Exception as e:  # noqa: BLE001
            core.note("find_by_race_id raised", repr(e))
            observe("a stored race is found again under its id, whatever characters the id contains", False)
            return
        listed = [r for r in store.list() if r.race_id != DECOY]
        n_listed = len(store.list())
        # `list races --track=... --benchmark-name=...`: the stored race matches every one of these filters
        f_track, f_name = {"track": ("tr", None), "name": (None, "n"), "both": ("tr", "n")}[sl.get("filters", "track")]
        filtered = [r.race_id for r in metrics.FileRaceStore(cfg_for(RID, f_track, f_name)).list()]
    finally:
        shutil.rmtree(d, ignore_errors=True)
    observe("list shows both races", n_listed == 2)
    core.note("filters / listed", ((f_track, f_name), filtered))
    observe("a stored race that matches the list filters (track, benchmark name) is listed, once", filtered.count(RID) == 1 and (f_name is None or filtered == [RID]))
    core.trace("n", n)
    core.note("values", (vals, g))
    res2 = metrics.GlobalStats(back.results)
    observe("the stored race is found (not a similarly named one) and listed", len(listed) == 1 and listed[0].race_id == RID and back.race_id == RID)
    observe("race attributes survive the file", back.race_timestamp == race.race_timestamp and back.track_name == "tr" and back.challenge_name == "c"
            and back.user_tags == {tag_key: "n"} and back.track_params == {"p": 1} and back.rally_version == "2.12")
    observe("tasks survive the file", res2.tasks() == res.tasks())
    for t in res.tasks():
        observe("per-task metrics of %s survive the file unchanged (exact floats, zeros stay zeros)" % t, res2.metrics(t) == res.metrics(t))
    for name, attr in GLOBAL_SUMS:
        observe("global metric %s survives the file" % attr, getattr(res2, attr) == getattr(res, attr) and getattr(res2, attr) is not None)
    observe("flat list (as written to the Elasticsearch results store) is the same before and after", res2.as_flat_list() == res.as_flat_list())
    observe("the listed race carries the same results", metrics.GlobalStats(listed[0].results).as_flat_list() == res.as_flat_list())


SIZES = [1000, 65535, 65536, 65537, 99999, 100000, 100001, 131073, 250001]


def percentiles_large(sl):
    """percentiles over LARGE sample sets (sizes around powers of two and 10^5), concrete values executed natively: whatever the size,
    p100 is the maximum, p0 the minimum and p50 the median of ALL recorded normal samples (no thinning, capping or windowing)"""
    import statistics

    n = sl["n"]
    positions = [0, 1, 2, n // 2, n - 2, n - 1]
    hi = positions[concrete(fresh_int("position_of_the_maximum", 0, len(positions) - 1))]
    lo = [3, n - 3][concrete(fresh_int("position_of_the_minimum", 0, 1))]
    if hi == lo:
        return
    vals = [10.0 + ((i * 7919) % 1009) / 100.0 for i in range(n)]
    vals[hi], vals[lo] = 5000.0, 0.25
    st = _store()
    st.docs = [_doc("latency", "t1", "normal", v, True, "bulk") for v in vals]
    pct = st.get_percentiles("latency", task="t1", sample_type=metrics.SampleType.Normal, percentiles=[0, 50, 100])
    stats = st.get_stats("latency", task="t1", sample_type=metrics.SampleType.Normal)
    core.trace("n", n)
    core.note("n / positions", (n, hi, lo))
    observe("p100 is the maximum of all samples", pct[100] == 5000.0)
    observe("p0 is the minimum of all samples", pct[0] == 0.25)
    observe("p50 is the median of all samples", abs(pct[50] - statistics.median(vals)) <= 1e-9)
    observe("stats count / min / max over all samples", stats["count"] == n and stats["min"] == 0.25 and stats["max"] == 5000.0)


def _documented_percentiles(n):
    """docs/summary_report.rst: percentiles shown depend on the number of samples (50 from 2, 90 from 10, 99 from 100, ...)"""
    out = []
    if n > 1:
        out.append(50)
    for need, p in ((10, 90), (100, 99), (1000, 99.9), (10000, 99.99)):
        if n >= need:
            out.append(p)
    return out + [100]


def _same(a, b):
    """structural equality with symbolic leaves -> python bool or SBool"""
    if isinstance(a, dict) and isinstance(b, dict):
        if list(a.keys()) != list(b.keys()):
            return False
        return s_and(*[_same(a[k], b[k]) for k in a]) if a else True
    if isinstance(a, list) and isinstance(b, list):
        if len(a) != len(b):
            return False
        return s_and(*[_same(x, y) for x, y in zip(a, b)]) if a else True
    if core.is_sym(a) or core.is_sym(b):
        if a is None or b is None or isinstance(a, str) or isinstance(b, str):
            return False
        return a == b
    if isinstance(a, float) and isinstance(b, float):
        return a == b or abs(a - b) <= 1e-9 * max(abs(a), abs(b))
    return a == b


READS = [metrics.InMemoryMetricsStore.percentile_value, metrics.InMemoryMetricsStore.get_percentiles, metrics.percentiles_for_sample_size,
         metrics.InMemoryMetricsStore.get_stats, metrics.MetricsStore.get_mean, metrics.MetricsStore.get_median,
         metrics.InMemoryMetricsStore.get_error_rate, metrics.InMemoryMetricsStore._get, metrics.GlobalStatsCalculator.__call__,
         metrics.GlobalStatsCalculator.summary_stats, metrics.GlobalStatsCalculator.single_latency, metrics.GlobalStatsCalculator.error_rate,
         metrics.encode_float_key, metrics.GlobalStats, metrics.Race.as_dict, metrics.Race.from_dict]
STUBS = ["statistics.mean/median inside esrally.metrics (sum/len, middle element)", "json round trip modelled structurally on symbolic paths (real json on native replays)"]
ASSUME = ["floats modelled as exact reals (model R)"]


def _result_slices(tier):
    out = [{"warmup": 0, "normal": 1}, {"warmup": 1, "normal": 0}, {"warmup": 1, "normal": 1, "thr_n": 0}, {"warmup": 1, "normal": 2, "failures": 1},
           {"warmup": 2, "normal": 3, "failures": 2, "thr_n": 3, "_w": 3}, {"warmup": 4, "normal": 8, "_w": 5}, {"warmup": 1, "normal": 9, "_w": 5},
           {"warmup": 0, "normal": 10, "failures": 3, "_w": 5}, {"warmup": 3, "normal": 11, "_w": 6}]
    if tier == "thorough":
        out += [{"warmup": 5, "normal": 99, "_w": 50}, {"warmup": 0, "normal": 100, "_w": 50}, {"warmup": 2, "normal": 3, "strict": False, "_w": 9}]
    return out


BUDGET = {"quick": 150, "thorough": 2400}

HARNESSES = [
    Harness("percentile", percentile, "symbolic", lambda tier: [{"n": n, "_w": n} for n in range(1, 7 if tier == "quick" else 11)], reads=READS,
            bounds={"values": "n = 1..6 quick / 1..10 thorough sorted symbolic reals", "p, q": "symbolic reals in [0,100]"}, assumptions=ASSUME,
            real_valued=True, doc="bounds, monotonicity, p0/p50/p100, linear-interpolation definition"),
    Harness("percentile_sets", percentile_sets, "symbolic", lambda tier: [{}], reads=READS, bounds={"sample size": "unbounded integers n <= n2"},
            doc="reported percentile set depends only on the sample count"),
    Harness("store_queries", store_queries, "symbolic",
            lambda tier: [{"records": r, "q_type": q, "_w": r} for r in ((1, 2, 3) if tier == "quick" else (1, 2, 3, 4)) for q in ("normal", "warmup", None)]
            + [{"records": 2, "q_type": "normal", "optypes": True}],
            reads=READS, stubs=STUBS, assumptions=ASSUME, real_valued=True,
            bounds={"records": "<=3 quick / <=4 thorough, attributes from 2 names x 2 tasks x 2 sample types (x 2 operation types), success flag, symbolic real value"},
            doc="filters, min/mean/median/max/sum/count, error rate"),
    Harness("incremental_hand_over", incremental_hand_over, "symbolic", lambda tier: [{"first": 2, "second": 2}, {"first": 1, "second": 3}], reads=READS, stubs=STUBS,
            assumptions=ASSUME + ["pickle/zlib round trip of the hand-over replaced by identity (pickle fidelity trusted)"], real_valued=True,
            bounds={"hand-overs": 2, "records": "2+2 / 1+3 symbolic real values"}, doc="queries between two hand-overs do not freeze later results"),
    Harness("file_race_store", file_race_store, "bounded-exhaustive", lambda tier: [{"fail_first": False, "tag": "name", "filters": "track"}, {"fail_first": True, "tag": "benchmark-name", "filters": "both"},
                          {"fail_first": False, "tag": "benchmark-name", "filters": "name"}, {"fail_first": True, "tag": "name", "filters": "both"}],
            reads=READS + [metrics.FileRaceStore.store_race, metrics.FileRaceStore.find_by_race_id, metrics.FileRaceStore.list, metrics.FileRaceStore._to_races],
            assumptions=["runs on a real temporary directory with the real json module (finite family of values: %s)" % VALUES],
            bounds={"normal samples": "0..2 with values of the family", "global metrics": "one value of the family"},
            doc="race.json written and read back through FileRaceStore reproduces per-task and global metrics"),
    Harness("percentiles_large", percentiles_large, "bounded-exhaustive", lambda tier: [{"n": n, "_w": 1 + n // 30000} for n in SIZES], reads=READS,
            assumptions=["concrete values, executed natively (no symbolic values): sizes %s, extreme values at 6 positions each" % SIZES],
            bounds={"sizes": SIZES}, doc="percentiles and stats over large sample sets use every sample"),
    Harness("results", results, "symbolic", _result_slices, reads=READS, stubs=STUBS, assumptions=ASSUME, real_valued=True,
            bounds={"samples per task": "warm-up/normal counts (0,1) (1,0) (1,1) (1,2) (2,3) (4,8) (1,9) (0,10) (3,11); thorough adds (5,99) (0,100)",
                    "values": "symbolic reals (strictly ordered when more than 3 per list)", "global metrics": "4 sums with symbolic values >= 0"},
            doc="GlobalStatsCalculator + Race.as_dict/JSON/from_dict/GlobalStats round trip"),
]
