"""C07 — every request sample reaches the metrics store exactly once (DESIGN §4 C07).

Deciding step: one-event conservation harnesses.  A pipeline state (samples in the worker's Sampler queue, in an UpdateSamples
message, in Driver.raw_samples, records in the driver's store, in a TaskFinished/BenchmarkComplete payload, in race control's store)
is built from solver-enumerated sizes with symbolic sample values; one stage of the REAL pipeline runs; every sample (ghost id) must
be in exactly one place afterwards and stored samples must have exactly their records.  Closed runs on the fake actor runtime with
sample-emitting runs are auxiliary."""
import collections
import time

import thespian.actors as ta

from esrally import metrics, racecontrol, track
from esrally.driver import driver
from esrally.driver import runner as _runner_mod

from harness import actors, c01
from harness.common import accessor, StubCfg, concrete
from symx import core
from symx.core import choose, fresh_bool, fresh_int, fresh_real, observe, shadowed
from symx.explore import Harness

PROPERTY = "C07"
EXPLANATION = ("C07: one-event conservation harnesses over the real Sampler, Worker.send_samples, DriverActor.receiveMsg_UpdateSamples, "
               "Driver.update_samples/post_process_samples/joinpoint_reached/move_to_next_task, SamplePostprocessor, InMemoryMetricsStore "
               "(_add, to_externalizable(clear), bulk_add) and BenchmarkCoordinator.on_task_finished/on_benchmark_complete: the number of "
               "samples in each place, the downsampling factor and the queue size are solver variables, sample values are symbolic reals; "
               "after every single stage each ghost id is in exactly one place and stored samples have exactly their records.")

OP = track.Operation("op", "bulk", meta_data={"op-meta": 1})
TASK = track.Task("t1", OP, meta_data={"task-meta": 2})
GHOST = [0]


def _pos(x):
    core.assume(x > 0)
    return x


def new_sample(client_id=0, sample_type=metrics.SampleType.Normal, dependent=0, task=TASK):
    GHOST[0] += 1
    gid = GHOST[0]
    lat, st, pt = fresh_real("latency_%d" % gid, 0), fresh_real("service_time_%d" % gid, 0), fresh_real("processing_time_%d" % gid, 0)
    # convert.seconds_to_ms is `s * 1000 if s else s`: a zero timing takes the other, trivially equal branch (0 == 0 * 1000); keep one path
    core.assume(core.s_and(lat > 0, st > 0, pt > 0))
    dep = None
    if dependent:
        dep = [{"dependent_timing": {"operation": "sub", "operation-type": "search", "absolute_time": 5.0, "request_start": 6.0, "service_time": _pos(fresh_real("dep_service_time_%d_%d" % (gid, j), 0))},
                "ghost-dep": "%d.%d" % (gid, j)} for j in range(dependent)]
    s = driver.Sample(client_id, 10.0 + gid, 20.0 + gid, 1.0, task, sample_type, {"ghost": gid, "success": True}, lat, st, pt, None, 1, "docs", 1.0, 0.5, dep)
    s.gid = gid
    s._dependent_timing_copy = [dict(x["dependent_timing"]) for x in dep] if dep else []  # Sample.dependent_timings pops the entries
    return s


def store():
    return metrics.InMemoryMetricsStore(StubCfg({("system", "env.name"): "verif"}))


class Identity:
    """pickle/zlib round trip as identity (symbolic values are not picklable); trusted: pickle fidelity"""

    @staticmethod
    def dumps(x):
        return list(x)

    @staticmethod
    def loads(x):
        return list(x)

    @staticmethod
    def compress(x):
        return x

    @staticmethod
    def decompress(x):
        return x


def env():
    return shadowed(metrics, ("int", "float", "round"), extra={"pickle": Identity, "zlib": Identity})


def ids_in_docs(docs):
    """ghost id -> list of (name, task, operation, sample-type, client_id) of request records"""
    out = collections.defaultdict(list)
    for d in docs:
        if d["name"] in ("latency", "service_time", "processing_time") and "ghost" in d.get("meta", {}) and "ghost-dep" not in d["meta"]:
            out[d["meta"]["ghost"]].append(d)
    return out


def dep_docs(docs):
    return [d for d in docs if "ghost-dep" in d.get("meta", {})]


def put_sample_docs(st, sample, factor=1):
    """what post-processing stores for one sample (through the real SamplePostprocessor)"""
    pp = driver.SamplePostprocessor(st, 1, {"track-meta": 0}, {"challenge-meta": 0})
    pp([sample])


class Pipeline:
    def __init__(self, sl):
        self.factor = concrete(fresh_int("downsample_factor", 1, 3)) if sl.get("downsampling") else 1
        self.qsize = concrete(fresh_int("sample_queue_size", 1, 3)) if sl.get("small_queue") else 100
        n = lambda name, hi: concrete(fresh_int(name, 0, hi))  # noqa: E731
        hi = sl["max_per_place"]
        install = actors.install_driver_stubs
        install()
        # worker
        self.sys = actors.System()
        self.rc_addr = self.sys.create(actors.Endpoint)
        self.da_addr = self.sys.create(driver.DriverActor)
        self.da = self.sys.actors[self.da_addr.addressDetails]
        self.w_addr = self.sys.create(driver.Worker, parent=self.da_addr)
        self.w = self.sys.actors[self.w_addr.addressDetails]
        self.w.driver_actor = self.da_addr
        self.w.worker_id = 0
        self.w.sampler = driver.Sampler(start_timestamp=0, buffer_size=self.qsize)
        self.in_queue = [new_sample(dependent=1 if (sl.get("dependent") and i == 0) else 0) for i in range(min(n("samples_in_worker_queue", hi), self.qsize))]
        for s in self.in_queue:
            self.w.sampler.q.put_nowait(s)
        # driver
        self.D = driver.Driver(self.da, actors.Cfg())
        self.da.driver = self.D
        self.da.benchmark_actor = self.rc_addr
        self.dstore = store()
        self.D.metrics_store = self.dstore
        self.D.telemetry = actors.TelemetryStub()
        self.D.quiet = True
        self.D.progress_reporter = actors.ProgressStub()
        self.D.sample_post_processor = driver.SamplePostprocessor(self.dstore, self.factor, {"track-meta": 0}, {"challenge-meta": 0})
        self.in_flight = [new_sample() for _ in range(n("samples_in_update_message", hi))]
        if self.in_flight:
            self.sys.send(self.w_addr, self.da_addr, driver.UpdateSamples(0, list(self.in_flight)))
        self.raw = [new_sample(client_id=i % 2, sample_type=metrics.SampleType.Warmup if i == 0 else metrics.SampleType.Normal,
                               dependent=2 if (sl.get("dependent") and i == 0) else 0) for i in range(n("raw_samples_at_driver", hi + 1))]
        # received the way the driver receives them (this also records the most recent sample per client)
        self.D.update_samples(list(self.raw))
        self.stored = [new_sample(dependent=1 if sl.get("dependent") else 0) for _ in range(n("samples_in_driver_store", hi))]
        with env():
            for s in self.stored:
                put_sample_docs(self.dstore, s)
        # payload in flight to race control and race control's store
        self.payload_samples = [new_sample() for _ in range(n("samples_in_handover_payload", hi))]
        tmp = store()
        with env():
            for s in self.payload_samples:
                put_sample_docs(tmp, s)
            self.payload = tmp.to_externalizable(clear=True)
        self.rcstore = store()
        self.at_rc = [new_sample() for _ in range(n("samples_in_race_control_store", hi))]
        with env():
            for s in self.at_rc:
                put_sample_docs(self.rcstore, s)
        self.coord = object.__new__(racecontrol.BenchmarkCoordinator)
        self.coord.logger = self.da.logger
        self.coord.metrics_store = self.rcstore
        self.coord.cancelled = False
        self.coord.error = False
        self.coord.race = None
        self.coord.race_store = None
        self.coord.cfg = None
        self.results_calls = []

    def places(self):
        """ghost id -> place, for every sample not (yet) turned into records; and records per place"""
        where = collections.defaultdict(list)
        for s in list(self.w.sampler.q.queue) if self.w.sampler else []:
            if hasattr(s, "gid"):
                where[s.gid].append("worker queue")
        for (_, m) in self.sys.chan.get((self.w_addr.addressDetails, self.da_addr.addressDetails), ()):
            if isinstance(m, driver.UpdateSamples):
                for s in m.samples:
                    where[s.gid].append("UpdateSamples in flight")
        for s in self.D.raw_samples:
            where[s.gid].append("raw_samples")
        recs = {"driver store": ids_in_docs(self.dstore.docs if self.D.metrics_store is not None else []),
                "payload": ids_in_docs(self.payload or []),
                "race control store": ids_in_docs(self.rcstore.docs)}
        for (_, m) in self.sys.chan.get((self.da_addr.addressDetails, self.rc_addr.addressDetails), ()):
            if isinstance(m, (driver.TaskFinished, driver.BenchmarkComplete)):
                for gid, docs in ids_in_docs(m.metrics or []).items():
                    recs.setdefault("handed over now", collections.defaultdict(list))[gid] += docs
        for place, by_id in recs.items():
            for gid in by_id:
                where[gid].append(place)
        return where, recs


def check_records(recs, samples_by_id, label=""):
    for place, by_id in recs.items():
        for gid, docs in by_id.items():
            s = samples_by_id[gid]
            names = sorted(d["name"] for d in docs)
            observe(label + "a stored sample has exactly one latency, one service_time and one processing_time record", names == ["latency", "processing_time", "service_time"])
            for d in docs:
                observe(label + "record carries task, operation, sample type and client id of its sample",
                        d["task"] == s.task.name and d["operation"] == s.operation_name and d["operation-type"] == s.operation_type
                        and d["sample-type"] == s.sample_type.name.lower() and d["meta"]["client_id"] == s.client_id)
                val = {"latency": s.latency, "service_time": s.service_time, "processing_time": s.processing_time}[d["name"]]
                observe(label + "record value is the sample's timing in ms", d["value"] == val * 1000)
                observe(label + "record unit", d["unit"] == "ms")


def pipeline_step(sl):
    GHOST[0] = 0
    p = Pipeline(sl)
    all_samples = {s.gid: s for s in p.in_queue + p.in_flight + p.raw + p.stored + p.payload_samples + p.at_rc}
    before, _ = p.places()
    observe("harness: every sample starts in exactly one place", all(len(v) == 1 for v in before.values()) and set(before) == set(all_samples))
    event = sl["event"]
    dropped = set()
    legit_drop = set()
    with env(), shadowed(racecontrol, (), extra={"metrics": _RcMetrics(p), "reporter": _Reporter(p)}):
        try:
            if event == "add":
                s = new_sample()
                all_samples[s.gid] = s
                full = p.w.sampler.q.full()
                p.w.sampler.add(s.task, s.client_id, s.sample_type, s.request_meta_data, s.absolute_time, s.request_start, s.latency, s.service_time,
                                s.processing_time, None, 1, "docs", 1.0, 0.5)
                # Sampler.add builds its own Sample object: tag it through the meta data
                for x in p.w.sampler.q.queue:
                    if not hasattr(x, "gid"):
                        x.gid = x.request_meta_data["ghost"]
                        all_samples[x.gid] = x
                if full:
                    legit_drop.add(s.gid)
            elif event == "send_samples":
                p.w.send_samples()
            elif event in ("next_row", "to_joinpoint"):
                # the wake-up handler found the run finished (executor_future reset) and advances through the allocation matrix;
                # whatever the load generator added after the last drain is still in the queue
                sched = [track.Parallel([c01.T("a"), c01.T("b"), c01.T("c")], clients=1)]
                ca = driver.ClientAllocations()
                ca.add(0, driver.Allocator(sched).allocations[0])
                p.w.client_allocations = ca
                p.w.config = actors.Cfg()
                p.w.pool = actors.Pool(p.sys, p.w_addr.addressDetails)
                p.w.sample_queue_size = 100
                p.w.executor_future = None
                row = 1 if event == "next_row" else 3
                p.w.current_task_index, p.w.next_task_index = row, row + 1
                p.w.drive()
            elif event == "update_samples":
                if not p.in_flight:
                    return
                p.sys.fire(("msg", (p.w_addr.addressDetails, p.da_addr.addressDetails)))
            elif event == "post_process":
                # only the samples at batch positions 0, f, 2f, ... are stored when downsampling
                legit_drop = {s.gid for i, s in enumerate(p.D.raw_samples) if i % p.factor != 0}
                # the periodic tick as the driver actor takes it: the wake-up that makes the post-processing timer expire
                p.D.number_of_steps, p.D.current_step, p.D.tasks_per_join_point = 2, 0, [{TASK}, {TASK}]
                p.da.post_process_timer = driver.DriverActor.POST_PROCESS_INTERVAL_SECONDS - driver.DriverActor.WAKEUP_INTERVAL_SECONDS
                p.da.receiveMessage(ta.WakeupMessage(None, None), p.da_addr)
                observe("the wake-up that expires the timer post-processes", p.da.post_process_timer == 0)
            elif event in ("step_boundary", "last_step"):
                legit_drop = {s.gid for i, s in enumerate(p.D.raw_samples) if i % p.factor != 0}
                p.D.workers = [p.w_addr]
                p.D.number_of_steps = 2
                p.D.current_step = 0 if event == "step_boundary" else 1
                p.D.tasks_per_join_point = [{TASK}, {TASK}]
                p.D.joinpoint_reached(0, 1.0, [])
            elif event == "task_finished":
                p.coord.on_task_finished(p.payload)
                p.payload = None
            elif event == "benchmark_complete":
                p.coord.on_benchmark_complete(p.payload)
                p.payload = None
        except Exception as e:  # noqa: BLE001 - a pipeline stage must not fail in a fault-free state
            core.note("stage raised", repr(e))
            observe("pipeline stages do not fail", False)
            return
    after, recs = p.places()
    core.note("event", event)
    core.note("before", {k: v for k, v in before.items()})
    core.note("after", {k: v for k, v in after.items()})
    core.trace("samples", len(all_samples))
    for gid in all_samples:
        if gid in legit_drop:
            observe("only a full queue / downsampling may drop a sample, and it drops exactly the overflowing / skipped ones", gid not in after)
        else:
            observe("no sample is lost by stage '%s'" % event, gid in after)
            observe("no sample is duplicated by stage '%s'" % event, len(after.get(gid, [])) == 1)
    check_records(recs, all_samples)
    # dependent timings: one extra service_time record each, never lost with their parent
    deps_expected = sum(len(s._dependent_timing or []) for gid, s in all_samples.items() if any(pl in ("driver store", "payload", "race control store", "handed over now") for pl in after.get(gid, [])))
    deps_found = sum(len(dep_docs(d)) for d in (p.dstore.docs if p.D.metrics_store is not None else [], p.payload or [], p.rcstore.docs)) + sum(
        len(dep_docs(m.metrics or [])) for (_, m) in p.sys.chan.get((p.da_addr.addressDetails, p.rc_addr.addressDetails), ()) if hasattr(m, "metrics"))
    observe("one service_time record per dependent sub-request of a stored sample", deps_found == deps_expected)
    all_dep_docs = dep_docs(p.dstore.docs if p.D.metrics_store is not None else []) + dep_docs(p.payload or []) + dep_docs(p.rcstore.docs)
    for (_, m) in p.sys.chan.get((p.da_addr.addressDetails, p.rc_addr.addressDetails), ()):
        if hasattr(m, "metrics"):
            all_dep_docs += dep_docs(m.metrics or [])
    for d in all_dep_docs:
        gid, j = d["meta"]["ghost-dep"].split(".")
        parent = all_samples[int(gid)]
        timing = parent._dependent_timing_copy[int(j)]
        observe("a sub-request record is a service_time record of the SUB-request's operation and type, under the parent's task, sample type and client",
                d["name"] == "service_time" and d["operation"] == timing["operation"] and d["operation-type"] == timing["operation-type"]
                and d["task"] == parent.task.name and d["sample-type"] == parent.sample_type.name.lower() and d["meta"]["client_id"] == parent.client_id)
        observe("a sub-request record carries the sub-request's own service time in ms", d["value"] == timing["service_time"] * 1000)
    if event == "post_process":
        observe("raw samples are consumed", p.D.raw_samples == [])
        thr = [d for d in p.dstore.docs if d["name"] == "throughput"]
        observe("throughput is computed from ALL samples of the batch (not only the down-sampled ones)", bool(thr) == bool(p.raw) or not p.raw)
    if event in ("step_boundary", "last_step"):
        observe("after the hand-over the driver's store holds nothing any more", p.D.metrics_store is None or p.dstore.docs == [])
    if event == "benchmark_complete":
        observe("results are computed after the last hand-over reached race control's store", p.results_calls and p.results_calls[0] == len(p.rcstore.docs))


def drain_interleaving(sl):
    """the load generator (another thread) adds a sample while Sampler.samples drains the queue: the producer's add is injected at a
    solver-chosen LINE of the drain (statement granularity; interleavings inside one line are not covered)"""
    import sys as _sys

    GHOST[0] = 0
    n0 = concrete(fresh_int("samples_in_queue_before", 0, 2))

    def mk():
        sm = driver.Sampler(start_timestamp=0, buffer_size=100)
        for i in range(n0):
            sm.add(TASK, 0, metrics.SampleType.Normal, {"ghost": i + 1}, 1.0, 2.0, 0.1, 0.1, 0.1, None, 1, "docs", 1.0, 0.5)
        return sm

    code = accessor(driver.Sampler.samples).__code__

    def run(sm, k):
        state = {"n": 0, "done": False}

        def tr(frame, event, arg):
            if frame.f_code is code:
                if event == "line":
                    state["n"] += 1
                    if k is not None and state["n"] == k and not state["done"]:
                        state["done"] = True
                        _sys.settrace(None)
                        sm.add(TASK, 0, metrics.SampleType.Normal, {"ghost": 99}, 1.0, 2.0, 0.1, 0.1, 0.1, None, 1, "docs", 1.0, 0.5)
                        _sys.settrace(tr)
                return tr
            return None

        _sys.settrace(tr)
        try:
            got = sm.samples
        finally:
            _sys.settrace(None)
        return got, state

    _, st = run(mk(), None)
    lines = st["n"]
    k = concrete(fresh_int("producer_adds_at_line_event", 1, max(lines, 1)))
    sm = mk()
    got, st = run(sm, k)
    rest = sm.samples
    ids = [x.request_meta_data["ghost"] for x in got] + [x.request_meta_data["ghost"] for x in rest]
    core.note("line events in the drain", lines)
    core.note("drained / drained later", ([x.request_meta_data["ghost"] for x in got], [x.request_meta_data["ghost"] for x in rest]))
    core.trace("n", len(ids))
    observe("a sample added while the queue is being drained is neither lost nor duplicated", sorted(ids) == list(range(1, n0 + 1)) + ([99] if st["done"] else []))


def add_interleaving(sl):
    """the dual of drain_interleaving: the worker actor drains (Sampler.samples) while the load generator is inside Sampler.add; the
    drain is injected at a solver-chosen LINE event of the add in esrally/driver/driver.py (Sampler.add, Sample.__init__); code of the
    standard library's queue runs under its own lock and is not interrupted"""
    import sys as _sys

    GHOST[0] = 0
    n0 = concrete(fresh_int("samples_in_queue_before", 0, 2))
    drv_file = driver.__file__

    def mk():
        sm = driver.Sampler(start_timestamp=0, buffer_size=100)
        for i in range(n0):
            sm.add(TASK, 0, metrics.SampleType.Normal, {"ghost": i + 1}, 1.0, 2.0, 0.1, 0.1, 0.1, None, 1, "docs", 1.0, 0.5)
        return sm

    def run(sm, k):
        state = {"n": 0, "done": False, "drained": []}

        def tr(frame, event, arg):
            if frame.f_code.co_filename == drv_file:
                if event == "line":
                    state["n"] += 1
                    if k is not None and state["n"] == k and not state["done"]:
                        state["done"] = True
                        _sys.settrace(None)
                        state["drained"] = sm.samples
                        _sys.settrace(tr)
                return tr
            return None

        _sys.settrace(tr)
        try:
            sm.add(TASK, 0, metrics.SampleType.Normal, {"ghost": 99}, 1.0, 2.0, 0.1, 0.1, 0.1, None, 1, "docs", 1.0, 0.5)
        finally:
            _sys.settrace(None)
        return state

    lines = run(mk(), None)["n"]
    k = concrete(fresh_int("worker_drains_at_line_event_of_the_add", 1, max(lines, 1)))
    sm = mk()
    st = run(sm, k)
    rest = sm.samples
    ids = [x.request_meta_data["ghost"] for x in st["drained"]] + [x.request_meta_data["ghost"] for x in rest]
    core.note("line events in the add", lines)
    core.note("drained during the add / afterwards", ([x.request_meta_data["ghost"] for x in st["drained"]], [x.request_meta_data["ghost"] for x in rest]))
    core.trace("n", len(ids))
    observe("a sample that is being added while the worker drains is neither lost nor duplicated", sorted(ids) == list(range(1, n0 + 1)) + [99])


def send_samples_sizes(sl):
    """Worker.send_samples on drains of very different sizes (around every power of two up to 2^17): however the samples are batched
    into messages, the driver receives every drained sample exactly once and in order. Samples are plain concrete objects here."""
    sizes = sorted({max(0, (1 << k) + d) for k in range(0, 18) for d in (-1, 0, 1)} | {3 * (1 << 14) + 5, 100000})
    n = sizes[concrete(fresh_int("samples_in_one_drain_(index_into_the_size_family)", 0, len(sizes) - 1))]
    install = actors.install_driver_stubs
    install()
    sys_ = actors.System()
    da_addr = sys_.create(actors.Endpoint)
    w_addr = sys_.create(driver.Worker, parent=da_addr)
    w = sys_.actors[w_addr.addressDetails]
    w.driver_actor = da_addr
    w.worker_id = 0
    w.sampler = driver.Sampler(start_timestamp=0, buffer_size=max(n, 1))
    for i in range(n):
        w.sampler.q.put_nowait(i)
    returned = w.send_samples()
    msgs = [m for (_, m) in sys_.chan.get((w_addr.addressDetails, da_addr.addressDetails), ()) if isinstance(m, driver.UpdateSamples)]
    shipped = [x for m in msgs for x in m.samples]
    core.trace("messages", len(msgs))
    core.note("samples / messages", (n, [len(m.samples) for m in msgs][:8]))
    observe("the drain is returned to the caller", list(returned) == list(range(n)))
    observe("every drained sample is shipped exactly once, in order, whatever the batching", shipped == list(range(n)))
    observe("no empty messages", all(len(m.samples) > 0 for m in msgs) and all(m.client_id == 0 for m in msgs))
    observe("the queue is empty afterwards", w.sampler.q.empty())


def _c04_complete_during_wait(sl):
    from harness import c04

    return c04.timings(sl)


def _c04_queue_full(sl):
    from harness import c04

    return c04.queue_full(sl)


def _c18_composite_streams(sl):
    from harness import c18

    return c18.composite_streams(sl)


class _RcMetrics:
    def __init__(self, p):
        self.p = p

    def calculate_results(self, st, race):
        self.p.results_calls.append(len(st.docs))
        return "results"

    def results_store(self, cfg):
        class R:
            @staticmethod
            def store_results(race):
                pass

        return R

    def __getattr__(self, name):
        return getattr(metrics, name)


class _Reporter:
    def __init__(self, p):
        self.p = p

    def summarize(self, results, cfg):
        pass


def _patch_coord(p):
    class Race:
        def add_results(self, r):
            pass

    class RS:
        def store_race(self, r):
            pass

    p.coord.race = Race()
    p.coord.race_store = RS()


_orig_init = Pipeline.__init__


def _init(self, sl):
    _orig_init(self, sl)
    _patch_coord(self)


Pipeline.__init__ = _init


# ------------------------------------------------------------------------------------------------------------------
# auxiliary: closed runs with sample-emitting runs, real stores on both sides, driver post-processing tick
# ------------------------------------------------------------------------------------------------------------------
EMIT_LIMIT = 2
SHAPES = {
    "one_task": (lambda: [c01.T("x")], 1),
    "two_tasks_2workers": (lambda: [c01.T("x", 2), c01.T("y")], 2),
    "overcommitted_parallel": (lambda: [track.Parallel([c01.T("a"), c01.T("b"), c01.T("c")], clients=1)], 1),
}


class Closed:
    def __init__(self, shape):
        mk, cores = SHAPES[shape]
        self.dstore = store()
        self.s = actors.build_driver(mk(), cores=cores, metrics_store=self.dstore)
        s = self.s
        s.D.sample_post_processor = driver.SamplePostprocessor(self.dstore, 1, {}, {})
        self.rcstore = store()
        self.emitted = []
        self.n = 0
        self.late = None

    def emit(self, run):
        self.n += 1
        ca = run.ex.task_allocations[0]
        sm = run.ex.sampler
        sm.add(ca.task.task, ca.client_id, metrics.SampleType.Normal, {"ghost": self.n, "success": True}, 1.0 * self.n, 2.0, 0.1, 0.1, 0.1, None, 1, "docs", 1.0, 0.5)
        run.emitted += 1
        self.emitted.append(self.n)

    def enabled(self):
        s = self.s
        out = []
        for e in s.enabled():
            if e[0] == "timer":
                k = s.timers[e[1]][0]
                a = s.actors[k]
                if isinstance(a, driver.DriverActor):
                    continue
                if isinstance(a, driver.Worker):
                    fut = a.executor_future
                    if not a.start_driving and fut is not None and not fut.done():
                        # poll wake-up: ships samples if there are any; otherwise a stutter step
                        if a.sampler is not None and not a.sampler.q.empty():
                            out.append(e)
                        # the load generator emits its last sample and finishes between the worker's drain and its done() check
                        if fut.run.emitted < EMIT_LIMIT and fut.run.can_finish():
                            out.append(("late", e[1]))
                        continue
            out.append(e)
        for i, r in enumerate(s.runs):
            if not r.finished and r.emitted < EMIT_LIMIT and r.ex.sampler is not None:
                out.append(("emit", i))
        if s.D.raw_samples and s.D.metrics_store is not None:
            out.append(("tick", 0))
        return out

    def fire(self, ev):
        s = self.s
        if ev[0] == "emit":
            self.emit(s.runs[ev[1]])
            s.trace.append("run %d emits a sample" % ev[1])
        elif ev[0] == "tick":
            s.trace.append("driver post-processing tick")
            # through the driver actor's own wake-up handler, with the timer about to expire
            da = s.actors[s.da_key]
            da.post_process_timer = driver.DriverActor.POST_PROCESS_INTERVAL_SECONDS - driver.DriverActor.WAKEUP_INTERVAL_SECONDS
            n_timers = len(s.timers)
            da.receiveMessage(ta.WakeupMessage(None, None), s.actors[s.da_key].myAddress)
            del s.timers[n_timers:]  # the handler re-arms its own periodic wake-up: not an event of this exploration
        elif ev[0] == "late":
            k, m = s.timers[ev[1]]
            run = s.actors[k].executor_future.run
            closed = self

            def done_hook():
                closed.emit(run)
                run.finish()
                return True

            run.on_poll = done_hook
            s.trace.append("wake-up of %s; its run emits a last sample and finishes between the drain and the done() check" % k)
            s.fire(("timer", ev[1]))
            run.on_poll = None
        else:
            s.fire(ev)
        # race control: consume hand-overs as they arrive (bulk_add through the real store)
        for m in s.rc.got[len(getattr(self, "_seen", [])):]:
            if isinstance(m, (driver.TaskFinished, driver.BenchmarkComplete)):
                self.rcstore.bulk_add(m.metrics)
        self._seen = list(s.rc.got)

    def fingerprint(self):
        s = self.s
        base = c01.fingerprint(s)
        q = tuple(tuple(x.request_meta_data["ghost"] for x in a.sampler.q.queue) if isinstance(a, driver.Worker) and a.sampler else () for _, a in sorted(s.actors.items()))
        fl = tuple(tuple(x.request_meta_data["ghost"] for x in m.samples) for k, ch in sorted(s.chan.items()) for _, m in ch if isinstance(m, driver.UpdateSamples))
        raw = tuple(x.request_meta_data["ghost"] for x in s.D.raw_samples)
        ds = tuple(sorted(d["meta"]["ghost"] for d in (self.dstore.docs if s.D.metrics_store is not None else []) if "ghost" in d.get("meta", {})))
        rs = tuple(sorted(d["meta"]["ghost"] for d in self.rcstore.docs if "ghost" in d.get("meta", {})))
        em = tuple(r.emitted for r in s.runs)
        pl = tuple(_payload_ids(m.metrics) for k, ch in sorted(s.chan.items()) for _, m in ch if isinstance(m, (driver.TaskFinished, driver.BenchmarkComplete)))
        return hash((base, q, fl, raw, ds, rs, em, pl))

    def final_check(self):
        s = self.s
        if not any(isinstance(m, driver.BenchmarkComplete) for m in s.rc.got):
            return "hang: race did not complete"
        by_id = ids_in_docs(self.rcstore.docs)
        for gid in self.emitted:
            names = sorted(d["name"] for d in by_id.get(gid, []))
            if names != ["latency", "processing_time", "service_time"]:
                return "sample %d has records %s in race control's store at the end of the race" % (gid, names)
        if set(by_id) - set(self.emitted):
            return "records of unknown samples"
        return None


def _payload_ids(memento):
    if not memento:
        return ()
    import pickle
    import zlib

    return tuple(sorted(d["meta"]["ghost"] for d in pickle.loads(zlib.decompress(memento)) if "ghost" in d.get("meta", {})))


# Fut.done() hook for the 'late' event
_orig_done = actors.Fut.done


def _done(self):
    hook = getattr(self.run, "on_poll", None)
    if hook and not self.run.finished:
        return hook()
    return _orig_done(self)


actors.Fut.done = _done


def explore_closed(shape, deadline, max_states=150000):
    visited = set()
    transitions = 0
    stack = [[]]
    violation = None
    exhaustive = True

    def replay(path):
        c = Closed(shape)
        # boot: deliver everything up to the first JoinPointReached like C01 (fewer irrelevant interleavings)
        for i in path:
            c.fire(c.enabled()[i])
        return c

    while stack:
        path = stack.pop()
        c = replay(path)
        evs = c.enabled()
        if not evs:
            r = c.final_check()
            if r and violation is None:
                violation = (r, path, list(c.s.trace))
            continue
        for i in range(len(evs)):
            c2 = replay(path + [i])
            transitions += 1
            fp = c2.fingerprint()
            if fp in visited:
                continue
            visited.add(fp)
            stack.append(path + [i])
        if time.time() > deadline or len(visited) > max_states:
            exhaustive = False
            break
    return {"states": len(visited), "transitions": transitions, "violation": violation, "exhaustive": exhaustive}


def closed_runs(tier, deadline):
    t0 = time.time()
    out = {"name": "closed_runs", "kind": "auxiliary explicit-state exploration (real Sampler, Worker, Driver, SamplePostprocessor, two real in-memory stores) with state hashing",
           "states": 0, "transitions": 0, "evaluations": 0, "distinct_nontrivial": 0, "exhaustive": True, "violations": [], "errors": [], "shapes": {},
           "bounds": {"samples per run": EMIT_LIMIT, "shapes": sorted(SHAPES)}}
    per = max(5.0, (deadline - t0 - 10) / len(SHAPES))
    for sh in SHAPES:
        r = explore_closed(sh, min(deadline, time.time() + per))
        out["states"] += r["states"]
        out["transitions"] += r["transitions"]
        out["shapes"][sh] = {"states": r["states"], "transitions": r["transitions"], "exhaustive": r["exhaustive"]}
        # a time-capped auxiliary search does not make the check inconclusive
        if r["violation"]:
            text, path, trace = r["violation"]
            out["violations"].append({"inputs": {"shape": sh, "schedule": path}, "failed": [text], "slice": {"shape": sh}, "trace": trace[-30:]})
    out["evaluations"] = out["transitions"]
    out["distinct_nontrivial"] = out["states"]
    out["wall_s"] = round(time.time() - t0, 1)
    return out


def _replay_closed(entry):
    sh, path = entry["inputs"]["shape"], entry["inputs"]["schedule"]
    c = Closed(sh)
    for i in path:
        evs = c.enabled()
        if i >= len(evs):
            return True, "schedule no longer applies"
        c.fire(evs[i])
    bad = c.final_check() if not c.enabled() else None
    return bad is None, "shape %s:\n  %s\n  -> %s" % (sh, "\n  ".join(c.s.trace[-30:]), bad or "no violation")


AUX = [closed_runs]
AUX_REPLAY = {"closed_runs": _replay_closed}

# ------------------------------------------------------------------------------------------------------------------
# the load-generator seam: real AsyncIoAdapter.run + real schedule_for + real AsyncExecutor + real Sampler
# ------------------------------------------------------------------------------------------------------------------
def adapter_wiring(sl):
    """every row of a worker's allocation matrix is executed through the real AsyncIoAdapter: each request's sample carries the id of
    the client that issued it (the client whose Elasticsearch client was used), its task and operation, and every allocation runs its
    iterations exactly once. Over-committed parallel elements make global client indices differ from physical client ids."""
    import asyncio

    n_sub = concrete(fresh_int("sub_tasks", 1, 3))
    cap = concrete(fresh_int("clients_of_the_parallel_element", 1, 2))
    iters = concrete(fresh_int("iterations", 1, 2))
    first_client = concrete(fresh_int("first_client_id_of_this_worker", 0, 1)) * 4  # a worker that does not start at client 0
    subs = [track.Task("sub%d" % i, track.Operation("op%d" % i, "verif-op"), clients=1, warmup_iterations=0, iterations=iters) for i in range(n_sub)]
    matrix = driver.Allocator([track.Parallel(subs, clients=cap)]).allocations
    ca = driver.ClientAllocations()
    for k, row in enumerate(matrix):
        ca.add(first_client + k, row)
    log = []

    from esrally.client import context as client_context

    class EsStub(client_context.RequestContextHolder):
        def __init__(self, client_id):
            self.client_id = client_id
            self.closed = 0

        async def close(self):
            self.closed += 1

    class Factory:
        def __init__(self, hosts, options, distribution_version=None, distribution_flavor=None):
            pass

        def create_async(self, api_key=None, client_id=None):
            return EsStub(client_id)

    class ClientNs:
        EsClientFactory = Factory

    class Source:
        infinite = True

        def partition(self, i, n):
            return self

        def params(self):
            return {}

    class TrackNs:
        @staticmethod
        def operation_parameters(t, task):
            return Source()

        def __getattr__(self, name):
            return getattr(track, name)

    class Rn:
        completed = None
        percent_completed = None

        def __init__(self, op_type):
            pass

        async def __aenter__(self):
            return self

        async def __aexit__(self, *a):
            return False

        async def __call__(self, es, params):
            log.append(es["default"].client_id)
            es["default"].on_request_start()
            es["default"].on_request_end()
            return {"weight": 1, "unit": "ops", "issued-by": es["default"].client_id}

    class Hosts:
        all_hosts = {"default": [{"host": "localhost", "port": 9200}]}

    cfg = StubCfg({("driver", "profiling"): False, ("driver", "assertions"): False, ("system", "async.debug"): False, ("client", "hosts"): Hosts,
                   ("client", "options"): {"default": {}}, ("mechanic", "distribution.version"): None, ("mechanic", "distribution.flavor"): None})
    contexts = {first_client + k: type("Ctx", (), {"api_key": None})() for k in range(len(matrix))}
    all_samples = []
    n_rows = len(matrix[0])
    with shadowed(driver, (), extra={"client": ClientNs, "track": TrackNs()}), shadowed(driver.runner, (), extra={"runner_for": Rn}):
        for row in range(n_rows):
            allocs = ca.tasks(row)
            if not allocs or ca.is_joinpoint(row):
                continue
            sampler = driver.Sampler(start_timestamp=time.perf_counter())
            import threading

            adapter = actors.REAL["AsyncIoAdapter"](cfg, None, allocs, sampler, threading.Event(), threading.Event(), "continue", contexts, 0)
            asyncio.run(adapter.run())
            for smp in sampler.samples:
                all_samples.append((row, smp))
    core.trace("samples", len(all_samples))
    core.note("matrix", [[str(x) for x in row] for row in matrix])
    expected = [(row, cl, x.task) for cl, r in enumerate(matrix) for row, x in enumerate(r) if isinstance(x, driver.TaskAllocation)]
    observe("every allocation issues its iterations exactly once", len(all_samples) == len(expected) * iters and len(log) == len(all_samples))
    for row, smp in all_samples:
        issued_by = smp.request_meta_data.get("issued-by")
        observe("a sample carries the id of the client that issued the request", smp.client_id == issued_by)
        observe("that client belongs to this worker", first_client <= smp.client_id < first_client + len(matrix))
        x = matrix[smp.client_id - first_client][row] if first_client <= smp.client_id < first_client + len(matrix) else None
        observe("and ran the task the matrix gives that client in that row", isinstance(x, driver.TaskAllocation) and smp.task is x.task
                and smp.operation_name == x.task.operation.name)


READS = [driver.Sampler.add, accessor(driver.Sampler.samples), driver.Worker.send_samples, driver.Worker.drive, driver.Worker.receiveMsg_WakeupMessage,
         driver.DriverActor.receiveMsg_UpdateSamples, driver.Driver.update_samples, driver.Driver.post_process_samples, driver.Driver.joinpoint_reached,
         driver.Driver.move_to_next_task, driver.SamplePostprocessor.__call__, accessor(driver.Sample.dependent_timings), metrics.InMemoryMetricsStore._add,
         metrics.InMemoryMetricsStore.to_externalizable, metrics.MetricsStore.bulk_add, metrics.MetricsStore.put_value_cluster_level,
         racecontrol.BenchmarkCoordinator.on_task_finished, racecontrol.BenchmarkCoordinator.on_benchmark_complete]
STUBS = ["pickle/zlib round trip inside esrally.metrics replaced by identity on symbolic paths (pickle fidelity trusted)",
         "calculate_results / store_race / summarize replaced by recorders", "fake actor runtime for the worker->driver channel"]
EVENTS = ["add", "send_samples", "next_row", "to_joinpoint", "update_samples", "post_process", "step_boundary", "last_step", "task_finished", "benchmark_complete"]


def _slices(tier):
    out = []
    for ev in EVENTS:
        out.append({"event": ev, "max_per_place": 1 if tier == "quick" else 2, "_w": 3})
        if ev in ("post_process", "step_boundary", "last_step"):
            out.append({"event": ev, "max_per_place": 1, "downsampling": True, "dependent": True, "_w": 4})
        if ev in ("add", "send_samples"):
            out.append({"event": ev, "max_per_place": 2, "small_queue": True, "dependent": True, "_w": 3})
    return out


HARNESSES = [
    Harness("pipeline_step", pipeline_step, "symbolic", _slices, reads=READS, stubs=STUBS,
            assumptions=["floats modelled as exact reals (model R)"],
            bounds={"samples per place": "0..1 quick / 0..2 thorough in each of six places (queue, message, raw_samples, driver store, hand-over payload, race control store)",
                    "downsample factor": "1..3", "queue size": "1..3 (or large)", "stages": EVENTS, "sample values": "symbolic reals > 0"},
            real_valued=True, doc="every single stage conserves samples: each ghost id in exactly one place, stored samples have exactly their records"),
]
HARNESSES.append(Harness("drain_interleaving", drain_interleaving, "bounded-exhaustive", lambda tier: [{}], reads=[accessor(driver.Sampler.samples), driver.Sampler.add],
                         stubs=["producer thread = an add() injected by sys.settrace at a line event inside Sampler.samples"],
                         bounds={"samples before": "0..2", "injection point": "every line event of the drain"},
                         doc="drain vs. concurrent add at statement granularity"))
HARNESSES.append(Harness("add_interleaving", add_interleaving, "bounded-exhaustive", lambda tier: [{}], reads=[accessor(driver.Sampler.samples), driver.Sampler.add],
                         stubs=["consumer thread = a drain injected by sys.settrace at a line event inside Sampler.add / Sample.__init__"],
                         bounds={"samples before": "0..2", "injection point": "every line event of the add in esrally/driver/driver.py"},
                         doc="add vs. concurrent drain at statement granularity"))
HARNESSES.append(Harness("send_samples_sizes", send_samples_sizes, "bounded-exhaustive", lambda tier: [{}], reads=[driver.Worker.send_samples, accessor(driver.Sampler.samples)],
                         stubs=["fake actor runtime (messages recorded)", "samples are plain integers (only identity and order matter)"],
                         bounds={"drain sizes": "0, every 2^k and 2^k +- 1 up to 2^17, 49157, 100000"}, doc="shipping a drain of any size: exactly once, in order"))
HARNESSES.append(Harness("request_in_flight_at_completion", _c04_complete_during_wait, "symbolic",
                         lambda tier: [{"requests": 2, "throttled": True, "complete_during_wait": True, "max_gap": 2.5, "_w": 3}],
                         reads=[driver.AsyncExecutor.__call__, driver.Sampler.add], stubs=["clock, asyncio.sleep, schedule handle, runner (harness shared with C04 timings)"],
                         real_valued=True, bounds={"requests": "<=2", "completion": "the parent element may be completed by another client during any throttle wait"},
                         doc="a request executed while the parent element is being completed is still recorded"))
HARNESSES.append(Harness("adapter_wiring", adapter_wiring, "bounded-exhaustive", lambda tier: [{}],
                         reads=[actors.REAL["AsyncIoAdapter"].run, driver.schedule_for, driver.AsyncExecutor.__call__, driver.Sampler.add, accessor(driver.Allocator.allocations)],
                         stubs=["EsClientFactory (client object remembering its client id)", "track.operation_parameters", "runner registry (stub runner reporting which client object it was given)"],
                         assumptions=["runs on a real event loop and the real clock (nothing symbolic: a finite family of allocation matrices)"],
                         bounds={"parallel element": "1..3 single-client sub-tasks on 1..2 clients (over-committed when sub-tasks > clients)", "iterations": "1..2",
                                 "worker's first client id": "0 or 4"},
                         doc="client id, task and operation of every sample through the real AsyncIoAdapter"))
HARNESSES.append(Harness("queue_full_then_drained", _c04_queue_full, "bounded-exhaustive", lambda tier: [{"size": n} for n in (1, 2, 4)],
                         reads=[driver.Sampler.add, accessor(driver.Sampler.samples)], stubs=["harness shared with C04 queue_full"],
                         bounds={"queue size": "1, 2, 4", "sequence": "overflow, drain, overflow, drain, fill, drain"},
                         doc="only a full queue reduces the number of records: a drained queue records again"))
HARNESSES.append(Harness("composite_sub_requests", _c18_composite_streams, "symbolic", lambda tier: [{"max_connections": m} for m in (1, 2, 16)],
                         reads=[_runner_mod.Composite.__call__, _runner_mod.Composite.run_stream, accessor(driver.Sample.dependent_timings)],
                         stubs=["sub-runners are gated stubs, clock symbolic (harness shared with C18 composite_streams)"], real_valued=True,
                         bounds={"request structure": "two concurrent streams followed by a plain request on the same level; every order of their wire events"},
                         doc="every executed sub-request of a composite operation yields one dependent timing (-> one service_time record), also for "
                             "streams that are joined before a later request"))
BUDGET = {"quick": 170, "thorough": 1200}
