"""C05 — iterations, time periods, warm-up, progress and pacing follow the task spec (DESIGN §4 C05)."""
import threading

from esrally import exceptions, metrics, track
from esrally.client import context as client_context
from esrally.driver import driver, runner, scheduler

from harness.common import accessor, concrete
from harness.execenv import Client, Clock, StubRunner, drive
from symx import core
from symx.core import fresh_bool, fresh_int, fresh_real, implies, observe, s_and, s_or, shadowed
from symx.explore import Harness

PROPERTY = "C05"
EXPLANATION = ("C05: loop controls and schedulers are executed on unbounded symbolic integers/reals where they are loop-free (flags, progress, "
               "pacing, ramp-up); the real schedule generator and the real executor are run with real loop controls against a symbolic "
               "clock for bounded numbers of requests; the choice of loop control is executed for every combination of present/absent "
               "task fields.")

W, N = metrics.SampleType.Warmup, metrics.SampleType.Normal


# ---------------------------------------------------------------------------------------------------- loop-free, unbounded
def iteration_control(sl):
    w = fresh_int("warmup", 0)
    n = fresh_int("iterations", 0)
    core.assume(w + n >= 1)
    it = fresh_int("it", 0)
    core.assume(it < w + n)  # a request is only issued while not completed
    lc = driver.IterationBased(w, n)
    lc.start()
    observe("starts at iteration 0, not completed", lc._it == 0 and not lc.completed)
    lc._it = it
    st = lc.sample_type
    observe("warm-up flag iff iteration < warmup-iterations", (st == W) == bool(it < w))
    pc = lc.percent_completed
    observe("progress in (0, 1]", s_and(pc > 0, pc <= 1))
    observe("progress == (it + 1) / total", pc * (w + n) == it + 1)
    observe("progress is 1 exactly at the last iteration", (pc == 1) == (it == w + n - 1) if not core.is_sym(pc) else
            core.SBool(core.z3.And(core.implies(pc == 1, it == w + n - 1).z, core.implies(it == w + n - 1, pc == 1).z)))
    observe("not completed while iterations remain", not lc.completed)
    lc.next()
    observe("next() advances by one", lc._it == it + 1)
    observe("completed iff all iterations done", bool(lc.completed) == bool(it + 1 >= w + n))
    if not lc.completed:
        observe("progress strictly increases", lc.percent_completed > pc)
        observe("never back from normal to warm-up", implies(st == N, lc.sample_type == N) if True else True)
    observe("finite", not lc.infinite)


def iteration_zero(sl):
    try:
        driver.IterationBased(0, 0)
        observe("zero total iterations rejected", False)
    except exceptions.RallyAssertionError:
        observe("zero total iterations rejected", True)
    lc = driver.IterationBased(fresh_int("w", 0), None)
    observe("no iterations => infinite (parameter source decides)", lc.infinite)


def time_control(sl):
    w = fresh_real("warmup", 0)
    p = fresh_real("period", 0)
    clock = Clock(wall_steps=True)
    with shadowed(driver, (), extra={"time": clock.time_ns()}):
        lc = driver.TimePeriodBased(w, p)
        lc.start()
        start = clock.now
        lc.next()
        t1 = clock.now
        st1, c1 = lc.sample_type, lc.completed
        pc1 = lc.percent_completed if not c1 and bool(w + p > 0) else None
        lc.next()
        t2 = clock.now
        st2, c2 = lc.sample_type, lc.completed
    e1, e2 = t1 - start, t2 - start
    observe("warm-up flag iff elapsed < warmup-time-period", (st1 == W) == bool(e1 < w) and (st2 == W) == bool(e2 < w))
    observe("completed iff warmup + period has elapsed", bool(c1) == bool(e1 >= w + p) and bool(c2) == bool(e2 >= w + p))
    observe("never back from normal to warm-up", implies(st1 == N, st2 == N) if False else not (st1 == N and st2 == W))
    observe("completion is permanent", not (c1 and not c2))
    if pc1 is not None:
        observe("progress within [0, 1) while not completed", s_and(pc1 >= 0, pc1 < 1))
        if not c2:
            observe("progress non-decreasing", lc.percent_completed >= pc1)
    observe("finite", not lc.infinite)


# ---------------------------------------------------------------------------------------------------- pacing
def _task(clients, tt_value, tt_unit, schedule=None, ramp=None):
    params = {}
    if tt_value is not None:
        params["target-throughput"] = tt_value if tt_unit is None else track.Throughput(tt_value, tt_unit)
    return track.Task("t", track.Operation("op", "bulk"), clients=clients, params=params, schedule=schedule, ramp_up_time_period=ramp,
                      warmup_time_period=0 if ramp is None else ramp)


class TaskWithThroughput:
    """a Task whose target_throughput is a given Throughput tuple (numeric value symbolic)"""

    def __init__(self, clients, value, unit, schedule=None):
        self.clients = clients
        self.target_throughput = track.Throughput(value, unit)
        self.schedule = schedule
        self.name = "t"
        self.params = {}

    def __str__(self):
        return "t"


def pacing(sl):
    """deterministic schedule: consecutive requests of each of C clients are weight*C/T apart"""
    C = fresh_int("clients", 1)
    T = fresh_real("target_throughput", 0)
    core.assume(T > 0)
    unit_mode = sl["unit_mode"]  # "match": docs/s target, runner reports docs; "ops-fallback": ops/s target, runner reports docs; "ops": ops/s + ops
    target_unit = "docs/s" if unit_mode == "match" else "ops/s"
    runner_unit = "ops" if unit_mode == "ops" else "docs"
    task = TaskWithThroughput(C, T, target_unit)
    with shadowed(scheduler, ("int", "float", "isinstance")):
        s = scheduler.scheduler_for(task)
        observe("throttled task gets the unit-aware deterministic scheduler", isinstance(s, scheduler.UnitAwareScheduler))
        t0 = fresh_real("t0", 0)
        observe("before the first response: unthrottled", s.next(t0) == 0)
        weights = []
        t = t0
        for i in range(sl["requests"]):
            w = fresh_int("weight%d" % i, 0)
            weights.append(w)
            s.after_request(fresh_real("now%d" % i, 0), w, runner_unit, {})
            nxt = s.next(t)
            # effective weight: last positive weight seen (a zero weight = failed request changes nothing)
            eff = None
            for ww in weights:
                if bool(ww > 0):
                    eff = ww
            if eff is None:
                observe("request %d: still unthrottled while no weight is known" % i, nxt == 0)
            else:
                per_request = eff if unit_mode in ("match", "ops") else 1  # units agree in both; ops/s fallback counts requests
                observe("request %d: next - current == weight * clients / target-throughput" % i, (nxt - t) * T == per_request * C)
                observe("request %d: scheduled times never decrease" % i, nxt >= t)
                t = nxt


def pacing_unit_mismatch(sl):
    task = TaskWithThroughput(2, 10.0, "docs/s")
    s = scheduler.scheduler_for(task)
    try:
        s.after_request(0, fresh_int("w", 1), "pages", {})
        observe("unit mismatch (other than ops/s) is an error", False)
    except exceptions.RallyAssertionError:
        observe("unit mismatch (other than ops/s) is an error", True)


def unthrottled(sl):
    task = track.Task("t", track.Operation("op", "bulk"), clients=fresh_int("clients", 1), schedule=[None, "deterministic", "poisson"][sl["sched"]])
    s = scheduler.scheduler_for(task)
    t = fresh_real("t", 0)
    observe("no target throughput => unthrottled, scheduled time 0", isinstance(s, scheduler.Unthrottled) and s.next(t) == 0)
    s.after_request(t, fresh_int("w", 0), "docs", {})
    observe("stays unthrottled", s.next(t) == 0)


def poisson_monotone(sl):
    rate = fresh_real("rate", 0)
    core.assume(rate > 0)
    t = fresh_real("t", 0)

    class R:
        @staticmethod
        def expovariate(lmbd):
            observe("rate parameter is the per-client request rate", lmbd == rate)
            return fresh_real("exp_sample", 0)

    with shadowed(scheduler, (), extra={"random": R}):
        s = scheduler.PoissonScheduler(None, rate)
        observe("poisson: scheduled times never decrease", s.next(t) >= t)


def ramp_up(sl):
    ramp = fresh_real("ramp_up", 0)
    total = fresh_int("total_clients", 1)
    idx = fresh_int("global_index", 0)
    core.assume(idx < total)
    task = track.Task("t", track.Operation("op", "bulk"), ramp_up_time_period=ramp, warmup_time_period=ramp)
    ta = driver.TaskAllocation(task, client_index_in_task=0, global_client_index=idx, total_clients=total)
    h = driver.ScheduleHandle(ta, None, None, None, None)
    wait = h.ramp_up_wait_time
    observe("ramp-up delays client i by ramp-up * i / total", wait * total == ramp * idx)
    observe("within [0, ramp-up)", s_and(wait >= 0, wait <= ramp))
    h2 = driver.ScheduleHandle(driver.TaskAllocation(track.Task("t", track.Operation("op", "bulk")), 0, idx, total), None, None, None, None)
    observe("no ramp-up => no wait", h2.ramp_up_wait_time == 0)


def ramp_up_allocated(sl):
    """the 'total' of the ramp-up rule is the number of clients of the ramped-up element itself, as handed out by the real Allocator
    (other elements of the challenge may use more or fewer clients)"""
    ca = concrete(fresh_int("clients_of_the_other_task", 1, 4))
    cb = concrete(fresh_int("clients_of_the_ramped_task", 1, 4))
    par = bool(fresh_bool("ramped_task_is_a_parallel_element"))
    ramp = fresh_real("ramp_up", 0)
    core.assume(ramp > 0)
    other = track.Task("other", track.Operation("op", "bulk"), clients=ca)
    if par:
        subs = [track.Task("r%d" % i, track.Operation("op%d" % i, "bulk"), clients=1, ramp_up_time_period=ramp, warmup_time_period=ramp) for i in range(cb)]
        ramped = track.Parallel(subs)
    else:
        ramped = track.Task("r", track.Operation("op", "bulk"), clients=cb, ramp_up_time_period=ramp, warmup_time_period=ramp)
    order = [other, ramped] if bool(fresh_bool("other_task_first")) else [ramped, other]
    alloc = driver.Allocator(order).allocations
    tas = [x for row in alloc for x in row if isinstance(x, driver.TaskAllocation) and x.task.name.startswith("r")]
    core.trace("allocations", len(tas))
    observe("every client of the ramped-up element has an allocation", len(tas) == cb)
    waits = []
    for ta in tas:
        w = driver.ScheduleHandle(ta, None, None, None, None).ramp_up_wait_time
        waits.append(w)
        observe("client %d waits ramp-up * i / total with total = clients of its own element" % ta.global_client_index,
                # i / total is computed on concrete operands (an inexact double such as 1/3): compared with a 1e-9 relative tolerance
                s_and(w * cb - ramp * ta.global_client_index <= ramp * 1e-9, ramp * ta.global_client_index - w * cb <= ramp * 1e-9))
    observe("the waits of the element's clients are spread evenly over [0, ramp-up)",
            sorted(ta.global_client_index for ta in tas) == list(range(cb)) and all(bool(w < ramp) for w in waits))


# ---------------------------------------------------------------------------------------------------- generator
class Params:
    infinite = True

    def __init__(self, limit=None):
        self.n = 0
        self.limit = limit

    def params(self):
        if self.limit is not None and self.n >= self.limit:
            raise StopIteration()
        self.n += 1
        return {"i": self.n}

    def partition(self, i, n):
        return self


class FixedStep:
    """scheduler stub: next = current + symbolic gap >= 0"""

    def __init__(self):
        self.n = 0

    def next(self, current):
        self.n += 1
        return current + fresh_real("gap%d" % self.n, 0)

    def before_request(self, now):
        pass

    def after_request(self, *a):
        pass


def _collect(agen, limit, on_item=None):
    """drives an async generator whose awaits never suspend"""
    out = []
    for _ in range(limit):
        try:
            agen.asend(None).send(None)
        except StopIteration as e:
            out.append(e.value)
            if on_item:
                on_item(e.value)
            continue
        except StopAsyncIteration:
            return out, True
    return out, False


def generator_iterations(sl):
    bound = sl["bound"]
    w = fresh_int("warmup", 0, bound)
    n = fresh_int("iterations", 0, bound)
    core.assume(s_and(w + n >= 1, w + n <= bound))
    task = track.Task("t", track.Operation("op", "bulk"), warmup_iterations=w, iterations=n)
    ta = driver.TaskAllocation(task, 0, 0, 1)
    lc = driver.IterationBased(w, n)
    h = driver.ScheduleHandle(ta, FixedStep(), lc, "runner", Params())
    h.start()
    items, ended = _collect(h(), bound + 2)
    wc, nc = concrete(w), concrete(n)
    core.note("w,n,yielded", (wc, nc, len(items)))
    core.trace("yielded", len(items))
    observe("generator terminates", ended)
    observe("exactly warmup-iterations + iterations requests", len(items) == wc + nc)
    observe("the first warmup-iterations are flagged warm-up, the rest normal", [x[1] for x in items] == [W] * wc + [N] * nc)
    for a, b in zip(items, items[1:]):
        observe("scheduled times never decrease", b[0] >= a[0])
        observe("progress never decreases", b[2] >= a[2])
    if items:
        observe("progress within (0,1] and ends at exactly 1", all(bool(s_and(x[2] > 0, x[2] <= 1)) for x in items) and bool(items[-1][2] == 1))
        observe("operation type injected into the params", all(x[4].get("operation-type") == "bulk" for x in items))


def generator_param_source_ends(sl):
    """infinite loop control: the parameter source ends the schedule"""
    k = sl["limit"]
    task = track.Task("t", track.Operation("op", "bulk"))
    lc = driver.IterationBased(fresh_int("warmup", 0, 2), None)
    h = driver.ScheduleHandle(driver.TaskAllocation(task, 0, 0, 1), FixedStep(), lc, "runner", Params(limit=k))
    h.start()
    items, ended = _collect(h(), k + 2)
    core.trace("yielded", len(items))
    observe("schedule ends when the parameter source is exhausted", ended and len(items) == k)
    observe("no normal -> warm-up transition", all(not (a[1] == N and b[1] == W) for a, b in zip(items, items[1:])))


def looped_bulk_progress(sl):
    """a bulk task without an end of its own (background indexing in a parallel element with completed-by) whose parameter source starts
    the corpus over and over ("looped"): the REAL bulk parameter source behind the real schedule generator never reports decreasing progress"""
    from esrally.track import params as tparams
    from harness import c03

    docs = concrete(fresh_int("documents", 2, 4))
    bulk = concrete(fresh_int("bulk_size", 1, 2))
    warm = concrete(fresh_int("task_has_warmup_iterations_only", 0, 1))
    c03.FILES.clear()
    name = "/nonexistent-verif/looped.json"
    c03.FILES[name] = [b'{"f":0,"i":%d}\n' % i for i in range(docs)]
    corpus = track.DocumentCorpus("c", [track.Documents("bulk", document_file=name, number_of_documents=docs, target_index="idx")])
    t = track.Track("t", corpora=[corpus], indices=[track.Index("idx")])
    n_req = 3 * ((docs + bulk - 1) // bulk) + 1  # more than two rounds through the corpus
    with shadowed(tparams, (), extra={"io": c03.MemIo}):
        src = tparams.BulkIndexParamSource(t, {"bulk-size": bulk, "looped": True})
        part = src.partition(0, 1)
        task = track.Task("t", track.Operation("op", "bulk"), warmup_iterations=1 if warm else None)
        lc = driver.IterationBased(1 if warm else 0, None) if warm else driver.TimePeriodBased(0, None)
        h = driver.ScheduleHandle(driver.TaskAllocation(task, 0, 0, 1), FixedStep(), lc, "runner", part)
        h.start()
        items, ended = _collect(h(), n_req)
    core.trace("yielded", len(items))
    observe("a looped source keeps the task going (it ends through completed-by only)", not ended and len(items) == n_req)
    prog = [it[2] for it in items]
    core.note("progress", prog)
    observe("progress stays within [0,1] wherever it is reported", all(p is None or 0 <= p <= 1 for p in prog))
    known = [p for p in prog if p is not None]
    observe("reported progress never decreases (also when the corpus starts over)", all(b >= a for a, b in zip(known, known[1:])))


def generator_time(sl):
    """time-based: no request is produced after a clock read >= start + warmup + period"""
    k = sl["steps"]
    w = fresh_real("warmup", 0)
    p = fresh_real("period", 0)
    clock = Clock(wall_steps=True)
    task = track.Task("t", track.Operation("op", "bulk"), warmup_time_period=w, time_period=p)
    with shadowed(driver, (), extra={"time": clock.time_ns()}):
        lc = driver.TimePeriodBased(w, p)
        h = driver.ScheduleHandle(driver.TaskAllocation(task, 0, 0, 1), FixedStep(), lc, "runner", Params())
        h.start()
        start = clock.now
        seen = []
        items, ended = _collect(h(), k, on_item=lambda it: seen.append(clock.now))
    core.trace("yielded", len(items))
    for i, (it, now_at_yield) in enumerate(zip(items, seen)):
        # the loop control's view of time when this tuple was produced is the last clock read before it
        observe("request %d only produced while warmup + period has not elapsed" % i, now_at_yield - start < w + p)
        observe("request %d flagged warm-up iff the warm-up period has not elapsed" % i, (it[1] == W) == bool(now_at_yield - start < w))
        observe("request %d progress within [0,1)" % i, s_and(it[2] >= 0, it[2] < 1))
    for a, b in zip(items, items[1:]):
        observe("never back from normal to warm-up", not (a[1] == N and b[1] == W))
        observe("progress never decreases", b[2] >= a[2])
        observe("scheduled times never decrease", b[0] >= a[0])
    if ended:
        observe("generator ends only once the period is over", clock.now - start >= w + p)


# ---------------------------------------------------------------------------------------------------- executor + real handle
def executor_time_based(sl):
    """real AsyncExecutor + real ScheduleHandle + TimePeriodBased + ramp-up: the time window starts when the executor
    starts, not after the ramp-up wait; once warmup+period has elapsed no further request is issued"""
    k = sl["steps"]
    w = fresh_real("warmup", 0)
    p = fresh_real("period", 0)
    ramp = fresh_real("ramp_up", 0) if sl["ramp"] else None
    total = 3
    idx = concrete(fresh_int("global_index", 0, total - 1)) if sl["ramp"] else 0
    if ramp is not None:
        core.assume(ramp <= w)
    clock = Clock(wall_steps=True)
    es = {"default": Client()}
    calls = []

    class Lim(StubRunner):
        async def __call__(self, es_, params):
            calls.append(clock.now)
            if len(calls) >= k:
                self.completed = True  # harness bound: stop after k requests
            return await super().__call__(es_, params)

    rn = Lim(es, lambda i: 0)
    task = track.Task("t", track.Operation("op", "bulk"), warmup_time_period=w, time_period=p, ramp_up_time_period=ramp)
    ta = driver.TaskAllocation(task, 0, idx, total)
    with shadowed(driver, ("int", "float", "isinstance"), extra={"time": clock.time_ns(), "asyncio": clock.asyncio_ns()}), \
            shadowed(client_context, (), extra={"time": clock.time_ns()}):
        lc = driver.TimePeriodBased(w, p)
        h = driver.ScheduleHandle(ta, scheduler.Unthrottled(), lc, rn, Params())
        sampler = driver.Sampler(start_timestamp=0)
        ex = driver.AsyncExecutor(0, task, h, es, sampler, threading.Event(), threading.Event(), "continue")
        how, val = drive(ex())
    samples = sampler.samples
    # The task's time window must be counted from the start of the task on this client: any instant between the executor's
    # first clock read and the beginning of the ramp-up wait (or, without ramp-up, the first request) is accepted.
    s_max = clock.sleeps[0][0] if (ramp is not None and clock.sleeps) else (rn.wire[0][0] if rn.wire else clock.now)
    core.trace("samples", len(samples))
    observe("executor completes", how == "ret")
    if ramp is not None and clock.sleeps:
        # i/total is a concrete float here (1/3 is not exact), so compare with a relative tolerance
        dev = clock.sleeps[0][1] * total - ramp * idx
        observe("ramp-up wait == ramp-up * i / total", s_and(dev <= ramp * 1e-9, dev >= -ramp * 1e-9))
    for i, s in enumerate(samples):
        if i > 0:
            # request i is produced after a clock read that is >= the response of request i-1
            prev_end = rn.wire[i - 1][1]
            observe("request %d: not produced once warmup + period (counted from the task start, not from the end of the ramp-up wait) had elapsed at the previous response" % i,
                    prev_end - s_max < w + p)
            observe("request %d: normal once the warm-up period (from the task start) had elapsed at the previous response" % i,
                    implies(prev_end - s_max >= w, s.sample_type == N))
    for a, b in zip(samples, samples[1:]):
        observe("sample types never return to warm-up", not (a.sample_type == N and b.sample_type == W))
        observe("progress never decreases", b.percent_completed >= a.percent_completed if not (b.percent_completed is None or a.percent_completed is None) else True)
    for s in samples:
        if s.percent_completed is not None:
            observe("progress within [0,1]", s_and(s.percent_completed >= 0, s.percent_completed <= 1))


# ---------------------------------------------------------------------------------------------------- choice of loop control
class ParamSource:
    def __init__(self, infinite):
        self.infinite = infinite

    def partition(self, i, n):
        return self

    def params(self):
        return {}


class RegisteredRunner:
    completed = None
    percent_completed = None

    async def __call__(self, es, params):
        return None

    async def __aenter__(self):
        return self

    async def __aexit__(self, *a):
        return False


def loop_control_choice(sl):
    has = {k: bool(fresh_bool("has_" + k)) for k in ("warmup_iterations", "iterations", "warmup_time_period", "time_period")}
    infinite = bool(fresh_bool("param_source_infinite"))
    runner_completes = bool(fresh_bool("runner_knows_completion"))
    vals = {"warmup_iterations": fresh_int("wi", 0), "iterations": fresh_int("it", 1), "warmup_time_period": fresh_int("wt", 0),
            "time_period": fresh_int("tp", 1)}
    kw = {k: (vals[k] if has[k] else None) for k in has}
    # combinations the loader rejects (C10): iterations mixed with time periods
    if (has["warmup_iterations"] or has["iterations"]) and (has["warmup_time_period"] or has["time_period"]):
        return
    task = track.Task("t", track.Operation("op", "verif-op"), **kw)
    ta = driver.TaskAllocation(task, 0, 0, 1)
    rr = RegisteredRunner()
    rr.completed = False if runner_completes else None
    with shadowed(driver.runner, (), extra={"runner_for": lambda t: rr}), shadowed(driver, ("int",)):
        h = driver.schedule_for(ta, ParamSource(infinite))
    lc = h.task_progress_control
    core.note("fields", {k: has[k] for k in has})
    core.note("chosen", type(lc).__name__)
    core.trace("time_based", isinstance(lc, driver.TimePeriodBased))
    if has["warmup_time_period"] or has["time_period"]:
        observe("time periods given => time-based loop", isinstance(lc, driver.TimePeriodBased))
        observe("warm-up time period as specified (default 0)", lc._warmup_time_period == (vals["warmup_time_period"] if has["warmup_time_period"] else 0))
        observe("time period as specified", (lc._time_period == vals["time_period"]) if has["time_period"] else lc._time_period is None)
        # behaviour, not attributes: a task with a time period ends (with or without a warm-up period in the spec)
        observe("a time period was given <=> the loop ends on its own", bool(lc.infinite) == (not has["time_period"]))
        if has["time_period"]:
            clk = [fresh_real("t_start")]
            with shadowed(driver, (), extra={"time": type("T", (), {"perf_counter": staticmethod(lambda: clk[0])})}):
                lc.start()
                total = (vals["warmup_time_period"] if has["warmup_time_period"] else 0) + vals["time_period"]
                el = fresh_real("elapsed", 0)
                clk[0] = clk[0] + el
                lc.next()
                done = lc.completed
                observe("the loop is completed exactly when warm-up + time period have elapsed", bool(done) == bool(el >= total))
    elif has["warmup_iterations"] or has["iterations"]:
        observe("iterations given => iteration-based loop", isinstance(lc, driver.IterationBased))
        observe("warm-up iterations as specified (default 0)", lc._warmup_iterations == (vals["warmup_iterations"] if has["warmup_iterations"] else 0))
        if has["iterations"]:
            observe("iterations as specified", lc._iterations == vals["iterations"])
            observe("iterations were given => the loop ends on its own", not lc.infinite)
        elif infinite:
            observe("no iterations, infinite source => exactly one iteration", lc._iterations == 1)
        else:
            observe("no iterations, finite source => the source ends the loop", lc._iterations is None and lc.infinite)
    else:
        if runner_completes or not infinite:
            observe("runner or finite source decides => time-based loop without period (runs until completed)",
                    isinstance(lc, driver.TimePeriodBased) and lc.infinite)
        else:
            observe("nothing specified, infinite source => one iteration", isinstance(lc, driver.IterationBased) and lc._iterations == 1)
    observe("handle wired to the task's scheduler, runner and params", h.runner is rr and h.task_allocation is ta)


def target_throughput(sl):
    """Task.target_throughput for numeric inputs"""
    mode = sl["mode"]
    v = fresh_real("v", 0)
    core.assume(v > 0)
    with shadowed(track.track, ("float", "isinstance")):
        if mode == "throughput":
            t = track.Task("t", track.Operation("op", "bulk"), params={"target-throughput": v})
            tt = t.target_throughput
            observe("numeric target-throughput is ops/s", tt is not None and tt.unit == "ops/s" and bool(tt.value == v))
        elif mode == "interval":
            t = track.Task("t", track.Operation("op", "bulk"), params={"target-interval": v})
            tt = t.target_throughput
            observe("target-interval i means 1/i ops/s", tt is not None and tt.unit == "ops/s" and bool(tt.value * v == 1))
        elif mode == "both":
            t = track.Task("t", track.Operation("op", "bulk"), params={"target-interval": v, "target-throughput": v})
            try:
                t.target_throughput
                observe("both target-interval and target-throughput rejected", False)
            except exceptions.InvalidSyntax:
                observe("both target-interval and target-throughput rejected", True)
        elif mode == "rewritten":
            # the task spec may be rewritten after the target has been looked at once (test mode does: it reads the target and then replaces
            # it by an effectively unthrottled one); what is scheduled - and pickled to the workers - is the spec as it is then
            t = track.Task("t", track.Operation("op", "bulk"), params={"target-throughput": v})
            first = t.target_throughput
            v2 = fresh_real("v_after_the_rewrite", 0)
            core.assume(v2 > 0)
            if bool(fresh_bool("rewritten_to_an_interval")):
                del t.params["target-throughput"]
                t.params["target-interval"] = v2
                tt = t.target_throughput
                observe("the target follows the task spec: interval after the rewrite", tt is not None and bool(tt.value * v2 == 1))
            else:
                t.params["target-throughput"] = v2
                tt = t.target_throughput
                observe("the target follows the task spec: value after the rewrite", tt is not None and bool(tt.value == v2))
            observe("(the first look saw the first value)", first is not None and bool(first.value == v))
        else:
            t = track.Task("t", track.Operation("op", "bulk"), params={})
            observe("no target => None (unthrottled)", t.target_throughput is None)


NUMBERS = ["0.5", ".5", "5", "10", "1.25", "00.5", ".05", "100.001", "5.", "", "1e3"]
VALID_NUMBERS = {"0.5", ".5", "5", "10", "1.25", "00.5", ".05", "100.001"}
SEPARATORS = [" ", "\t", "", "  "]
UNITS = ["docs/s", "ops/s", "MB/s", "pages/s", "d/s", "/s", "docs", "docs/m"]
VALID_UNITS = {"docs/s", "ops/s", "MB/s", "pages/s", "d/s"}


def target_throughput_strings(sl):
    """Task.target_throughput for the documented string form '<number> <unit>/s' (finite family of spellings, executed concretely)"""
    num = NUMBERS[concrete(fresh_int("number_spelling", 0, len(NUMBERS) - 1))]
    sep = SEPARATORS[concrete(fresh_int("separator", 0, len(SEPARATORS) - 1))]
    unit = UNITS[concrete(fresh_int("unit_spelling", 0, len(UNITS) - 1))]
    text = num + sep + unit
    t = track.Task("t", track.Operation("op", "bulk"), params={"target-throughput": text})
    try:
        tt = t.target_throughput
        how = "ret"
    except exceptions.InvalidSyntax:
        tt, how = None, "invalid"
    core.note("text", repr(text))
    core.note("parsed", repr(tt))
    core.trace("how", how)
    documented = num in VALID_NUMBERS and sep in (" ", "\t") and unit in VALID_UNITS
    if documented:
        observe("a target throughput in the documented form is accepted", how == "ret" and tt is not None)
        if tt is not None:
            observe("its value is the number as written (a leading-dot or multi-digit number is not cut)", tt.value == float(num))
            observe("its unit is the unit as written", tt.unit == unit)
    elif how == "ret" and num in VALID_NUMBERS and unit in VALID_UNITS:
        # a more lenient separator is tolerated, but then the number and the unit must still be read completely
        observe("a leniently accepted spelling still yields the number and unit as written", tt.value == float(num) and tt.unit == unit)


def _c04_real_scheduler(sl):
    from harness import c04

    return c04.real_scheduler(sl)


READS = [driver.schedule_for, driver.requires_time_period_schedule, driver.ScheduleHandle.__call__, accessor(driver.ScheduleHandle.ramp_up_wait_time),
         driver.IterationBased, driver.TimePeriodBased, scheduler.scheduler_for, scheduler.run_unthrottled, scheduler.UnitAwareScheduler.after_request,
         scheduler.DeterministicScheduler, scheduler.PoissonScheduler, scheduler.Unthrottled, accessor(track.Task.target_throughput),
         driver.AsyncExecutor.__call__]
CLK = ["clock: time.perf_counter inside esrally.driver.driver (each read = previous + fresh d >= 0)"]
ASSUME = ["floats modelled as exact reals (model R)"]

HARNESSES = [
    Harness("iteration_control", iteration_control, "symbolic", lambda tier: [{}], reads=READS, bounds={"warmup, iterations, position": "unbounded integers"},
            assumptions=ASSUME, real_valued=True, doc="IterationBased: flags, progress, completion (one step from any position)"),
    Harness("iteration_zero", iteration_zero, "symbolic", lambda tier: [{}], reads=READS, doc="degenerate iteration counts"),
    Harness("time_control", time_control, "symbolic", lambda tier: [{}], reads=READS, stubs=CLK, bounds={"periods, clock": "unbounded reals"},
            assumptions=ASSUME, real_valued=True, doc="TimePeriodBased: flags, progress, completion over two clock reads"),
    Harness("pacing", pacing, "symbolic", lambda tier: [{"unit_mode": m, "requests": r} for m in ("match", "ops-fallback", "ops") for r in ((1, 2) if tier == "quick" else (1, 2, 3))],
            reads=READS, bounds={"clients, weights": "unbounded integers", "target throughput, times": "unbounded reals", "requests": "<=2 quick / <=3 thorough"},
            assumptions=ASSUME, real_valued=True, doc="deterministic pacing weight*C/T incl. changing weights, zero weights and the ops/s fallback"),
    Harness("pacing_unit_mismatch", pacing_unit_mismatch, "symbolic", lambda tier: [{}], reads=READS, doc="unit mismatch is an error"),
    Harness("unthrottled", unthrottled, "symbolic", lambda tier: [{"sched": i} for i in range(3)], reads=READS, real_valued=True, doc="no target throughput"),
    Harness("poisson_monotone", poisson_monotone, "symbolic", lambda tier: [{}], reads=READS, stubs=["random.expovariate (arbitrary sample >= 0)"],
            real_valued=True, doc="poisson schedule: monotone scheduled times, right rate (distribution shape not judged)"),
    Harness("ramp_up", ramp_up, "symbolic", lambda tier: [{}], reads=READS, bounds={"clients": "unbounded"}, assumptions=ASSUME, real_valued=True,
            doc="ramp-up wait == ramp*i/total"),
    Harness("ramp_up_allocated", ramp_up_allocated, "symbolic", lambda tier: [{}], reads=READS + [accessor(driver.Allocator.allocations)],
            bounds={"clients": "1..4 for the ramped-up element (task or parallel of single-client tasks) and for another task before or after it", "ramp-up": "symbolic real > 0"},
            assumptions=ASSUME, real_valued=True, doc="ramp-up total is the element's own client count as allocated by the real Allocator"),
    Harness("target_throughput_strings", target_throughput_strings, "bounded-exhaustive", lambda tier: [{}], reads=READS,
            assumptions=["regex matching and float() run concretely on a finite family of spellings (no symbolic strings)"],
            bounds={"numbers": NUMBERS, "separators": [repr(x) for x in SEPARATORS], "units": UNITS},
            doc="string form of target-throughput: number and unit read as written"),
    Harness("pacing_through_the_executor", _c04_real_scheduler, "symbolic", lambda tier: [{"requests": r, "target": t} for r in ((2, 3) if tier == "quick" else (2, 3, 4)) for t in (1, 14)],
            reads=READS + [driver.ScheduleHandle.after_request, driver.ScheduleHandle.before_request], stubs=CLK + ["asyncio.sleep", "runner"], real_valued=True,
            bounds={"requests": "2..3 (4)", "target throughput": "'1 docs/s' / '14 docs/s'", "clients": "1..2", "outcomes": "7 docs / unsuccessful 3 docs / ApiError per request"},
            doc="feedback path runner -> executor -> ScheduleHandle -> UnitAwareScheduler: slots weight*C/T apart also after unsuccessful requests (harness shared with C04)"),
    Harness("generator_iterations", generator_iterations, "symbolic", lambda tier: [{"bound": 4 if tier == "quick" else 6}], reads=READS,
            bounds={"warmup + iterations": "<=4 quick / <=6 thorough"}, real_valued=True, doc="real schedule generator with IterationBased"),
    Harness("generator_param_source_ends", generator_param_source_ends, "symbolic", lambda tier: [{"limit": k} for k in (0, 1, 3)], reads=READS,
            real_valued=True, doc="parameter source ends an infinite schedule"),
    Harness("looped_bulk_progress", looped_bulk_progress, "bounded-exhaustive", lambda tier: [{}],
            reads=READS + [__import__("esrally.track.params", fromlist=["x"]).PartitionBulkIndexParamSource.params,
                           accessor(__import__("esrally.track.params", fromlist=["x"]).PartitionBulkIndexParamSource.percent_completed)],
            stubs=["io.MmapSource replaced by the in-memory source of C03"], bounds={"documents": "2..4", "bulk size": "1..2", "requests": "more than two rounds through the corpus"},
            doc="progress reported by the real looped bulk parameter source through the real schedule generator"),
    Harness("generator_time", generator_time, "symbolic", lambda tier: [{"steps": 3 if tier == "quick" else 5}], reads=READS, stubs=CLK,
            bounds={"requests": "<=3 quick / <=5 thorough", "periods, clock": "unbounded reals"}, assumptions=ASSUME, real_valued=True,
            doc="real schedule generator with TimePeriodBased on a symbolic clock"),
    Harness("executor_time_based", executor_time_based, "symbolic",
            lambda tier: [{"steps": 2 if tier == "quick" else 3, "ramp": r} for r in (False, True)], reads=READS, stubs=CLK + ["asyncio.sleep", "runner"],
            bounds={"requests": "<=2 quick / <=3 thorough", "clients": 3}, assumptions=ASSUME, real_valued=True,
            doc="real executor + real handle + ramp-up: the time window is counted from the executor start"),
    Harness("loop_control_choice", loop_control_choice, "symbolic", lambda tier: [{}], reads=READS,
            stubs=["runner registry lookup (runner_for) returns a stub runner", "parameter source (finite/infinite flag)"],
            bounds={"fields": "every combination of present/absent warm-up/iterations/time periods allowed by the loader", "values": "unbounded integers"},
            doc="schedule_for chooses the loop control the task spec asks for"),
    Harness("target_throughput", target_throughput, "symbolic", lambda tier: [{"mode": m} for m in ("throughput", "interval", "both", "none", "rewritten")], reads=READS,
            assumptions=ASSUME, real_valued=True, doc="numeric target-throughput / target-interval"),
]
