"""C11 — task filters keep exactly the selected tasks and leave a runnable track (DESIGN §4 C11)."""
from esrally import exceptions, track
from esrally.track import loader

from harness.c02 import check_allocator
from harness.common import StubCfg, concrete
from symx import core
from symx.core import fresh_bool, fresh_int, observe
from symx.explore import Harness

PROPERTY = "C11"
EXPLANATION = ("C11: the real TaskFilterTrackProcessor is executed on schedules of a given shape where the relation 'leaf l matches "
               "filter f' is a matrix of solver variables (so every combination of names, types and tags is covered at once) and the "
               "include/exclude mode is symbolic; the match semantics of the three filter kinds and the filter parser are executed on "
               "real Task objects with solver-enumerated attributes; the filtered schedule is fed to the real Allocator (C02 invariants).")


class StubFilter:
    """filter whose verdict per leaf is a solver variable"""

    def __init__(self, idx, matrix):
        self.idx = idx
        self.matrix = matrix

    def matches(self, task):
        return self.matrix[(id(task), self.idx)]


def groupings(n):
    """all ways to cut leaves 0..n-1 into consecutive elements; each element sequential task (size 1 only) or parallel"""
    out = []

    def rec(start, acc):
        if start == n:
            out.append(list(acc))
            return
        for size in range(1, n - start + 1):
            if size == 1:
                acc.append(("task", [start]))
                rec(start + 1, acc)
                acc.pop()
            acc.append(("parallel", list(range(start, start + size))))
            rec(start + size, acc)
            acc.pop()

    rec(0, [])
    return out


def filter_structure(sl):
    n, nf = sl["leaves"], sl["filters"]
    shape = groupings(n)[sl["grouping"]]
    in_parallel = {i for kind, idxs in shape if kind == "parallel" for i in idxs}
    # the first sub-task of a parallel element is the one named by completed-by
    leaves = [track.Task("leaf%d" % i, track.Operation("op%d" % i, "bulk"), clients=1 + (i % 2),
                         completes_parent=(i in in_parallel and i == min(j for k, idxs in shape if i in idxs for j in idxs))) for i in range(n)]
    snapshot = [dict(vars(t)) for t in leaves]
    schedule = []
    for kind, idxs in shape:
        schedule.append(leaves[idxs[0]] if kind == "task" else track.Parallel([leaves[i] for i in idxs]))
    ch = track.Challenge("c", schedule=list(schedule), default=True)
    # task names are unique per challenge only: a second challenge reuses a name for a different task
    twin = track.Task("leaf0", track.Operation("other-op", "search"), clients=3)
    ch2 = track.Challenge("d", schedule=[twin])
    tr = track.Track("t", challenges=[ch, ch2])
    include = bool(fresh_bool("include_mode"))
    matrix = {(id(leaves[i]), f): fresh_bool("match_l%d_f%d" % (i, f)) for i in range(n) for f in range(nf)}
    matrix.update({(id(twin), f): fresh_bool("match_twin_in_second_challenge_f%d" % f) for f in range(nf)})
    cfg = StubCfg({("track", "include.tasks" if include else "exclude.tasks"): ["placeholder%d" % f for f in range(nf)]})
    proc = loader.TaskFilterTrackProcessor(cfg)
    observe("mode taken from the configuration", proc.exclude == (not include))
    proc.filters = [StubFilter(f, matrix) for f in range(nf)]
    proc.on_after_load_track(tr)
    # concrete view of the match relation on this path (forks only where the code has not looked yet)
    matched = [any(bool(matrix[(id(leaves[i]), f)]) for f in range(nf)) for i in range(n)]
    expect = [i for i in range(n) if matched[i] == include]
    survivors = []
    for e in ch.schedule:
        survivors.extend(list(e))
    core.note("shape", shape)
    core.note("mode", "include" if include else "exclude")
    core.note("matched", matched)
    core.note("schedule after", [str(e) for e in ch.schedule])
    core.trace("survivors", len(survivors))
    observe("exactly the selected leaves remain, in their original order, as the same objects",
            len(survivors) == len(expect) and all(s is leaves[i] for s, i in zip(survivors, expect)))
    observe("no empty parallel element remains", all(not isinstance(e, track.Parallel) or len(e.tasks) > 0 for e in ch.schedule))
    observe("a filtered parallel element asks for the clients of its remaining tasks only",
            all(not isinstance(e, track.Parallel) or e.clients == sum(t.clients for t in e.tasks) for e in ch.schedule))
    observe("properties of surviving tasks unchanged", all(dict(vars(leaves[i])) == snapshot[i] for i in expect))
    # grouping preserved: survivors of one element stay in one element, elements keep their kind
    pos = {id(leaves[i]): k for k, (_, idxs) in enumerate(shape) for i in idxs}
    el_of = []
    for e in ch.schedule:
        ks = {pos[id(t)] for t in e}
        observe("an element only holds leaves of one original element", len(ks) <= 1)
        el_of.extend(ks)
    observe("elements keep their order", el_of == sorted(el_of))
    observe("surviving elements are the original objects", all(any(e is o for o in schedule) for e in ch.schedule))
    check_allocator(list(ch.schedule), obs=lambda label, cond: observe("filtered schedule is runnable: " + label, cond))
    _driver_starts(list(ch.schedule))
    twin_matched = any(bool(matrix[(id(twin), f)]) for f in range(nf))
    observe("every challenge is filtered on its own tasks (a task of another challenge with the same name does not decide)",
            [t for t in ch2.schedule] == ([twin] if twin_matched == include else []))


def _driver_starts(schedule):
    """the driver can execute and report every remaining step: the real Driver.start_benchmark on the filtered schedule starts workers that
    cover every client (also for a schedule without any task: somebody has to report the join point that ends the race)"""
    from harness import actors

    try:
        s = actors.build_driver(schedule, cores=2)
        s.fire(s.enabled()[0])  # StartBenchmark -> Driver.start_benchmark
    except Exception as e:  # noqa: BLE001
        core.note("start_benchmark raised", repr(e))
        observe("filtered schedule is runnable: the driver starts it", False)
        return
    D = s.D
    failures = [m for q in s.chan.values() for _, m in q if type(m).__name__ == "BenchmarkFailure"]
    observe("filtered schedule is runnable: the driver starts it", not failures)
    observe("filtered schedule is runnable: one step per remaining element", D.number_of_steps == len(schedule) and len(D.tasks_per_join_point) == len(schedule))
    widest = max([1] + [e.clients for e in schedule])
    observe("filtered schedule is runnable: at least one worker is started and every client has a worker",
            len(D.workers) >= 1 and sorted(D.clients_per_worker) == list(range(widest)))
    starts = [m for q in s.chan.values() for _, m in q if type(m).__name__ == "StartWorker"]
    observe("filtered schedule is runnable: every started worker is told what to run", len(starts) == len(D.workers))


TAGS = [None, "a", "ab", ["a", "b"], ["ab"], []]
FILTERS = ["leaf0", "leaf1", "type:bulk", "type:search", "tag:a", "tag:b", "tag:ab", "type:MyCustomOp", "type:mycustomop", "Leaf0", "tag:A", "op", "op2"]
OPTYPES = ["bulk", "search", "MyCustomOp"]  # custom runners register operation types under any name


def documented_match(name, optype, tags, spec):
    norm = [tags] if isinstance(tags, str) else (tags or [])
    kind, _, val = spec.rpartition(":")
    if kind == "":
        return name == val
    if kind == "type":
        return optype == val
    return val in norm


def filter_semantics(sl):
    """real Task + real filters built by the real parser: by name, type: and tag: (a tag given as a plain string is one tag)"""
    name = "leaf%d" % concrete(fresh_int("name", 0, 1))
    optype = OPTYPES[concrete(fresh_int("optype", 0, len(OPTYPES) - 1))]
    tags = TAGS[concrete(fresh_int("tags", 0, len(TAGS) - 1))]
    spec = FILTERS[concrete(fresh_int("filter", 0, len(FILTERS) - 1))]
    include = bool(fresh_bool("include_mode"))
    nested = bool(fresh_bool("nested"))
    t = track.Task(name, track.Operation("op", optype), tags=tags)
    other = track.Task("other", track.Operation("op2", "force-merge"), tags=["zzz"])
    sched = [track.Parallel([t, other])] if nested else [t, other]
    ch = track.Challenge("c", schedule=sched, default=True)
    # another challenge uses the same task name for a task of the other type with other tags
    optype2, tags2 = ("search" if optype != "search" else "bulk"), (["b"] if tags in (None, "a", []) else None)
    t2 = track.Task(name, track.Operation("op3", optype2), tags=tags2)
    ch2 = track.Challenge("d", schedule=[t2])
    tr = track.Track("t", challenges=[ch, ch2] if bool(fresh_bool("selected_challenge_first")) else [ch2, ch])
    cfg = StubCfg({("track", "include.tasks" if include else "exclude.tasks"): [spec]})
    loader.TaskFilterTrackProcessor(cfg).on_after_load_track(tr)
    m = documented_match(name, optype, tags, spec)
    observe("in every challenge: a task with the same name but another type / other tags is judged on its own attributes",
            (t2 in ch2.schedule) == (documented_match(name, optype2, tags2, spec) == include))
    left = [x for e in ch.schedule for x in e]
    core.note("task", (name, optype, tags))
    core.note("filter", (spec, "include" if include else "exclude"))
    core.note("left", [x.name for x in left])
    core.trace("left", len(left))
    observe("task kept iff it matches (include) / does not match (exclude) the filter", (t in left) == (m == include))
    observe("the unrelated task is kept iff excluded-mode", (other in left) == (not include))
    observe("no empty parallel", all(not isinstance(e, track.Parallel) or e.tasks for e in ch.schedule))


BAD_SPECS = ["foo:bar", "a:b:c", "name:leaf0", "type:bulk:x"]


def filter_parser(sl):
    spec = BAD_SPECS[concrete(fresh_int("bad", 0, len(BAD_SPECS) - 1))]
    include = bool(fresh_bool("include_mode"))
    cfg = StubCfg({("track", "include.tasks" if include else "exclude.tasks"): ["leaf0", spec]})
    try:
        loader.TaskFilterTrackProcessor(cfg)
        observe("malformed filter spec is rejected with SystemSetupError", False)
    except exceptions.SystemSetupError:
        observe("malformed filter spec is rejected with SystemSetupError", True)
    # no filters at all: track untouched
    t = track.Task("x", track.Operation("op", "bulk"))
    ch = track.Challenge("c", schedule=[t], default=True)
    tr = track.Track("t", challenges=[ch])
    loader.TaskFilterTrackProcessor(StubCfg({})).on_after_load_track(tr)
    observe("no filter => nothing removed", ch.schedule == [t])


READS = [loader.TaskFilterTrackProcessor.__init__, loader.TaskFilterTrackProcessor._filters_from_filtered_tasks,
         loader.TaskFilterTrackProcessor._filter_out_match, loader.TaskFilterTrackProcessor.on_after_load_track, track.Parallel.matches,
         track.Parallel.remove_task, track.Challenge.remove_task, track.TaskNameFilter.matches, track.TaskOpTypeFilter.matches,
         track.TaskTagFilter.matches, track.Task.__init__]


def _structure_slices(tier):
    out = []
    for n in ((1, 2, 3) if tier == "quick" else (1, 2, 3, 4)):
        for g in range(len(groupings(n))):
            for nf in ((1, 2) if tier == "quick" else (1, 2, 3)):
                out.append({"leaves": n, "grouping": g, "filters": nf, "_w": n * nf})
    return out


HARNESSES = [
    Harness("filter_structure", filter_structure, "symbolic", _structure_slices, reads=READS,
            bounds={"leaves": "<=3 quick / <=4 thorough in every grouping into sequential and parallel elements", "filters": "<=2 quick / <=3 thorough",
                    "match relation": "one solver variable per (leaf, filter)", "mode": "symbolic"},
            stubs=["filters replaced by objects whose matches() returns the solver variable (the real filter classes are covered by filter_semantics)"],
            doc="survivors, order, identity, no empty parallel, C02 invariants on the result"),
    Harness("filter_semantics", filter_semantics, "bounded-exhaustive", lambda tier: [{}], reads=READS,
            bounds={"task": "2 names x 3 operation types (one custom, mixed case) x 6 tag forms (None, string, list, substring-like string)", "filters": FILTERS},
            doc="name / type: / tag: semantics through the real parser, Task and filter classes"),
    Harness("filter_parser", filter_parser, "bounded-exhaustive", lambda tier: [{}], reads=READS, doc="malformed specs rejected; no filter = no-op"),
]
