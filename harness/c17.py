"""C17 — metrics store calls survive transient faults and never repeat after success (DESIGN §4 C17).

The real metrics.EsClient.guarded is executed against a stub target whose outcome per call is symbolic (class, HTTP status,
bulk item statuses); time.sleep / random.random inside esrally.metrics are stubs (recorder / arbitrary value in [0,1)).
"""
import datetime
import types as pytypes

import elastic_transport
import elasticsearch
import elasticsearch.helpers

from esrally import exceptions, metrics

from harness.common import concrete
from symx import core
from symx.core import fresh_bool, fresh_int, fresh_real, observe, shadowed
from symx.explore import Harness

PROPERTY = "C17"
EXPLANATION = ("C17: the real EsClient.guarded loop is executed on symbolic outcome sequences (outcome class, HTTP status and bulk item "
               "statuses are solver variables) and compared with a reference model of the documented retry policy; the long horizon "
               "(11 calls) is covered by a state-injection harness (prefix of k retryable faults, then symbolic outcomes), justified "
               "by the loop's only carried state being execution_count (checked on the AST on every run).")

SUCCESS, CONN_TIMEOUT, CONN_ERROR, API, AUTHN, AUTHZ, BULK, TRANSPORT_OTHER = range(8)
NAMES = ["success", "ConnectionTimeout", "ConnectionError", "ApiError(status)", "AuthenticationException", "AuthorizationException",
         "BulkIndexError(items)", "other TransportError"]
RETRYABLE_STATUS = (429, 502, 503, 504)
MAX_RETRIES = 10


def _meta(status, headers=None):
    return elastic_transport.ApiResponseMeta(status=status, http_version="1.1", headers=elastic_transport.HttpHeaders(headers or {}),
                                             duration=0.0, node=elastic_transport.NodeConfig("http", "localhost", 9200))


# what an error response of the metrics store (or of a proxy in front of it) may look like: headers and body form
RESPONSE_FORMS = [({}, {"error": "x"}), ({"retry-after": "0"}, "<html>502 Bad Gateway</html>"), ({"retry-after": "1", "content-type": "application/json"},
                  {"error": {"type": "es_rejected_execution_exception", "reason": "queue full"}, "status": 429}), ({"Retry-After": "3600"}, {})]


def _response_form(i):
    """the form rotates with the attempt number (every form occurs at every residue of the attempt index over the harnesses' sequences;
    a solver choice per path multiplied the quick tier beyond its budget)"""
    return RESPONSE_FORMS[(i + 1) % len(RESPONSE_FORMS)]


class FakeNodePool:
    def get(self):
        return pytypes.SimpleNamespace(host="metrics-host", port=9200)


class FakeTransport:
    node_pool = FakeNodePool()


class Outcomes:
    """lazy symbolic outcome per call"""

    def __init__(self, prefix_len=0, prefix_shared=False, max_items=2, long_items=0, classes=None):
        self.cache = {}
        self.prefix_len = prefix_len
        self.prefix_shared = prefix_shared
        self.max_items = max_items
        self.long_items = long_items
        self.shared = None
        self.classes = classes

    def _retryable_fault(self, tag):
        """a symbolic retryable fault: class among (timeout, connection error, api retryable, bulk retryable)"""
        k = fresh_int("pk%s" % tag, 0, 3)
        if k == 0:
            return (CONN_TIMEOUT, None, None)
        if k == 1:
            return (CONN_ERROR, None, None)
        st = fresh_int("pst%s" % tag)
        core.assume(core.s_or(*[st == c for c in RETRYABLE_STATUS]))
        if k == 2:
            return (API, st, None)
        return (BULK, None, [st])

    def get(self, i):
        if i in self.cache:
            return self.cache[i]
        if i < self.prefix_len:
            if self.prefix_shared:
                if self.shared is None:
                    self.shared = self._retryable_fault("S")
                o = self.shared
            else:
                o = self._retryable_fault(i)
        else:
            k = fresh_int("k%d" % i, 0, len(NAMES) - 1)
            kind = len(NAMES) - 1
            for c in range(len(NAMES) - 1):
                if k == c:
                    kind = c
                    break
            status, items = None, None
            if kind == API:
                status = fresh_int("status%d" % i, 400, 599)
                core.assume(core.s_and(status != 401, status != 403))  # those are the auth classes
            if kind == BULK:
                if self.long_items:
                    # long error list: all items retryable except one arbitrary status at an arbitrary position
                    j = fresh_int("pos%d" % i, 0, self.long_items - 1)
                    s = fresh_int("istatus%d" % i, 200, 599)
                    items = [core.ite(j == n, s, 429) for n in range(self.long_items)]
                else:
                    n = fresh_int("nitems%d" % i, 1, self.max_items)
                    n = core.concretize(n.z) if core.is_sym(n) else n
                    items = [fresh_int("istatus%d_%d" % (i, x), 200, 599) for x in range(n)]
            o = (kind, status, items)
        self.cache[i] = o
        return o


# connection errors come in several shapes; all of them are connection errors of the client library
CONNECTION_ERRORS = [lambda: elasticsearch.exceptions.ConnectionError("Connection refused", errors=()),
                     lambda: elasticsearch.exceptions.ConnectionError("Connection error caused by: ProtocolError(('Connection aborted.', RemoteDisconnected('Remote end closed "
                                                                      "connection without response')))", errors=()),
                     lambda: elasticsearch.exceptions.SSLError("TLS handshake interrupted: EOF occurred in violation of protocol", errors=())]


def _connection_error(i):
    """the shape rotates with the attempt number"""
    return CONNECTION_ERRORS[(i + 1) % len(CONNECTION_ERRORS)]()


def raise_or_return(o, i):
    kind, status, items = o
    if kind == SUCCESS:
        return ("result", i)
    if kind == CONN_TIMEOUT:
        raise elasticsearch.exceptions.ConnectionTimeout("timeout", errors=())
    if kind == CONN_ERROR:
        raise _connection_error(i)
    if kind == API:
        headers, body = _response_form(i)
        raise elasticsearch.ApiError("api error", _meta(status, headers), body)
    if kind == AUTHN:
        raise elasticsearch.exceptions.AuthenticationException("authn", _meta(401), {})
    if kind == AUTHZ:
        raise elasticsearch.exceptions.AuthorizationException("authz", _meta(403), {})
    if kind == BULK:
        raise elasticsearch.helpers.BulkIndexError("bulk", [{"index": {"status": s, "error": {"type": "t%d" % n}}} for n, s in enumerate(items)])
    raise elastic_transport.SerializationError("cannot serialize", errors=())


def is_retryable(o):
    """reference classification (documented policy); forks on symbolic statuses"""
    kind, status, items = o
    if kind in (CONN_TIMEOUT, CONN_ERROR):
        return True
    if kind == API:
        return any(bool(status == c) for c in RETRYABLE_STATUS)
    if kind == BULK:
        return all(any(bool(s == c) for c in RETRYABLE_STATUS) for s in items)
    return False


class Env:
    def __init__(self):
        self.sleeps = []
        self.rands = []
        self.calls_at_sleep = []
        self.calls = 0

    def time_ns(self):
        env = self

        class T:
            @staticmethod
            def sleep(x):
                env.sleeps.append(x)
                env.calls_at_sleep.append(env.calls)

        return T

    def random_ns(self):
        env = self

        class Rn:
            @staticmethod
            def random():
                r = fresh_real("rand%d" % len(env.rands), 0, 1)
                core.assume(r < 1)
                env.rands.append(r)
                return r

        return Rn


def run_guarded(outcomes, env):
    client = metrics.EsClient(pytypes.SimpleNamespace(transport=FakeTransport()))

    def target(*a, **kw):
        i = env.calls
        env.calls += 1
        return raise_or_return(outcomes.get(i), i)

    with shadowed(metrics, (), extra={"time": env.time_ns(), "random": env.random_ns()}):
        try:
            return "ret", client.guarded(target, 1, x=2)
        except Exception as e:  # noqa: BLE001 - outcome under test
            return "raise", e


def judge(outcomes, env, how, val, start=0):
    """compare with the reference model"""
    exp = None
    for i in range(MAX_RETRIES + 1):
        o = outcomes.get(i)
        if o[0] == SUCCESS:
            exp = ("ret", i + 1, i, None)
            break
        if is_retryable(o):
            if i < MAX_RETRIES:
                continue
            exp = ("raise", i + 1, i, exceptions.RallyError)
            break
        exp = ("raise", i + 1, i, exceptions.SystemSetupError if o[0] in (AUTHN, AUTHZ) else exceptions.RallyError)
        break
    ehow, ecalls, esleeps, eexc = exp
    core.note("outcomes", [NAMES[outcomes.get(i)[0]] for i in range(env.calls)])
    core.note("observed", (how, repr(val)[:120], env.calls, len(env.sleeps)))
    core.note("expected", (ehow, ecalls, esleeps, eexc.__name__ if eexc else None))
    core.trace("calls", env.calls)
    observe("at most 11 calls", env.calls <= MAX_RETRIES + 1)
    observe("number of calls as documented (retry iff retryable; never after success; never beyond the budget)", env.calls == ecalls)
    observe("one pause between consecutive calls, none before the first or after the last",
            len(env.sleeps) == esleeps and env.calls_at_sleep == list(range(1, len(env.sleeps) + 1)))
    observe("returns iff an attempt succeeded", how == ehow)
    if how == "ret" and ehow == "ret":
        observe("first successful attempt's result is returned", val == ("result", ecalls - 1))
    if how == "raise" and ehow == "raise":
        observe("error surfaces as the documented Rally error type", type(val) is eexc)
        observe("error message is non-empty", len(str(val)) > 0)
    for n, s in enumerate(env.sleeps):
        observe("pause %d is positive" % n, s > 0)
        if n > 0:
            observe("pause %d strictly longer than the previous" % n, s > env.sleeps[n - 1])
        if n > 1:
            observe("pause %d grows geometrically (>= 1.25x)" % n, s * 4 >= env.sleeps[n - 1] * 5)


def full_sequences(sl):
    env = Env()
    outcomes = Outcomes(max_items=sl["items"])
    # bound the sequence length: after `len` symbolic outcomes the target succeeds
    n = sl["len"]
    base_get = outcomes.get

    def get(i):
        if i >= n:
            outcomes.cache.setdefault(i, (SUCCESS, None, None))
            return outcomes.cache[i]
        return base_get(i)

    outcomes.get = get
    how, val = run_guarded(outcomes, env)
    judge(outcomes, env, how, val)


def prefix_state(sl):
    """state injection: k retryable faults (class symbolic), then up to two fully symbolic outcomes, then success"""
    env = Env()
    k = sl["k"]
    outcomes = Outcomes(prefix_len=k, prefix_shared=sl["shared"], max_items=1)
    base_get = outcomes.get

    def get(i):
        if i >= k + sl["suffix"]:
            outcomes.cache.setdefault(i, (SUCCESS, None, None))
            return outcomes.cache[i]
        return base_get(i)

    outcomes.get = get
    how, val = run_guarded(outcomes, env)
    judge(outcomes, env, how, val)


def long_bulk_errors(sl):
    """bulk error lists far longer than the small bound: one arbitrary item status at an arbitrary position"""
    env = Env()
    outcomes = Outcomes(long_items=sl["items"])
    base_get = outcomes.get

    def get(i):
        if i == 0:
            if 0 not in outcomes.cache:
                j = fresh_int("pos0", 0, sl["items"] - 1)
                s = fresh_int("istatus0", 200, 599)
                outcomes.cache[0] = (BULK, None, [core.ite(j == n, s, 429) for n in range(sl["items"])])
            return outcomes.cache[0]
        outcomes.cache.setdefault(i, (SUCCESS, None, None))
        return outcomes.cache[i]

    outcomes.get = get
    how, val = run_guarded(outcomes, env)
    judge(outcomes, env, how, val)


def _loop_carried_names():
    """syntactic side condition of the state-injection harness: names that carry a value from one iteration of guarded()'s
    while loop to the next = assigned inside the loop AND read (in source order, loop test first) before their first
    assignment in the loop body."""
    import ast
    import inspect
    import textwrap

    tree = ast.parse(textwrap.dedent(inspect.getsource(metrics.EsClient.guarded)))
    loop = [n for n in ast.walk(tree) if isinstance(n, ast.While)][0]
    first_store, first_load = {}, {}
    for n in ast.walk(loop):
        if isinstance(n, ast.Name):
            pos = (-1, 0) if any(n is m for m in ast.walk(loop.test)) else (n.lineno, n.col_offset)
            d = first_store if isinstance(n.ctx, ast.Store) else first_load
            if n.id not in d or pos < d[n.id]:
                d[n.id] = pos
    for n in ast.walk(loop):  # x += 1 reads x
        if isinstance(n, ast.AugAssign) and isinstance(n.target, ast.Name):
            pos = (n.lineno, n.col_offset - 1)
            if n.target.id not in first_load or pos < first_load[n.target.id]:
                first_load[n.target.id] = pos
    carried = {k for k in first_store if k in first_load and first_load[k] < first_store[k]}
    attrs = {ast.unparse(t) for n in ast.walk(loop) if isinstance(n, (ast.Assign, ast.AugAssign))
             for t in (n.targets if isinstance(n, ast.Assign) else [n.target]) if isinstance(t, (ast.Attribute, ast.Subscript))}
    return carried | attrs


def premise_loop_state():
    carried = _loop_carried_names()
    return carried == {"execution_count"}, ("state-injection harness prefix_state assumes that guarded()'s loop carries only execution_count "
                                            "between iterations; loop-carried names found: %s" % sorted(carried))


PREMISES = [premise_loop_state]


# ------------------------------------------------------------------------------------------------------------------
# each store operation goes through guarded(): one retryable fault then success, or a non-retryable fault
# ------------------------------------------------------------------------------------------------------------------
class Recorder:
    def __init__(self, outcomes, env):
        self.outcomes = outcomes
        self.env = env

    __name__ = "recorded_api_call"

    def __call__(self, *a, **kw):
        i = self.env.calls
        self.env.calls += 1
        return raise_or_return(self.outcomes.get(i), i)


class FakeEs:
    """low-level client stub: every API method is a Recorder sharing one outcome sequence"""

    def __init__(self, outcomes, env):
        rec = Recorder(outcomes, env)
        self.transport = FakeTransport()
        self.indices = pytypes.SimpleNamespace(get_index_template=rec, put_index_template=rec, exists_index_template=rec, get=rec,
                                               create=rec, exists=rec, refresh=rec)
        self.delete_by_query = rec
        self.delete = rec
        self.search = rec
        self._bulk = rec
        self.env = env

    # surface used by elasticsearch.helpers.bulk / streaming_bulk
    def options(self, **kw):
        return self

    def bulk(self, *a, operations=None, **kw):
        ops = list(operations)
        r = self._bulk()
        # success: a response that acknowledges every action
        n = len([o for o in ops]) // 2 if ops else 0
        return pytypes.SimpleNamespace(body={"errors": False, "items": [{"index": {"status": 201, "_id": str(i)}} for i in range(n)]})


OPS = {
    "get_template": lambda c: c.get_template("t"),
    "put_template": lambda c: c.put_template("t", '{"index_patterns": ["x"]}'),
    "template_exists": lambda c: c.template_exists("t"),
    "delete_by_query": lambda c: c.delete_by_query("i", {}),
    "delete": lambda c: c.delete("i", "1"),
    "get_index": lambda c: c.get_index("i"),
    "create_index": lambda c: c.create_index("i"),
    "exists": lambda c: c.exists("i"),
    "refresh": lambda c: c.refresh("i"),
    "search": lambda c: c.search("i", {}),
    "bulk_index": lambda c: c.bulk_index("i", [{"_source": {"a": 1}}, {"_source": {"a": 2}}]),
    "index": lambda c: c.index("i", {"a": 1}, id="7"),
}


def operations(sl):
    env = Env()
    outcomes = Outcomes(max_items=1, classes=None)
    base_get = outcomes.get

    def get(i):
        if i >= 2:
            outcomes.cache.setdefault(i, (SUCCESS, None, None))
            return outcomes.cache[i]
        o = base_get(i)
        return o

    outcomes.get = get
    es = FakeEs(outcomes, env)
    if sl["op"] in ("bulk_index", "index"):
        es.transport.serializers = elastic_transport.SerializerCollection(
            {"application/json": elastic_transport.JsonSerializer(), "application/x-ndjson": elastic_transport.NdjsonSerializer()},
            default_mimetype="application/json")
    client = metrics.EsClient(es)
    with shadowed(metrics, (), extra={"time": env.time_ns(), "random": env.random_ns()}):
        try:
            how, val = "ret", OPS[sl["op"]](client)
        except Exception as e:  # noqa: BLE001
            how, val = "raise", e
    # a BulkIndexError raised by the low level stub stands for one raised by the helper; same classification
    exp = None
    for i in range(3):
        o = outcomes.get(i)
        if o[0] == SUCCESS:
            exp = ("ret", i + 1, None)
            break
        if is_retryable(o):
            continue
        exp = ("raise", i + 1, exceptions.SystemSetupError if o[0] in (AUTHN, AUTHZ) else exceptions.RallyError)
        break
    core.note("op", sl["op"])
    core.note("outcomes", [NAMES[outcomes.get(i)[0]] for i in range(env.calls)])
    core.note("observed", (how, repr(val)[:160], env.calls))
    core.trace("calls", env.calls)
    observe("operation retried exactly as guarded() prescribes", env.calls == exp[1])
    observe("operation returns iff an attempt succeeded", how == exp[0])
    observe("one pause per retry", len(env.sleeps) == exp[1] - 1)
    if how == "raise" and exp[0] == "raise":
        observe("faults surface as Rally errors, never as raw client exceptions", type(val) is exp[2])
    if how == "ret" and exp[0] == "ret" and sl["op"] not in ("bulk_index", "index"):
        observe("result of the successful attempt returned", val == ("result", exp[1] - 1))


def store_flush(sl):
    """EsMetricsStore.flush / close on a recording client: the buffered documents are sent by ONE successful bulk call and never again -
    also when the refresh that follows it fails for good and the store is flushed or closed again later"""
    from harness.common import StubCfg

    sent, refreshes = [], []
    refresh_fails_once = bool(fresh_bool("first_refresh_after_the_bulk_fails"))
    bulk_fails_once = bool(fresh_bool("first_bulk_fails"))
    n1 = concrete(fresh_int("documents_buffered_before_the_first_flush", 0, 2))
    n2 = concrete(fresh_int("documents_added_before_the_second_flush", 0, 1))
    second = ["flush", "close"][concrete(fresh_int("second_call_is_flush_or_close", 0, 1))]

    class Client:
        def bulk_index(self, index, items):
            if bulk_fails_once and not any(x == "bulk-failed" for x in refreshes):
                refreshes.append("bulk-failed")
                raise exceptions.RallyError("A transport error occurred while running the operation [bulk_index]")
            sent.append([d["value"] for d in items])

        def refresh(self, index):
            n = len([x for x in refreshes if x != "bulk-failed"])
            refreshes.append("refresh")
            if refresh_fails_once and n == 1:  # refresh 0 belongs to open()
                raise exceptions.RallyError("The configured user does not have enough privileges to run the operation [refresh]")

        def exists(self, index):
            return True

        def template_exists(self, name):
            return False

        def put_template(self, name, template):
            pass

        def create_index(self, index):
            pass

    class Factory:
        def __init__(self, cfg):
            pass

        def create(self):
            return Client()

    class Templates:
        def __init__(self, cfg):
            pass

        def metrics_template(self):
            return "{}"

    cfg = StubCfg({("system", "env.name"): "unittest", ("reporting", "datastore.number_of_shards"): None, ("reporting", "datastore.number_of_replicas"): None})
    st = metrics.EsMetricsStore(cfg, client_factory_class=Factory, index_template_provider_class=Templates)
    st.open("race-1", datetime.datetime(2024, 1, 1), "t", "c", "car", create=False)
    k = 0
    for _ in range(n1):
        k += 1
        st.put_value_cluster_level("m", k, "ms")
    errors = []
    try:
        st.flush()
    except exceptions.RallyError as e:
        errors.append(str(e)[:40])
    for _ in range(n2):
        k += 1
        st.put_value_cluster_level("m", k, "ms")
    last_ok = True
    try:
        getattr(st, second)()
    except exceptions.RallyError as e:
        errors.append(str(e)[:40])
        last_ok = False
    flat = [v for batch in sent for v in batch]
    core.trace("sent", len(flat))
    core.note("batches / errors", (sent, errors))
    observe("no document reaches the metrics store twice (a call is not repeated after it succeeded)", len(flat) == len(set(flat)))
    if last_ok:
        observe("after a flush / close that succeeded every buffered document has been sent", sorted(flat) == list(range(1, k + 1)))
    observe("nothing is sent that was not buffered", set(flat) <= set(range(1, k + 1)))


READS = [metrics.EsClient.guarded, metrics.EsClient.bulk_index, metrics.EsClient.index, metrics.EsClient.search, metrics.EsClient.refresh,
         metrics.EsClient.put_template, metrics.EsClient.get_template, metrics.EsClient.template_exists, metrics.EsClient.delete_by_query,
         metrics.EsClient.delete, metrics.EsClient.get_index, metrics.EsClient.create_index, metrics.EsClient.exists]
STUBS = ["wrapped client function (symbolic outcome per call)", "time.sleep inside esrally.metrics (recorder)",
         "random.random inside esrally.metrics (arbitrary real in [0,1))", "transport.node_pool.get() (fixed host/port for messages)"]

HARNESSES = [
    Harness("store_flush", store_flush, "bounded-exhaustive", lambda tier: [{}], reads=[metrics.EsMetricsStore.flush, metrics.MetricsStore.close, metrics.EsMetricsStore.open],
            stubs=["metrics store client recording bulk_index / refresh (guarded() itself is covered by the other harnesses): a call may fail for good once"],
            bounds={"documents": "0..2 before the first flush, 0..1 before the second flush / close", "faults": "the first bulk and / or the refresh after it fail"},
            doc="buffer hand-over of the Elasticsearch metrics store: every document sent once, never again after success"),
    Harness("full_sequences", full_sequences, "symbolic",
            lambda tier: [{"len": 1, "items": 3}, {"len": 2, "items": 2, "_w": 2}, {"len": 3, "items": 1, "_w": 3}]
            + ([{"len": 3, "items": 2, "_w": 9}, {"len": 4, "items": 1, "_w": 8}] if tier == "thorough" else []), reads=READS, stubs=STUBS,
            bounds={"sequence length": "<=3 quick / <=4 thorough symbolic outcomes, then success", "classes": len(NAMES),
                    "ApiError status": "400..599 symbolic", "bulk items": "len 1: <=3 items, len 2: <=2, len 3: 1 (thorough: len 3 with 2 items, len 4 with 1), symbolic status 200..599"},
            real_valued=True, doc="all outcome sequences up to the length bound"),
    Harness("prefix_state", prefix_state, "symbolic",
            lambda tier: [{"k": k, "shared": k > 1, "suffix": 2 if (tier == "thorough" or k >= 9) else 1, "_w": k} for k in range(0, 12)]
            + ([{"k": k, "shared": False, "suffix": 1, "_w": 20} for k in (2, 3)] if tier == "thorough" else []),
            reads=READS, stubs=STUBS,
            bounds={"prefix": "k = 0..11 retryable faults (class per position symbolic for k<=1 (3 thorough), one shared symbolic class beyond)",
                    "suffix": "1 fully symbolic outcome (2 for k>=9 and in the thorough tier), then success"},
            assumptions=["the loop of guarded() carries only execution_count between iterations (checked syntactically on the AST on every run: premise_loop_state; if it fails the check reports INCONCLUSIVE)"],
            real_valued=True, doc="long horizon by state injection: budget of 10 retries, exhaustion, no call after success"),
    Harness("long_bulk_errors", long_bulk_errors, "symbolic", lambda tier: [{"items": n} for n in ((128,) if tier == "quick" else (128, 256))],
            reads=READS, stubs=STUBS, bounds={"bulk error list": "128 (256 thorough) items, one arbitrary status at an arbitrary position, others 429"},
            real_valued=True, doc="bulk item classification looks at every item"),
    Harness("operations", operations, "symbolic", lambda tier: [{"op": op} for op in OPS], reads=READS,
            stubs=STUBS + ["low-level Elasticsearch client (every API method records the call and produces the symbolic outcome); "
                           "elasticsearch.helpers.bulk/streaming_bulk run for real on top of it"],
            bounds={"operations": len(OPS), "sequence": "<=2 symbolic outcomes then success"}, real_valued=True,
            doc="each store operation is routed through guarded(): faults inside it are retried / converted"),
]
