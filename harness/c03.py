"""C03 — bulk indexing ingests every corpus document exactly once across clients (DESIGN §4 C03)."""
from esrally import track
from esrally.track import params
from esrally.utils import io as rio

from harness import offsets
from harness.common import concrete
from symx import core
from symx.core import fresh_bool, fresh_int, fresh_real, implies, observe, s_and, shadowed
from symx.explore import Harness

PROPERTY = "C03"
EXPLANATION = ("C03: the slice arithmetic (params.bounds, number_of_bulks, ingest percentage) is executed on unbounded symbolic sizes under a "
               "relative-error model of IEEE floats (every float operation result r becomes r*(1+d), |d| <= 2^-53); the real reader stack "
               "(PartitionBulkIndexParamSource, create_readers, Slice, the three readers, skip_lines) is executed over in-memory sources for "
               "every small corpus/client/bulk configuration enumerated by the solver; conflicting-id generation runs with symbolic random "
               "draws constrained only by the documented contract of random()/randint()/expovariate().")

MAX_DOCS = 10**12
MAX_CLIENTS = 10**6


def _bounds_inputs():
    T = fresh_int("total_docs", 0, MAX_DOCS)
    n = fresh_int("num_clients", 1, MAX_CLIENTS)
    s = fresh_int("start_client", 0)
    e = fresh_int("end_client", 0)
    core.assume(s_and(s <= e, e < n))
    meta = bool(fresh_bool("includes_action_and_meta_data"))
    return T, n, s, e, meta


def bounds_arith(sl):
    T, n, s, e, meta = _bounds_inputs()
    k = 2 if meta else 1
    with shadowed(params, ("round", "int", "float")):
        off, docs, lines = params.bounds(T, s, e, n, meta)
        off0, _, _ = params.bounds(T, 0, e, n, meta)
        offl, docsl, linesl = params.bounds(T, s, n - 1, n, meta)
        if bool(e + 1 < n):
            off2, _, _ = params.bounds(T, e + 1, n - 1, n, meta)
            observe("the range after [s,e] starts exactly where [s,e] ends (no gap, no overlap)", off + lines == off2)
    core.trace("k", k)
    observe("the first client range starts at line 0", off0 == 0)
    observe("the last client range ends at the last line", offl + linesl == T * k)
    observe("docs >= 0", docs >= 0)
    observe("offset >= 0 and within the file", s_and(off >= 0, off + lines <= T * k))
    observe("lines == docs * lines-per-doc, offset a multiple of lines-per-doc", s_and(lines == docs * k, off == (off // k) * k if k == 2 else True))


class DocSet:
    def __init__(self, n, meta):
        self.number_of_documents = n
        self.includes_action_and_meta_data = meta


class Corpus:
    def __init__(self, docs):
        self.documents = docs


def bulk_count(sl):
    """number_of_bulks == sum over document sets of ceil(docs / bulk_size); `bounds` is replaced by its contract
    (an arbitrary document count >= 0 per document set, harness bounds_arith) so that the count itself is decided exactly"""
    nsets = sl["sets"]
    bulk = sl["bulk"] if sl["bulk"] else fresh_int("bulk_size", 1, 100000)
    sets = [DocSet(fresh_int("docs%d" % i, 0, MAX_DOCS), bool(fresh_bool("meta%d" % i))) for i in range(nsets)]
    share = {}

    def bounds_contract(total_docs, s, e, n, meta):
        key = id(total_docs)
        if key not in share:
            d = fresh_int("share%d" % len(share), 0)
            core.assume(d <= total_docs)
            share[key] = d
        d = share[key]
        return 0, d, d * (2 if meta else 1)

    with shadowed(params, ("round", "int", "float"), extra={"bounds": bounds_contract}):
        total = params.number_of_bulks([Corpus(sets[:1]), Corpus(sets[1:])] if nsets > 1 else [Corpus(sets)], 0, 0, 1, bulk)
    exp = 0
    carried = 0
    for i, ds in enumerate(sets):
        d = share[id(ds.number_of_documents)]
        q = fresh_int("ceil_witness%d" % i, 0)  # q == ceil(d / bulk)
        core.assume(s_and(q * bulk >= d, (q - 1) * bulk < d))
        exp = exp + q
        carried = carried + d
    core.trace("sets", nsets)
    observe("number of bulks == sum of ceil(docs / bulk size) per document set", total == exp)
    observe("enough bulks for all documents, none empty", s_and(total * bulk >= carried, total <= carried))


def mmap_source_lines(sl):
    """the real io.MmapSource on a real (small, temporary) file - the in-memory source of reader_stack stands for it: readline / readlines
    hand out every line of the file exactly once, in order, byte for byte - also a last line without a line terminator, which the line
    count of the preparation step counts as a document"""
    import os as _os
    import tempfile

    from esrally.utils import io as rio

    n = concrete(fresh_int("lines", 0, 4))
    terminated = bool(fresh_bool("last_line_ends_with_newline")) if n > 0 else True
    batch = concrete(fresh_int("lines_per_readlines_call", 1, 3))
    multibyte = bool(fresh_bool("multi_byte_content"))
    lines = [('{"id": %d, "s": "%s"}\n' % (i, "\u00e4\u2603" if multibyte else "x")).encode("utf-8") for i in range(n)]
    if lines and not terminated:
        lines[-1] = lines[-1][:-1]
    d = tempfile.mkdtemp(prefix="verif-c03-")
    path = _os.path.join(d, "docs.json")
    try:
        with open(path, "wb") as f:
            f.write(b"".join(lines))
        got, single = [], []
        if n == 0:
            # mmap cannot map an empty file; the preparation step rejects a file without lines anyway
            core.trace("lines", 0)
            observe("(empty file: nothing to read)", True)
            return
        with rio.MmapSource(path, "rt") as src:
            while True:
                chunk = src.readlines(batch)
                if not chunk:
                    break
                got.extend(chunk)
                if len(got) > n + 2:
                    break
        with rio.MmapSource(path, "rt") as src:
            while True:
                line = src.readline()
                if line == b"":
                    break
                single.append(line)
                if len(single) > n + 2:
                    break
    finally:
        try:
            _os.remove(path)
        finally:
            _os.rmdir(d)
    core.trace("lines", n)
    observe("readlines hands out every line of the file exactly once, in order, byte for byte (an unterminated last line included)", got == lines)
    observe("readline does the same", single == lines)


def _decimal_text(x):
    """str() of the percentage: Python prints the shortest decimal that reads back as the same double, i.e. the decimal the user wrote
    (assumption, listed in the evidence); for a symbolic percentage the 'text' is the exact value itself"""
    return x if core.is_sym(x) else str(x)


class _ExactFractions:
    """fractions.Fraction over exact reals: for a symbolic value the fraction IS the (exact) real; model R is therefore faithful for a kernel
    that calculates with Fraction - no binary rounding takes place in it"""

    @staticmethod
    def Fraction(x):
        import fractions
        return x if core.is_sym(x) else fractions.Fraction(x)


def ingest_percentage(sl):
    """total_bulks == ceil(all_bulks * p / 100) for p in (0, 100]"""
    p = fresh_real("ingest_percentage", 0, 100)
    core.assume(p > 0)
    docs = fresh_int("docs", 1, MAX_DOCS)
    bulk = sl["bulk"]
    corp = [Corpus([DocSet(docs, False)])]
    src = params.PartitionBulkIndexParamSource(corp, bulk, bulk, p, params.IndexIdConflict.NoConflicts, None, None, None,
                                               original_params={"__create_reader": lambda *a: None})
    src.partition(0, 1)
    with shadowed(params, ("round", "int", "float"), extra={"math": core.math_shadow, "str": _decimal_text, "fractions": _ExactFractions}):
        src._init_internal_params()
        allb = params.number_of_bulks(corp, 0, 0, 1, bulk)
    tb = src.total_bulks
    core.trace("bulk", bulk)
    observe("ingest percentage p: the group stops after ceil(p% of its bulks)", s_and(tb * 100 >= allb * p, (tb - 1) * 100 < allb * p))
    observe("at least one and at most all bulks", s_and(tb >= 1, tb <= allb))


# --------------------------------------------------------------------------------------------------------------------
FILES = {}


class MemSource:
    """same interface as io.MmapSource over an in-memory list of lines"""

    def __init__(self, file_name, mode, encoding="utf-8"):
        self.lines = FILES[file_name]
        self.i = 0

    def open(self):
        return self

    def seek(self, off):
        assert off == 0, "no offset table in this harness"
        self.i = 0

    def readline(self):
        if self.i >= len(self.lines):
            return b""
        line = self.lines[self.i]
        self.i += 1
        return line

    def readlines(self, n):
        out = []
        for _ in range(n):
            line = self.readline()
            if line == b"":
                break
            out.append(line)
        return out

    def close(self):
        pass


class MemIo:
    MmapSource = MemSource
    skip_lines = staticmethod(rio.skip_lines)


SPLITS = {1: [[[0]]], 2: [[[0], [1]], [[0, 1]]], 3: [[[0], [1], [2]], [[0, 1], [2]], [[0], [1, 2]], [[0, 1, 2]]],
          4: [[[0, 1], [2, 3]], [[0], [1, 2, 3]], [[0, 1, 2, 3]], [[0], [1], [2], [3]]]}


def _run_groups(doc_counts, with_meta, clients, groups, bulk, batch_mult, pct, order_choice=None, two_corpora=False):
    FILES.clear()
    docs = []
    for fi, (n, wm) in enumerate(zip(doc_counts, with_meta)):
        name = "/nonexistent-verif/f%d.json" % fi
        FILES[name] = [ln for i in range(n) for ln in (([b'{"index":{"_id":"%d-%d"}}\n' % (fi, i)] if wm else []) + [b'{"f":%d,"i":%d}\n' % (fi, i)])]
        docs.append(track.Documents("bulk", document_file=name, number_of_documents=n, includes_action_and_meta_data=wm, target_index="idx"))
    corpora = [track.DocumentCorpus("c0", docs[:1]), track.DocumentCorpus("c1", docs[1:])] if two_corpora and len(docs) > 1 else [
        track.DocumentCorpus("c", docs)]
    t = track.Track("t", corpora=corpora, indices=[track.Index("idx")])
    seen = []
    for g in groups:
        src = params.BulkIndexParamSource(t, {"bulk-size": bulk, "batch-size": bulk * batch_mult, "ingest-percentage": pct})
        parts = [src.partition(c, clients) for c in g]
        bodies = []
        nb = 0
        while True:
            # any co-located client may ask for the next bulk
            who = order_choice(len(parts)) if order_choice else nb % len(parts)
            try:
                p = parts[who].params()
            except StopIteration:
                break
            nb += 1
            bodies.append(p)
            if nb > 200:
                raise AssertionError("parameter source does not terminate")
        seen.append((g, bodies, src.param_source))
    return seen


def reader_stack(sl):
    nfiles = sl["files"]
    clients = sl["clients"]
    counts = [concrete(fresh_int("docs%d" % i, 0, sl["max_docs"])) for i in range(nfiles)]
    if sum(counts) == 0:
        return
    metas = [bool(fresh_bool("meta%d" % i)) for i in range(nfiles)]
    split = SPLITS[clients][concrete(fresh_int("split", 0, len(SPLITS[clients]) - 1))]
    bulk = concrete(fresh_int("bulk", 1, sl["max_bulk"]))
    bm = concrete(fresh_int("batch_multiple", 1, 2))
    two = bool(fresh_bool("two_corpora")) if nfiles > 1 else False
    with shadowed(params, (), extra={"io": MemIo}):
        try:
            seen = _run_groups(counts, metas, clients, split, bulk, bm, 100, two_corpora=two)
        except Exception as e:  # noqa: BLE001 - reading a valid corpus must not fail
            core.note("raised", repr(e))
            observe("reading a valid corpus does not fail", False)
            return
    core.note("config", {"docs": counts, "meta": metas, "clients": clients, "split": split, "bulk": bulk, "batch": bulk * bm, "two_corpora": two})
    all_docs = []
    for g, bodies, _ in seen:
        per_file = {}
        for p in bodies:
            lines = p["body"].split(b"\n")[:-1]
            observe("bulk-size never exceeds the configured bulk size", p["bulk-size"] <= bulk)
            observe("bulk-size equals the number of documents in the body (one meta line + one document each)", len(lines) == 2 * p["bulk-size"])
            observe("bulk is not empty", p["bulk-size"] > 0)
            for m, d in zip(lines[0::2], lines[1::2]):
                observe("action/meta-data line precedes its document", m.startswith(b'{"index"') and d.startswith(b'{"f"'))
                fi = int(d.split(b",")[0].split(b":")[1])
                i = int(d.split(b":")[2].rstrip(b"}"))
                if metas[fi]:
                    observe("a meta line from the file stays paired with its own document", m == b'{"index":{"_id":"%d-%d"}}' % (fi, i))
                per_file.setdefault(fi, []).append(i)
                all_docs.append((fi, i))
        for fi, idx in per_file.items():
            observe("a client group reads a contiguous slice of each file, in file order", idx == list(range(idx[0], idx[0] + len(idx))))
    core.trace("docs", len(all_docs))
    exp = [(fi, i) for fi, c in enumerate(counts) for i in range(c)]
    observe("the union of all bulks contains every document of every file exactly once", sorted(all_docs) == exp)


def reader_percentage(sl):
    """p < 100: each co-located group stops after ceil(p%) of its bulks and yields a prefix of the full run; any call order"""
    counts = [concrete(fresh_int("docs0", 1, 5)), concrete(fresh_int("docs1", 0, 3))]
    clients, split = sl["clients"], SPLITS[sl["clients"]][sl["split"]]
    bulk = concrete(fresh_int("bulk", 1, 2))
    pct = [1, 10, 34, 50, 99.9, 100][concrete(fresh_int("pct_choice", 0, 5))]
    with shadowed(params, (), extra={"io": MemIo}):
        full = _run_groups(counts, (False, False), clients, split, bulk, 1, 100)
        part = _run_groups(counts, (False, False), clients, split, bulk, 1, pct, order_choice=lambda n: core.choose(n, "which co-located client asks next"))
    import math

    core.trace("groups", len(full))
    for (g, bf, _), (_, bp, src) in zip(full, part):
        want = math.ceil(len(bf) * pct / 100) if bf else 0
        observe("group stops after ceil(p%) of its bulks", len(bp) == want)
        observe("the bulks are the first ones of the full run, in order", [p["body"] for p in bp] == [p["body"] for p in bf[:len(bp)]])
        if bp:
            observe("progress ends at 1", src.percent_completed == 1)


def conflict_ids(sl):
    """generated conflicting ids only refer to ids the same client has already emitted"""
    n = sl["docs"]
    offset = concrete(fresh_int("offset", 0, 3)) * 10
    mode = [params.IndexIdConflict.SequentialConflicts, params.IndexIdConflict.RandomConflicts][sl["mode"]]
    ids = params.build_conflicting_ids(mode, n, offset, shuffle=lambda xs: xs.reverse())
    observe("ids cover exactly the client's own range [offset, offset+docs)", sorted(ids) == ["%010d" % (offset + i) for i in range(n)])
    prob = fresh_real("conflict_probability", 0, 100)
    recency = fresh_real("recency", 0, 1) if sl["recency"] else 0
    if sl["recency"]:
        core.assume(recency > 0)
    draws = []

    def rand():
        r = fresh_real("rand%d" % len(draws), 0, 1)
        core.assume(r < 1)
        draws.append(r)
        return r

    def randint(lo, hi):
        r = fresh_int("randint%d" % len(draws), None, None)
        core.assume(s_and(r >= lo, r <= hi))
        draws.append(r)
        return r

    def randexp(lmbd):
        r = fresh_real("randexp%d" % len(draws), 0)
        draws.append(r)
        return r

    on_conflict = ["index", "update"][sl["on_conflict"]]
    with shadowed(params, ("round", "int", "float"), extra={"min": core.sx_min}):
        g = params.GenerateActionMetaData("idx", None, ids, prob, on_conflict, recency, rand=rand, randint=randint, randexp=randexp)
        emitted = []
        for step in range(n + 2):
            try:
                action, line = next(g)
            except StopIteration:
                break
            except IndexError:
                observe("a conflicting id is always within the ids emitted so far", False)
                return
            doc_id = line.split('"_id": "')[1].split('"')[0]
            if action == "update" or (doc_id in emitted):
                observe("a conflicting id refers to an id this client has emitted before", doc_id in emitted)
                observe("conflict action as configured", action == on_conflict)
            else:
                emitted.append(doc_id)
    core.trace("emitted", len(emitted))
    observe("fresh ids are handed out in list order", emitted == ids[:len(emitted)])


READS = [params.bounds, params.number_of_bulks, params.create_readers, params.create_default_reader, params.chain, params.bulk_generator,
         params.bulk_data_based, params.Slice, params.IndexDataReader, params.MetadataIndexDataReader, params.SourceOnlyIndexDataReader,
         params.PartitionBulkIndexParamSource, params.BulkIndexParamSource, params.build_conflicting_ids, params.GenerateActionMetaData,
         rio.skip_lines]
E_ASSUME = ["float error model E: every float operation result r is r*(1+d) with |d| <= 2^-53 (over-approximates IEEE-754 round-to-nearest "
            "without overflow/underflow; counterexamples must replay under real floats)", "total_docs <= 10^12, num_clients <= 10^6 (both < 2^53)"]


def _stack_slices(tier):
    out = []
    for clients in (1, 2, 3):
        out.append({"files": 1, "clients": clients, "max_docs": 5, "max_bulk": 3, "_w": clients})
        out.append({"files": 2, "clients": clients, "max_docs": 3 if tier == "quick" else 4, "max_bulk": 2 if tier == "quick" else 3, "_w": 4 * clients})
    if tier == "thorough":
        out.append({"files": 2, "clients": 4, "max_docs": 4, "max_bulk": 2, "_w": 20})
        out.append({"files": 3, "clients": 2, "max_docs": 2, "max_bulk": 2, "_w": 20})
    return out


def partition_wiring(sl):
    """the link between the allocator and the bulk parameter source: every client of a bulk task asks for partition
    (its index within the task, the task's client count), whatever other tasks share its parallel element"""
    from esrally.driver import driver

    n = concrete(fresh_int("clients_of_the_bulk_task", 1, 4))
    m = concrete(fresh_int("clients_of_the_sibling_task", 0, 3))
    cap = bool(fresh_bool("parallel_element_capped_to_fewer_clients")) if m else False
    bulk = track.Task("bulk", track.Operation("bulk-op", "verif-op"), clients=n, iterations=1)
    if m:
        sibling = track.Task("sibling", track.Operation("search-op", "verif-op"), clients=m, iterations=1)
        element = track.Parallel([sibling, bulk] if bool(fresh_bool("sibling_first")) else [bulk, sibling], clients=max(1, (n + m) // 2) if cap else None)
    else:
        element = bulk
    asked = []

    class Source:
        infinite = True

        def partition(self, index, total):
            asked.append((index, total))
            return self

        def params(self):
            return {}

    class Rn:
        completed = None
        percent_completed = None

    alloc = driver.Allocator([element]).allocations
    tas = [x for row in alloc for x in row if isinstance(x, driver.TaskAllocation) and x.task is bulk]
    with shadowed(driver.runner, (), extra={"runner_for": lambda t: Rn()}):
        for ta in tas:
            driver.schedule_for(ta, Source())
    core.trace("asked", len(asked))
    core.note("asked", asked)
    observe("one schedule per client of the bulk task", len(asked) == n)
    observe("together the clients ask for every partition 0..n-1 of n exactly once (so that the union of their slices is the whole corpus)",
            sorted(asked) == [(i, n) for i in range(n)])


def _c14_prepare_loop(sl):
    from harness import c14

    return c14.prepare_loop(sl)


HARNESSES = [
    Harness("corpus_line_count", _c14_prepare_loop, "symbolic", lambda tier: [{"compressed": False}], reads=READS,
            stubs=["file system, net.download, io.decompress / prepare_file_offset_table with symbolic outcomes (harness shared with C14 prepare_loop)"],
            bounds={"declared documents": 1000, "lines counted": "symbolic"},
            doc="a corpus file whose line count differs from the declared number of documents is rejected on every run (the slices of the "
                "bulk readers are computed from the declared count): explicit error and the freshly built offset table removed"),
    Harness("partition_wiring", partition_wiring, "bounded-exhaustive", lambda tier: [{}], reads=READS,
            stubs=["parameter source recording partition() calls", "runner registry lookup"],
            bounds={"bulk task": "1..4 clients", "sibling task in the same parallel element": "absent or 1..3 clients, before or after, element capped or not"},
            doc="Allocator -> schedule_for -> partition(index in task, clients of the task)"),
    Harness("bounds_arith", bounds_arith, "symbolic", lambda tier: [{}], reads=READS, float_model="E", assumptions=E_ASSUME, real_valued=True,
            bounds={"total_docs": "0..10^12", "num_clients": "1..10^6", "client range": "any 0 <= s <= e < n"},
            doc="exact cover by construction: first range starts at 0, last ends at T, adjacent ranges meet, docs >= 0"),
    Harness("bulk_count", bulk_count, "symbolic", lambda tier: [{"sets": n, "bulk": b} for n in (1, 2, 3) for b in (1, 2, 5000)] + [{"sets": 1, "bulk": None}], reads=READS,
            stubs=["params.bounds replaced by its contract inside number_of_bulks"], bounds={"document sets": "<=3", "bulk size": "1, 2, 5000; symbolic 1..10^5 for a single document set", "docs per client range": "unbounded (contract of bounds)"},
            doc="number_of_bulks == sum of ceil(docs/bulk)"),
    Harness("ingest_percentage", ingest_percentage, "symbolic", lambda tier: [{"bulk": b} for b in (1, 3, 1000)], reads=READS, float_model="R",
            assumptions=["floats modelled as exact reals (model R): an IEEE rounding of all_bulks*p/100 just above an integer is outside the claim"], real_valued=True, bounds={"docs": "1..10^12", "p": "symbolic real in (0,100]"}, doc="total_bulks == ceil(all*p/100)"),
    Harness("mmap_source_lines", mmap_source_lines, "bounded-exhaustive", lambda tier: [{}], reads=[__import__("esrally.utils.io", fromlist=["x"]).MmapSource.readlines],
            stubs=["none: a real temporary file of <= 4 lines is mapped (removed afterwards)"],
            bounds={"lines": "0..4", "last line": "terminated or not", "lines per readlines call": "1..3", "content": "ASCII / multi-byte"},
            doc="the real memory-mapped source behaves like the in-memory source the reader harnesses use"),
    Harness("reader_stack", reader_stack, "bounded-exhaustive", _stack_slices, reads=READS,
            stubs=["io.MmapSource replaced by an in-memory source with the same interface (lines end with \\n); no offset table present"],
            bounds={"files": "<=2 (3 thorough)", "docs per file": "0..5 / 0..3 (4)", "clients": "1..3 (4) in every contiguous split into co-located groups",
                    "bulk size": "1..3", "batch size": "1x / 2x bulk size", "action-and-meta-data lines": "with / without per file", "corpora": "one or two"},
            doc="exact cover, contiguous slices, bulk-size, meta pairing through the real reader stack"),
    Harness("reader_percentage", reader_percentage, "bounded-exhaustive",
            lambda tier: [{"clients": c, "split": s} for (c, s) in ((1, 0), (2, 0), (2, 1), (3, 1))], reads=READS, stubs=["in-memory source"],
            bounds={"docs": "1..5 + 0..3", "p": "1, 10, 34, 50, 99.9, 100", "call order": "every order in which co-located clients ask for the next bulk"},
            doc="ingest percentage with a shared per-worker parameter source"),
    Harness("offset_table_seek", offsets.table_build_and_seek, "bounded-exhaustive", lambda tier: [{"initial": "none"}], reads=READS + [rio.prepare_file_offset_table, rio.FileOffsetTable],
            stubs=["open()/os inside esrally.utils.io operate on an in-memory file system; data file = (characters, bytes) per line"],
            bounds={"data file": "120 000 lines (two checkpoints), 0..3 extra bytes of multi-byte content on a line before each checkpoint", "targets": offsets.TARGETS},
            doc="seek by offset table == skipping lines one by one, multi-byte content included"),
    Harness("offset_find_closest", offsets.find_closest, "symbolic", lambda tier: [{"entries": n} for n in (0, 1, 3)], reads=READS + [rio.FileOffsetTable],
            bounds={"target line": "unbounded", "table entries": "0..3 symbolic offsets"}, doc="closest checkpoint for unbounded target lines"),
    Harness("conflict_ids", conflict_ids, "symbolic",
            lambda tier: [{"docs": d, "mode": m, "recency": r, "on_conflict": oc} for d in ((2, 3) if tier == "quick" else (2, 3, 4)) for m in (0, 1) for r in (False, True)
                          for oc in (0, 1)],
            reads=READS, stubs=["random.random -> arbitrary real in [0,1)", "random.randint(lo,hi) -> arbitrary int in [lo,hi]", "random.expovariate -> arbitrary real >= 0",
                                "shuffle -> reverse"],
            bounds={"docs per client": "2..3 (4)", "probability, recency": "symbolic reals"}, real_valued=True,
            doc="conflicting ids only refer to ids already emitted by the same client"),
]


# ------------------------------------------------------------------------------------------------------------------
# auxiliary: native IEEE floats for the ingest-percentage cut (the solver harness above runs in exact reals)
# ------------------------------------------------------------------------------------------------------------------
def ingest_percentage_float_sweep(tier, deadline):
    """enumeration of concrete runs (NOT solver-decided): real floats, total_bulks vs. the exact rational ceil(all_bulks * p / 100)"""
    import fractions
    import math
    import time as _time

    t0 = _time.time()
    out = {"name": "ingest_percentage_float_sweep", "kind": "auxiliary enumeration of concrete runs with native IEEE floats", "evaluations": 0, "distinct_nontrivial": 0,
           "exhaustive": True, "violations": [], "errors": [], "bounds": {"bulks": "1..%d" % (600 if tier == "quick" else 3000), "p": "every percentage with one decimal place 0.1..100.0 (read as the decimal that was written); every percentage with two decimal places "
                                                                                                        "0.01..100.00 for bulks up to %d" % (60 if tier == "quick" else 300)}}
    ps = [k / 10 for k in range(1, 1001)]
    ps2 = [k / 100 for k in range(1, 10001) if k % 10]
    top = 600 if tier == "quick" else 3000
    top2 = 60 if tier == "quick" else 300
    for n in range(1, top + 1):
        corp = [Corpus([DocSet(n, False)])]
        for p in (ps + ps2 if n <= top2 else ps):
            src = params.PartitionBulkIndexParamSource(corp, 1, 1, p, params.IndexIdConflict.NoConflicts, None, None, None,
                                                       original_params={"__create_reader": lambda *a: None})
            src.partition(0, 1)
            src._init_internal_params()
            # the percentage is the DECIMAL number the user wrote (99.9 means 999/1000, not the nearest binary double)
            want = math.ceil(fractions.Fraction(n) * fractions.Fraction(str(p)) / 100)
            out["evaluations"] += 1
            if src.total_bulks != want and not out["violations"]:
                out["violations"].append({"inputs": {"bulks": n, "ingest_percentage": p}, "slice": {},
                                          "failed": ["group stops after %d bulks, ceil(p%% of %d) is %d" % (src.total_bulks, n, want)]})
        if _time.time() > deadline:
            out["exhaustive"] = False
            break
    out["distinct_nontrivial"] = out["evaluations"]
    out["wall_s"] = round(_time.time() - t0, 1)
    return out


def _replay_sweep(entry):
    import fractions
    import math

    n, p = entry["inputs"]["bulks"], entry["inputs"]["ingest_percentage"]
    corp = [Corpus([DocSet(n, False)])]
    src = params.PartitionBulkIndexParamSource(corp, 1, 1, p, params.IndexIdConflict.NoConflicts, None, None, None, original_params={"__create_reader": lambda *a: None})
    src.partition(0, 1)
    src._init_internal_params()
    want = math.ceil(fractions.Fraction(n) * fractions.Fraction(str(p)) / 100)
    return src.total_bulks == want, "bulks=%d p=%s: total_bulks=%d, exact ceil=%d" % (n, p, src.total_bulks, want)


AUX = [ingest_percentage_float_sweep]
AUX_REPLAY = {"ingest_percentage_float_sweep": _replay_sweep}
