"""Offset-table harnesses shared by C03 (seek by offset table) and C14 (offset table after preparation / interrupted builds).

The real io.prepare_file_offset_table / FileOffsetTable / skip_lines run over an in-memory file system (esrally.utils.io.open and
esrally.utils.io.os are replaced).  Data files are described by (characters, bytes) per line, so multi-byte content is covered:
in text mode len(line) counts characters while tell() counts bytes."""
import os as real_os

from esrally.utils import io as rio

from harness.common import concrete
from symx import core
from symx.core import fresh_int, observe, s_and, shadowed

STEP = 50000


class Crash(BaseException):
    """process death at an injected point (not an Exception: nothing may catch it)"""


class DataFile:
    """N lines; line i has chars[i] characters and chars[i] + extra bytes (extra > 0 = multi-byte content)"""

    def __init__(self, n, extras):
        self.n = n
        self.extras = dict(extras)  # line index -> extra bytes
        self.chars = 10
        self.mtime = 100

    def byte_len(self, i):
        return self.chars + self.extras.get(i, 0)

    def start_of(self, line):
        """byte offset of the start of `line` (0-based), i.e. where skipping `line` lines one by one ends"""
        return self.chars * line + sum(e for i, e in self.extras.items() if i < line)


class TextReader:
    def __init__(self, df):
        self.df = df
        self.i = 0
        self.pos = 0

    def readline(self):
        if self.i >= self.df.n:
            return ""
        self.pos += self.df.byte_len(self.i)
        self.i += 1
        return "x" * (self.df.chars - 1) + "\n"

    def tell(self):
        return self.pos

    def __iter__(self):
        return self

    def __next__(self):
        line = self.readline()
        if line == "":
            raise StopIteration
        return line

    def __enter__(self):
        return self

    def __exit__(self, *a):
        return False

    def close(self):
        pass


class TableWriter:
    def __init__(self, fs, path):
        self.fs = fs
        self.path = path
        fs.files[path] = {"text": "", "mtime": fs.now}
        fs.tick()

    def write(self, s):
        try:
            self.fs.maybe_crash("write to %s" % real_os.path.basename(self.path))
        except Crash:
            # the process dies while the data is being written: an arbitrary prefix reaches the disk
            cut = concrete(fresh_int("bytes_of_the_interrupted_write_on_disk", 0, len(s)))
            self.fs.files[self.path]["text"] += s[:cut]
            raise
        self.fs.files[self.path]["text"] += s
        return len(s)

    def flush(self):
        pass

    def close(self):
        self.fs.files[self.path]["mtime"] = self.fs.now
        self.fs.tick()

    def __enter__(self):
        return self

    def __exit__(self, *a):
        self.close()
        return False


class TableReader:
    def __init__(self, text):
        self.lines = text.splitlines(keepends=True)

    def __iter__(self):
        return iter(self.lines)

    def close(self):
        pass


class BinarySource:
    """the data file as io.MmapSource sees it: byte positions"""

    def __init__(self, df):
        self.df = df
        self.pos = 0

    def seek(self, off):
        self.pos = off

    def readline(self):
        # find the line containing pos
        line = 0
        start = 0
        while line < self.df.n and start + self.df.byte_len(line) <= self.pos:
            start += self.df.byte_len(line)
            line += 1
        if line >= self.df.n:
            return b""
        end = start + self.df.byte_len(line)
        out = b"x" * (end - self.pos)
        self.pos = end
        return out


class FastBinarySource(BinarySource):
    def readline(self):
        df = self.df
        # closed form instead of the scan (few special lines)
        specials = sorted(df.extras.items())
        line = None
        for cand_base in range(len(specials) + 1):
            before = sum(e for _, e in specials[:cand_base])
            # lines in segment after `cand_base` specials: start = chars*line + before
            lo = specials[cand_base - 1][0] + 1 if cand_base > 0 else 0
            hi = specials[cand_base][0] if cand_base < len(specials) else df.n - 1
            if lo > hi:
                continue
            first_start = df.chars * lo + before
            last_end = df.chars * hi + before + df.byte_len(hi)
            if first_start <= self.pos < last_end:
                # position within this segment; special line hi may be longer
                k = (self.pos - before) // df.chars
                k = min(max(k, lo), hi)
                line = k
                break
        if line is None:
            return b""
        start = df.start_of(line)
        end = start + df.byte_len(line)
        out = b"x" * (end - self.pos)
        self.pos = end
        return out


class FS:
    def __init__(self):
        self.files = {}
        self.data = {}
        self.now = 1000
        self.crash_at = None
        self.events = 0
        self.log = []

    def tick(self):
        self.now += 1

    def maybe_crash(self, what):
        self.events += 1
        self.log.append(what)
        if self.crash_at is not None and self.events == self.crash_at:
            raise Crash(what)

    # --- builtins.open
    def open(self, path, mode="r", encoding=None):
        if path in self.data:
            return TextReader(self.data[path])
        if "w" in mode:
            self.maybe_crash("create %s" % real_os.path.basename(path))
            return TableWriter(self, path)
        if path not in self.files:
            raise FileNotFoundError(path)
        return TableReader(self.files[path]["text"])

    # --- os
    def os_ns(self):
        fs = self

        class P:
            @staticmethod
            def exists(p):
                return p in fs.files or p in fs.data

            @staticmethod
            def getmtime(p):
                return fs.data[p].mtime if p in fs.data else fs.files[p]["mtime"]

            basename = staticmethod(real_os.path.basename)
            splitext = staticmethod(real_os.path.splitext)
            join = staticmethod(real_os.path.join)
            dirname = staticmethod(real_os.path.dirname)

        class O:
            path = P

            @staticmethod
            def replace(a, b):
                fs.maybe_crash("rename %s" % real_os.path.basename(a))
                fs.files[b] = fs.files.pop(a)

            rename = replace

            @staticmethod
            def remove(p):
                fs.maybe_crash("remove %s" % real_os.path.basename(p))
                del fs.files[p]

        return O


class _Console:
    @staticmethod
    def info(*a, **kw):
        pass

    println = warn = info


def env(fs):
    return shadowed(rio, ("int", "float", "round"), extra={"open": fs.open, "os": fs.os_ns(), "console": _Console})


DATA = "/nonexistent-verif/corpus/documents.json"
TABLE = DATA + ".offset"
TARGETS = [0, 1, 2, STEP - 1, STEP, STEP + 1, 2 * STEP - 1, 2 * STEP, 2 * STEP + 1, 2 * STEP + 17000]
CRASH_TARGETS = [1, STEP, STEP + 1, 2 * STEP + 17000]
_EVENTS = {}


def make_data(sl, small=False):
    """120 000 lines (two table entries); symbolic numbers of extra bytes on one line before each checkpoint"""
    n = 2 * STEP + 20000
    e1 = concrete(fresh_int("extra_bytes_line_7", 0, 1 if small else 2))
    e2 = concrete(fresh_int("extra_bytes_line_%d" % (STEP + 3), 0, 1 if small else 3)) * (3 if small else 1)
    e3 = 0 if small else concrete(fresh_int("extra_bytes_line_%d" % (2 * STEP - 1), 0, 1))
    return DataFile(n, {7: e1, STEP + 3: e2, 2 * STEP - 1: e3})


def check_seek(fs, df, target, label=""):
    src = FastBinarySource(df)
    try:
        with env(fs):
            rio.skip_lines(DATA, src, target)
    except Exception as e:  # noqa: BLE001 - an unusable table must be rejected before use, not fail while reading
        core.note("skip_lines raised", repr(e))
        observe(label + "skip_lines works with the table left on disk", False)
        return
    observe(label + "offset table positions the reader at the same byte as skipping %d lines one by one" % target, src.pos == df.start_of(target))


def table_build_and_seek(sl):
    """fresh build, then seek: same byte as sequential skipping (multi-byte content included)"""
    df = make_data(sl)
    fs = FS()
    fs.data[DATA] = df
    state = sl["initial"]
    if state == "stale":
        # older than the data file by ANY positive amount of time (also a fraction of a second)
        age = core.fresh_real("stale_table_older_than_the_data_file_by", 0)
        core.assume(age > 0)
        fs.files[TABLE] = {"text": "50000;1\n100000;2\n", "mtime": df.mtime - age}
    elif state == "garbage-newer-tmp":
        fs.files[TABLE + ".tmp"] = {"text": "50000;12", "mtime": df.mtime + 10}
    with env(fs):
        lines = rio.prepare_file_offset_table(DATA)
    observe("table built; number of lines reported", lines == df.n)
    observe("table exists and is valid afterwards", TABLE in fs.files and fs.files[TABLE]["mtime"] >= df.mtime)
    if TABLE in fs.files:
        core.note("table", fs.files[TABLE]["text"])
        observe("table is complete: one well-formed entry per 50 000 lines",
                fs.files[TABLE]["text"] == "".join("%d;%d\n" % (k * STEP, df.start_of(k * STEP)) for k in range(1, df.n // STEP + 1)))
    with env(fs):
        again = rio.prepare_file_offset_table(DATA)
    observe("a valid table is not rebuilt", again is None)
    target = TARGETS[concrete(fresh_int("target_choice", 0, len(TARGETS) - 1))]
    core.trace("target", target)
    check_seek(fs, df, target)


def table_validity(sl):
    """FileOffsetTable.is_valid: exactly 'the table exists and is not older than the data file' for arbitrary modification times"""
    fs = FS()
    df = DataFile(10, {})
    df.mtime = core.fresh_real("data_file_mtime", 0)
    fs.data[DATA] = df
    exists = bool(core.fresh_bool("table_exists"))
    tm = core.fresh_real("table_mtime", 0)
    if exists:
        fs.files[TABLE] = {"text": "", "mtime": tm}
    with env(fs):
        valid = rio.FileOffsetTable.read_for_data_file(DATA).is_valid()
    core.trace("exists", exists)
    if not exists:
        observe("no table is never valid", not valid)
    else:
        observe("a table is valid iff it is not older than the data file (by however little)", bool(valid) == bool(tm >= df.mtime))


def table_crash_points(sl):
    """a build interrupted at ANY point (every write, the creation, the rename) never leaves a table that is used and wrong"""
    df = make_data(sl, small=True)
    fs = FS()
    fs.data[DATA] = df
    if sl["initial"] == "stale":
        fs.files[TABLE] = {"text": "50000;1\n100000;2\n", "mtime": df.mtime - 10}
    # dry run to count the events of an undisturbed build (same for every path of this process)
    key = tuple(sorted(df.extras.items()))
    if key not in _EVENTS:
        probe = FS()
        probe.data[DATA] = df
        with env(probe):
            rio.prepare_file_offset_table(DATA)
        _EVENTS[key] = probe.events
    total_events = _EVENTS[key]
    k = fresh_int("crash_at_event", 1, total_events)
    fs.crash_at = concrete(k)
    try:
        with env(fs):
            rio.prepare_file_offset_table(DATA)
        observe("crash point reached", False)
    except Crash as c:
        core.note("crashed at", str(c))
    fs.crash_at = None
    core.note("files after crash", {real_os.path.basename(p): f["text"][:40] for p, f in fs.files.items()})
    target = CRASH_TARGETS[concrete(fresh_int("target_choice", 0, len(CRASH_TARGETS) - 1))]
    core.trace("target", target)
    # (1) a reader that starts right after the crash (e.g. the next race skips preparation because the data file is there)
    with env(fs):
        valid = rio.FileOffsetTable.read_for_data_file(DATA).is_valid()
    if valid:
        check_seek(fs, df, target, label="after the crash: ")
    # (2) the next preparation repairs whatever is there
    with env(fs):
        rio.prepare_file_offset_table(DATA)
    observe("next preparation leaves a valid table", TABLE in fs.files and fs.files[TABLE]["mtime"] >= df.mtime)
    check_seek(fs, df, target, label="after re-preparation: ")


def find_closest(sl):
    """FileOffsetTable.find_closest_offset on an arbitrary (unbounded) target line: entry of floor(target/50000)"""
    entries = sl["entries"]
    fs = FS()
    offs = []
    prev = 0
    for k in range(1, entries + 1):
        o = fresh_int("offset%d" % k, 0)
        core.assume(o > prev)
        offs.append(o)
        prev = o
    # the table text holds concrete numbers; to keep the offsets symbolic the parsed ints are substituted at int()
    text = "".join("%d;@%d\n" % (k * STEP, k) for k in range(1, entries + 1))
    fs.files[TABLE] = {"text": text, "mtime": 0}

    def sx_int(x=0, *a):
        if isinstance(x, str) and x.startswith("@"):
            return offs[int(x[1:]) - 1]
        return core.sx_int(x, *a)

    target = fresh_int("target_line", 0)
    with shadowed(rio, (), extra={"open": fs.open, "os": fs.os_ns(), "int": sx_int}):
        t = rio.FileOffsetTable.read_for_data_file(DATA)
        with t:
            off, remaining = t.find_closest_offset(target)
    core.trace("entries", entries)
    k = 0
    for j in range(1, entries + 1):
        if bool(target >= j * STEP):
            k = j
    observe("offset is the entry of the last checkpoint <= target (0 before the first)", off == (offs[k - 1] if k > 0 else 0))
    observe("checkpoint line + remaining lines == target", k * STEP + remaining == target)
    observe("remaining lines within [0, target]", s_and(remaining >= 0, remaining <= target))
