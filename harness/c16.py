"""C16 — retryable operations retry exactly as configured (DESIGN §4 C16).

The real coroutine runner.Retry.__call__ is driven by hand (send(None)); the delegate is a stub whose outcome per
attempt is a symbolic class; asyncio.sleep inside esrally.driver.runner is a recorder.  The oracle is a short
reference model of the documented behaviour (differential harness).
"""
import socket
import sys

import elastic_transport
import elasticsearch

from esrally import track
from esrally.driver import runner

from symx import core
from symx.core import fresh_bool, fresh_int, fresh_real, observe, shadowed
from symx.explore import Harness

PROPERTY = "C16"
EXPLANATION = ("C16: the real Retry.__call__ coroutine is executed on symbolic retry parameters (retries, flags, wait period, presence of "
               "each parameter) against a delegate whose outcome class per attempt is symbolic; a reference model of the documented "
               "behaviour gives the expected number of attempts, the sleeps between them and the final result/exception.")

# outcome classes
OK_DICT, OK_DICT_NOKEY, FAIL_DICT, TUPLE, NONE, CONN_TIMEOUT, CONN_ERROR, SOCK_TIMEOUT, API_408, API_OTHER, TRANSPORT_OTHER, OTHER_EXC = range(12)
NAMES = ["success dict", "dict without success key", "unsuccessful dict", "tuple", "None", "ConnectionTimeout", "ConnectionError",
         "socket.timeout", "ApiError 408", "ApiError other", "other TransportError", "other exception"]
TIMEOUTISH = (CONN_TIMEOUT, CONN_ERROR, SOCK_TIMEOUT, API_408)


class _Meta:
    def __init__(self, status):
        self.status = status


def make_outcome(kind, i):
    """returns ("ret", value) or ("raise", exception) — fresh identity per attempt"""
    if kind == OK_DICT:
        return "ret", {"success": True, "attempt": i}
    if kind == OK_DICT_NOKEY:
        return "ret", {"weight": 1, "attempt": i}
    if kind == FAIL_DICT:
        return "ret", {"success": False, "attempt": i}
    if kind == TUPLE:
        return "ret", (1, "ops", i)
    if kind == NONE:
        return "ret", None
    if kind == CONN_TIMEOUT:
        return "raise", elasticsearch.exceptions.ConnectionTimeout("timeout %d" % i)
    if kind == CONN_ERROR:
        return "raise", elasticsearch.exceptions.ConnectionError("conn %d" % i)
    if kind == SOCK_TIMEOUT:
        return "raise", socket.timeout("sock %d" % i)
    if kind == API_408:
        return "raise", elasticsearch.ApiError("408", _ApiMeta(408), {"attempt": i})
    if kind == API_OTHER:
        return "raise", elasticsearch.ApiError("500", _ApiMeta(500), {"attempt": i})
    if kind == TRANSPORT_OTHER:
        return "raise", elastic_transport.SerializationError("ser %d" % i)
    return "raise", KeyError("other %d" % i)


def _ApiMeta(status):
    return elastic_transport.ApiResponseMeta(status=status, http_version="1.1", headers=elastic_transport.HttpHeaders(),
                                             duration=0.0, node=elastic_transport.NodeConfig("http", "localhost", 9200))


class Delegate:
    def __init__(self, kinds_fn, force_success_at=None):
        self.calls = 0
        self.kinds_fn = kinds_fn
        self.produced = []
        self.sleeps_at_call = []
        self.force_success_at = force_success_at

    async def __call__(self, es, params):
        if isinstance(params, dict) and params.get("__another-task"):
            # a request of another task that runs the same operation type at the same time: succeeds at once, not part of this history
            return {"weight": 1, "unit": "ops", "success": True}
        i = self.calls
        self.calls += 1
        self.sleeps_at_call.append(len(SLEEPS))
        kind = self.kinds_fn(i)
        how, val = make_outcome(kind, i)
        self.produced.append((kind, how, val))
        if how == "raise":
            raise val
        return val

    async def __aenter__(self):
        return self

    async def __aexit__(self, *a):
        return False

    def __repr__(self):
        return "stub-delegate"


SLEEPS = []


class FakeAsyncio:
    @staticmethod
    async def sleep(t):
        SLEEPS.append(t)


def drive(coro):
    try:
        coro.send(None)
    except StopIteration as e:
        return "ret", e.value
    except Exception as e:  # noqa: BLE001 - the outcome under test
        return "raise", e
    raise RuntimeError("coroutine suspended: a stub awaited something real")


def kind_reader(n_max, prefix="o"):
    """lazy symbolic outcome class per attempt, decided by the solver when the delegate is called"""
    cache = {}

    def kinds(i):
        if i not in cache:
            k = fresh_int("%s%d" % (prefix, i), 0, len(NAMES) - 1)
            # dispatch: fork on the class (solver-decided)
            for c in range(len(NAMES) - 1):
                if k == c:
                    cache[i] = c
                    break
            else:
                cache[i] = len(NAMES) - 1
        return cache[i]

    return kinds


def reference(kinds_seen, max_attempts, retry_on_error, retry_on_timeout):
    """expected (attempts, number of sleeps, final outcome index) per the documented behaviour"""
    sleeps = 0
    for i in range(max_attempts):
        k = kinds_seen(i)
        last = i + 1 == max_attempts
        if k in (OK_DICT, OK_DICT_NOKEY, TUPLE, NONE):
            return i + 1, sleeps, i
        if k == FAIL_DICT:
            if last or not retry_on_error:
                return i + 1, sleeps, i
            sleeps += 1
            continue
        if k in TIMEOUTISH:
            if last or not retry_on_timeout:
                return i + 1, sleeps, i
            sleeps += 1
            continue
        return i + 1, sleeps, i
    raise AssertionError("unreachable")


def retry_bounded(sl):
    global SLEEPS
    SLEEPS = []
    max_r = sl["max_retries"]
    params = {}
    retries = 0
    mask = sl["present"]  # which parameters are present (slice = concrete shape)
    if mask & 1:
        retries = fresh_int("retries", 0, max_r)
        params["retries"] = retries
    retry_on_error = False
    if mask & 2:
        retry_on_error = fresh_bool("retry_on_error")
        params["retry-on-error"] = retry_on_error
    retry_on_timeout = True
    if mask & 4:
        retry_on_timeout = fresh_bool("retry_on_timeout")
        params["retry-on-timeout"] = retry_on_timeout
    wait = 0.5
    if mask & 8:
        wait = fresh_real("wait", 0)
        params["retry-wait-period"] = wait
    if mask & 16:
        params["retry-until-success"] = False
    kinds = kind_reader(max_r + 1)
    d = Delegate(kinds)
    r = runner.Retry(d)
    if sl.get("prior"):
        # the wrapper instance is shared by all tasks of an operation type: an earlier call with other parameters
        # must not influence this one
        prior = {"retry-until-success": fresh_bool("prior_rus"), "retry-on-error": fresh_bool("prior_roe"), "retries": fresh_int("prior_retries", 0, 2)}
        r.delegate = Delegate(lambda i: OK_DICT)
        with shadowed(runner, (), extra={"asyncio": FakeAsyncio}):
            drive(r(None, prior))
        r.delegate = d
        SLEEPS.clear()
    if sl.get("overlap"):
        # one Retry object serves every task of an operation type in a worker process: while this call waits between two attempts another
        # task's call with OTHER retry settings runs through the same object (two tasks of a parallel element, two streams of a composite)
        other = {"__another-task": True, "retries": fresh_int("other_retries", 0, 3), "retry-on-error": fresh_bool("other_roe"),
                 "retry-on-timeout": fresh_bool("other_rot"), "retry-wait-period": 77}

        class Overlap:
            fired = False

            @staticmethod
            async def sleep(t):
                SLEEPS.append(t)
                if not Overlap.fired:
                    Overlap.fired = True
                    n = len(SLEEPS)
                    drive(r(None, other))
                    del SLEEPS[n:]

        with shadowed(runner, (), extra={"asyncio": Overlap}):
            how, val = drive(r(None, params))
    else:
        with shadowed(runner, (), extra={"asyncio": FakeAsyncio}):
            how, val = drive(r(None, params))
    # concrete view of the symbolic parameters on this path (forks if still undecided)
    n_max = int(retries) + 1 if not core.is_sym(retries) else core.concretize((retries + 1).z)
    roe = bool(retry_on_error)
    rot = bool(retry_on_timeout)
    exp_attempts, exp_sleeps, exp_idx = reference(kinds, n_max, roe, rot)
    core.note("outcomes", [NAMES[k] for (k, _, _) in d.produced])
    core.note("params", {k: (v if not core.is_sym(v) else "<sym>") for k, v in params.items()})
    core.note("observed", (d.calls, len(SLEEPS), how, repr(val)))
    core.note("expected", (exp_attempts, exp_sleeps, NAMES[kinds(exp_idx)]))
    core.trace("calls", d.calls)
    observe("attempts <= retries + 1", d.calls <= n_max)
    observe("number of attempts as documented", d.calls == exp_attempts)
    observe("one sleep between consecutive attempts, none else", len(SLEEPS) == exp_sleeps and d.sleeps_at_call == list(range(d.calls)))
    for s in SLEEPS:
        observe("sleep == retry-wait-period", s == wait)
    if d.calls == exp_attempts:
        _, ehow, eval_ = d.produced[exp_idx]
        observe("final outcome is exactly what the deciding attempt produced", how == ehow and val is eval_)


def retry_until_success(sl):
    """retry-until-success: no attempt bound, retry-on-error forced; the stub succeeds at attempt n (symbolic <= bound)."""
    global SLEEPS
    SLEEPS = []
    bound = sl["attempts"]
    params = {}
    mask = sl["present"]
    via_ctor = bool(mask & 8)
    if not via_ctor:
        params["retry-until-success"] = True
    if mask & 1:
        params["retries"] = fresh_int("retries", 0, 2)
    if mask & 2:
        params["retry-on-error"] = fresh_bool("retry_on_error")
    rot = True
    if mask & 4:
        rot = fresh_bool("retry_on_timeout")
        params["retry-on-timeout"] = rot
    wait = fresh_real("wait", 0)
    params["retry-wait-period"] = wait
    base = kind_reader(bound)

    def kinds(i):
        if i >= bound - 1:
            return OK_DICT  # bound of the harness: the delegate succeeds at the latest here
        return base(i)

    d = Delegate(kinds)
    r = runner.Retry(d, retry_until_success=via_ctor)
    with shadowed(runner, (), extra={"asyncio": FakeAsyncio}):
        how, val = drive(r(None, params))
    exp_attempts, exp_sleeps, exp_idx = reference(kinds, sys.maxsize, True, bool(rot))
    core.note("outcomes", [NAMES[k] for (k, _, _) in d.produced])
    core.note("observed", (d.calls, len(SLEEPS), how, repr(val)))
    core.trace("calls", d.calls)
    observe("number of attempts as documented (unbounded retries)", d.calls == exp_attempts)
    observe("one sleep between consecutive attempts", len(SLEEPS) == exp_sleeps and d.sleeps_at_call == list(range(d.calls)))
    for s in SLEEPS:
        observe("sleep == retry-wait-period", s == wait)
    if d.calls == exp_attempts:
        _, ehow, eval_ = d.produced[exp_idx]
        observe("final outcome is exactly what the deciding attempt produced", how == ehow and val is eval_)


def documented_retryable_operations():
    """operation types whose section in docs/track.rst says 'This operation is retryable' (read from the tree under test)"""
    import bisect
    import os

    path = os.path.join(os.path.dirname(os.path.dirname(os.path.abspath(runner.__file__.replace("/driver/", "/")))), "docs", "track.rst")
    lines = open(path, encoding="utf-8").read().split("\n")
    secs = []
    for i in range(len(lines) - 1):
        u = lines[i + 1]
        if u and len(set(u)) == 1 and u[0] in "~\"^'.-=" and len(u) >= len(lines[i]) > 0 and not lines[i].startswith(" "):
            secs.append((i, lines[i], u[0]))
    idx = [x[0] for x in secs]
    out = []
    for i, l in enumerate(lines):
        if "This operation is :ref:`retryable" in l:
            j = bisect.bisect(idx, i) - 1
            while secs[j][2] != "~":
                j -= 1
            out.append(secs[j][1])
    return out


DOCUMENTED = documented_retryable_operations()


def registered_retryables(sl):
    """every operation type documented as retryable is registered behind the real Retry wrapper and retries through the whole
    registered chain (completion / assertion / cluster wrappers included)"""
    global SLEEPS
    SLEEPS = []
    v = fresh_int("operation", 0, len(DOCUMENTED) - 1)
    op = DOCUMENTED[core.concretize(v.z) if core.is_sym(v) else v]
    core.note("operation", op)
    runner.register_default_runners()
    try:
        registered = runner.runner_for(op)
    except Exception as e:  # noqa: BLE001
        core.note("runner_for", repr(e))
        observe("a documented retryable operation has a registered runner", False)
        return
    x, retry = registered, None
    for _ in range(8):
        if isinstance(x, runner.Retry):
            retry = x
            break
        x = getattr(x, "delegate", None) or getattr(x, "runnable", None)
        if x is None:
            break
    observe("the registered runner of a documented retryable operation is wrapped in Retry", retry is not None)
    if retry is None:
        return
    faults = fresh_int("timeouts_before_success", 0, 3)
    faults = core.concretize(faults.z) if core.is_sym(faults) else faults
    retries = fresh_int("retries", 0, 3)
    retries = core.concretize(retries.z) if core.is_sym(retries) else retries
    d = Delegate(lambda i: CONN_TIMEOUT if i < faults else OK_DICT)
    real_delegate, retry.delegate = retry.delegate, d
    try:
        with shadowed(runner, (), extra={"asyncio": FakeAsyncio}):
            how, val = drive(registered({"default": object()}, {"retries": retries, "retry-on-timeout": True, "retry-wait-period": 0.25,
                                                                    # get-async-search retries until success by default (documented)
                                                                    "retry-until-success": False}))
    finally:
        retry.delegate = real_delegate
    core.trace("calls", d.calls)
    core.note("observed", (d.calls, how, repr(val)[:80]))
    observe("attempts through the registered chain: min(timeouts, retries) + 1", d.calls == min(faults, retries) + 1)
    observe("pauses of retry-wait-period between the attempts", SLEEPS == [0.25] * (d.calls - 1))
    if faults <= retries:
        observe("the successful attempt's result is returned", how == "ret" and isinstance(val, dict) and val.get("attempt") == faults)
    else:
        observe("after the last attempt the timeout is raised", how == "raise" and isinstance(val, elasticsearch.exceptions.ConnectionTimeout))


RETRY_SETTINGS = {"retries": 3, "retry-until-success": False, "retry-wait-period": 0.25, "retry-on-timeout": True, "retry-on-error": True}
# minimal operation parameters for the documented retryable operation types that have a parameter source of their own
MINIMAL_PARAMS = {"create-index": {}, "delete-index": {}, "create-data-stream": {}, "delete-data-stream": {}, "create-index-template": {},
                  "delete-index-template": {}, "create-component-template": {}, "delete-component-template": {}, "create-composable-template": {},
                  "delete-composable-template": {}}


def retry_settings_reach_the_runner(sl):
    """a task's retry settings are part of the operation's parameters; they have to survive the operation's PARAMETER SOURCE, because
    Retry reads them from the dict the source hands out for every call. Real param sources on a track that declares one index, data
    stream and template of every kind; then the registered runner is called with what the source produced (delegate stubbed)."""
    global SLEEPS
    SLEEPS = []
    from esrally.track import params as tparams

    v = fresh_int("operation", 0, len(DOCUMENTED) - 1)
    op_type = DOCUMENTED[core.concretize(v.z) if core.is_sym(v) else v]
    core.note("operation", op_type)
    trk = track.Track("t", indices=[track.Index("idx", body={})], data_streams=[track.DataStream("ds")],
                      templates=[track.IndexTemplate("tpl", "idx-*", {"settings": {}})],
                      composable_templates=[track.IndexTemplate("ctpl", "idx-*", {"template": {"settings": {}}})],
                      component_templates=[track.ComponentTemplate("comp", {"template": {"settings": {}}})])
    given = dict(MINIMAL_PARAMS.get(op_type, {}), **RETRY_SETTINGS)
    given["operation-type"] = op_type
    try:
        source = tparams.param_source_for_operation(op_type, trk, given, "task")
        produced = source.partition(0, 1).params()
    except Exception as e:  # noqa: BLE001
        core.note("parameter source raised", repr(e))
        observe("the operation's parameter source accepts the minimal parameters plus the retry settings", False)
        return
    core.trace("keys", len(produced))
    core.note("produced keys", sorted(produced))
    for k, want in RETRY_SETTINGS.items():
        observe("retry setting '%s' reaches the runner's parameters" % k, k in produced and produced[k] == want)
    # and they take effect: one timeout, then success -> two attempts with the configured pause
    runner.register_default_runners()
    registered = runner.runner_for(op_type)
    x, retry = registered, None
    for _ in range(8):
        if isinstance(x, runner.Retry):
            retry = x
            break
        x = getattr(x, "delegate", None) or getattr(x, "runnable", None)
        if x is None:
            break
    if retry is None:
        return
    d = Delegate(lambda i: CONN_TIMEOUT if i == 0 else OK_DICT)
    real_delegate, retry.delegate = retry.delegate, d
    try:
        with shadowed(runner, (), extra={"asyncio": FakeAsyncio}):
            how, val = drive(registered({"default": object()}, produced))
    finally:
        retry.delegate = real_delegate
    observe("with retries configured on the task a timeout is retried after the configured pause", d.calls == 2 and SLEEPS == [0.25] and how == "ret")


def enter_exit(sl):
    """__aenter__/__aexit__ delegate exactly once"""
    calls = []

    class D(Delegate):
        async def __aenter__(self):
            calls.append("enter")
            return self

        async def __aexit__(self, *a):
            calls.append("exit")
            return False

    r = runner.Retry(D(lambda i: OK_DICT))
    how, val = drive(r.__aenter__())
    observe("aenter returns the wrapper", how == "ret" and val is r)
    drive(r.__aexit__(None, None, None))
    observe("delegate entered and exited once", calls == ["enter", "exit"])
    fresh_int("dummy", 0, 0)


READS = [runner.Retry.__call__, runner.Retry.__aenter__, runner.Retry.__aexit__]

HARNESSES = [
    Harness("retry_bounded", retry_bounded, "symbolic",
            lambda tier: [{"max_retries": 3 if tier == "quick" else 4, "present": m, "_w": bin(m).count("1")} for m in range(32)]
            + [{"max_retries": 2, "present": m, "prior": 1} for m in (0, 1, 2, 7, 16, 31)]
            + [{"max_retries": 2, "present": m, "overlap": 1} for m in (1, 7, 15, 31)], reads=READS,
            bounds={"retries": "0..3 quick / 0..4 thorough (so <=4 / <=5 attempts)", "outcome classes": len(NAMES),
                    "wait period": "unbounded real >= 0", "parameter presence": "each of the five parameters present or absent"},
            stubs=["delegate runner (symbolic outcome class per attempt)", "asyncio.sleep inside esrally.driver.runner (recorder)"],
            assumptions=["non-dict results count as success (documented reading of the code, DESIGN §C16)"],
            doc="bounded retries: attempts, sleeps and final outcome equal the reference model"),
    Harness("retry_until_success", retry_until_success, "symbolic",
            lambda tier: [{"attempts": 4 if tier == "quick" else 6, "present": m} for m in range(16)], reads=READS,
            bounds={"attempts until the stub succeeds": "<=4 quick / <=6 thorough"},
            stubs=["delegate runner", "asyncio.sleep recorder"], doc="retry-until-success has no attempt bound and forces retry-on-error"),
    Harness("registered_retryables", registered_retryables, "bounded-exhaustive", lambda tier: [{}],
            reads=READS + [runner.register_default_runners, runner.register_runner, runner.runner_for],
            bounds={"operations": "the %d operation types that docs/track.rst marks as retryable (parsed from the tree under test)" % len(DOCUMENTED),
                    "timeouts before success": "0..3", "retries": "0..3"},
            stubs=["the innermost runner is replaced by a stub delegate (the operation's own request is not issued)", "asyncio.sleep recorder"],
            doc="documented retryable operations are registered behind Retry and retry end-to-end through the registered wrappers"),
    Harness("retry_settings_reach_the_runner", retry_settings_reach_the_runner, "bounded-exhaustive", lambda tier: [{}],
            reads=READS + [runner.register_default_runners],
            stubs=["the innermost runner is replaced by a stub delegate", "asyncio.sleep recorder"],
            bounds={"operations": "the %d documented retryable operation types, each through its real parameter source on a track with one index, data stream and template of every kind" % len(DOCUMENTED)},
            doc="retry settings survive the operation's parameter source and take effect"),
    Harness("enter_exit", enter_exit, "bounded-exhaustive", lambda tier: [{}], reads=READS, doc="context manager delegation"),
]
