"""C02 — every task gets exactly its clients; clients are partitioned over workers (DESIGN §4 C02)."""
from esrally import track
from esrally.driver import driver

from harness.common import accessor, concrete
from symx import core
from symx.core import fresh_int, observe, shadowed
from symx.explore import Harness

PROPERTY = "C02"
EXPLANATION = ("C02: the real Allocator and calculate_worker_assignments are executed on schedules / host layouts whose shape parameters "
               "(element kinds, sub-task counts, clients per task, client caps, completed-by, cores per host, client count) are solver "
               "variables; they flow into loop bounds and indices, so the solver enumerates them (bounded-exhaustive) and every structural "
               "invariant of the allocation matrix and of the partition is asserted on each instance.")


def mk_task(name, clients, completes=False, any_completes=False):
    return track.Task(name, track.Operation("op-" + name, "bulk"), clients=clients, completes_parent=completes, any_completes_parent=any_completes)


def build_element(i, sl):
    """element i of the schedule from symbolic shape values; sl["shape"][i] = (family, kind, sub-tasks)
    kind 0 = single task, 1 = parallel, 2 = parallel without tasks (emptied by filters)"""
    family, kind, k = sl["shape"][i]
    mc = sl["max_clients"]
    if kind == 0:
        return mk_task("e%d" % i, concrete(fresh_int("e%d_clients" % i, 1, mc + 1)))
    if kind == 2:
        return track.Parallel([], clients=None)
    # completed-by: 0 none, 1 any, 2 first sub-task, 3 last sub-task
    cb = concrete(fresh_int("e%d_completed_by" % i, 0, 3)) if family == "full" else 0
    tasks = []
    for j in range(k):
        tasks.append(mk_task("e%d_t%d" % (i, j), concrete(fresh_int("e%d_t%d_clients" % (i, j), 1, mc if family == "full" else 2)),
                             completes=(cb == 2 and j == 0) or (cb == 3 and j == k - 1), any_completes=(cb == 1)))
    cap = concrete(fresh_int("e%d_cap" % i, 0, 3 if family == "full" else 1))  # 0 = no cap, else a cap of 1, 2 or 5 clients
    return track.Parallel(tasks, clients={0: None, 1: 1, 2: 2, 3: 5}[cap])


def check_allocator(schedule, obs=observe):
    """structural invariants of the allocation matrix for `schedule` (list of Task / Parallel)"""
    a = driver.Allocator(schedule)
    try:
        allocs = a.allocations
        n_clients = a.clients
        a.join_points, a.tasks_per_joinpoint  # noqa: B018 - must be computable for every schedule
    except Exception as e:  # noqa: BLE001 - the allocator must not fail on any schedule
        core.note("allocator raised", repr(e))
        obs("allocations / join_points / tasks_per_joinpoint are defined for every schedule", False)
        return a
    want_clients = max([1] + [e.clients for e in schedule])
    obs("clients == max(1, max element clients)", n_clients == want_clients)
    obs("one row per client", len(allocs) == n_clients)
    width = len(allocs[0])
    obs("matrix is rectangular", all(len(r) == width for r in allocs))
    if not all(len(r) == width for r in allocs):
        return a
    jp_cols = []
    for col in range(width):
        cells = [allocs[c][col] for c in range(n_clients)]
        is_jp = [isinstance(x, driver.JoinPoint) for x in cells]
        obs("a column holds the same join point on every client or none", all(is_jp) and all(x is cells[0] for x in cells) or not any(is_jp))
        if all(is_jp):
            jp_cols.append(col)
    jps = a.join_points
    obs("join point ids 0..E strictly increasing", [j.id for j in jps] == list(range(len(schedule) + 1)))
    obs("matrix starts and ends with a join point", bool(jp_cols) and jp_cols[0] == 0 and jp_cols[-1] == width - 1)
    obs("one join point column per element boundary", len(jp_cols) == len(schedule) + 1)
    tpj = a.tasks_per_joinpoint
    obs("one progress entry per step (steps == join points - 1)", len(tpj) == len(jps) - 1)
    if len(jp_cols) != len(schedule) + 1:
        return a
    for k, element in enumerate(schedule):
        lo, hi = jp_cols[k], jp_cols[k + 1]
        tasks = list(element)
        cells = [(c, allocs[c][col]) for c in range(n_clients) for col in range(lo + 1, hi)]
        tas = [(c, x) for (c, x) in cells if isinstance(x, driver.TaskAllocation)]
        obs("between two join points only allocations of that element or None",
            all(x is None or (isinstance(x, driver.TaskAllocation) and any(x.task is t for t in tasks)) for (_, x) in cells))
        if k < len(tpj):
            obs("progress entry k is the task set of element k", tpj[k] == set(tasks))
        glob = sorted(x.global_client_index for (_, x) in tas)
        obs("global client indices of an element are 0..sum-1, each once", glob == list(range(sum(t.clients for t in tasks))))
        for t in tasks:
            mine = [(c, x) for (c, x) in tas if x.task is t]
            obs("every client index of the task exactly once", sorted(x.client_index_in_task for (_, x) in mine) == list(range(t.clients)))
            obs("total_clients is the element's client count", all(x.total_clients == element.clients for (_, x) in mine))
            obs("physical client = global index modulo client count", all(c == x.global_client_index % n_clients for (c, x) in mine))
        jp = allocs[0][hi]
        exp_completing = [x.global_client_index % n_clients for (_, x) in sorted(tas, key=lambda cx: cx[1].global_client_index) if x.task.completes_parent]
        exp_any = [x.global_client_index % n_clients for (_, x) in sorted(tas, key=lambda cx: cx[1].global_client_index) if x.task.any_completes_parent]
        obs("closing join point names the clients of the completing task", sorted(jp.clients_executing_completing_task) == sorted(exp_completing))
        obs("closing join point names the clients of any-completing tasks", sorted(jp.any_task_completes_parent) == sorted(exp_any))
        # per client: rows of the element are contiguous from the top (None only as padding at the bottom)
        for c in range(n_clients):
            colcells = [allocs[c][col] for col in range(lo + 1, hi)]
            seen_none = False
            ok = True
            for x in colcells:
                if x is None:
                    seen_none = True
                elif seen_none:
                    ok = False
            obs("None only pads the end of an element", ok)
    return a


def allocation_matrix(sl):
    schedule = [build_element(i, sl) for i in range(len(sl["shape"]))]
    core.note("schedule", [("task %s x%d" % (e.name, e.clients)) if isinstance(e, track.Task)
                           else "parallel(cap=%s)[%s]" % (e._clients, ", ".join("%s x%d%s" % (t.name, t.clients, "*" if t.completes_parent else ("~" if t.any_completes_parent else "")) for t in e.tasks))
                           for e in schedule])
    a = check_allocator(schedule)
    try:
        core.trace("clients", a.clients)
        # the driver walks number_of_steps = len(join_points) - 1 steps and reads tasks_per_joinpoint[current_step]
        steps = len(a.join_points) - 1
        observe("every step the driver walks has a progress entry", all(0 <= s < len(a.tasks_per_joinpoint) for s in range(steps)))
    except Exception:  # noqa: BLE001 - already reported by check_allocator
        pass


def driver_steps(sl):
    """the real Driver.start_benchmark walks exactly one step per schedule element and has a progress entry for each"""
    from harness import actors

    schedule = [build_element(i, sl) for i in range(len(sl["shape"]))]
    s = actors.build_driver(schedule, cores=concrete(fresh_int("cores", 1, 3)))
    s.D.quiet = False
    printed = []

    class Progress:
        def print(self, msg, progress):
            printed.append(msg)

        def finish(self):
            pass

    s.D.progress_reporter = Progress()
    try:
        s.fire(s.enabled()[0])  # StartBenchmark -> Driver.start_benchmark
    except Exception as e:  # noqa: BLE001
        core.note("start_benchmark raised", repr(e))
        observe("the driver can start every schedule", False)
        return
    D = s.D
    failures = [m for q in s.chan.values() for _, m in q if type(m).__name__ == "BenchmarkFailure"]
    observe("the driver can start every schedule", not failures)
    core.trace("steps", D.number_of_steps)
    observe("the race walks exactly one step per schedule element", D.number_of_steps == len(schedule))
    observe("one progress entry per step", len(D.tasks_per_join_point) == D.number_of_steps)
    for step in range(D.number_of_steps):
        D.current_step = step
        try:
            D.update_progress_message()
            ok = True
        except Exception as e:  # noqa: BLE001
            core.note("update_progress_message raised at step %d" % step, repr(e))
            ok = False
        observe("progress can be reported for every step the race walks through", ok)
        if ok and step < len(D.tasks_per_join_point):
            names = sorted(t.name for t in schedule[step])
            observe("the progress message names the tasks of that step", printed and all(n in printed[-1] for n in names))
    clients = sorted(c for cs in D.clients_per_worker for c in [cs])
    observe("every client is assigned to exactly one worker", clients == list(range(max([1] + [e.clients for e in schedule]))))
    observe("workers are created only for non-empty client sets", len(D.workers) == len(set(D.clients_per_worker.values())))


def worker_assignments(sl):
    nh = sl["hosts"]
    hosts = [{"host": "h%d" % i, "cores": concrete(fresh_int("cores%d" % i, 1, sl["max_cores"]))} for i in range(nh)]
    n = fresh_int("clients", 1, sl["max_clients"])
    with shadowed(driver, ("int",), extra={"math": core.math_shadow, "min": core.sx_min}):
        try:
            out = driver.calculate_worker_assignments(hosts, n)
        except AssertionError:
            observe("the function's own assertion (remaining_clients == 0) never fires", False)
            return
    nn = concrete(n)
    core.note("hosts", hosts)
    core.note("clients", nn)
    core.note("assignment", [[list(w) for w in h["workers"]] for h in out])
    flat = [c for h in out for w in h["workers"] for c in w]
    core.trace("n", len(flat))
    observe("client ids 0..n-1 exactly once, in order (contiguous ranges)", flat == list(range(nn)))
    observe("one entry per host, in order", [h["host"] for h in out] == [h["host"] for h in hosts])
    for h, cfg in zip(out, hosts):
        sizes = [len(w) for w in h["workers"]]
        observe("at most one worker per core", len(h["workers"]) <= cfg["cores"])
        nonempty = [s for s in sizes if s > 0]
        observe("worker loads on a host differ by at most one client", (max(sizes) - min(sizes) <= 1) if sizes else True)
        observe("no worker is skipped before a loaded one", sizes == sorted(sizes, reverse=True))
        del nonempty


READS = [driver.Allocator.allocations, driver.Allocator.join_points, driver.Allocator.tasks_per_joinpoint, driver.Allocator.clients,
         track.Parallel.clients, driver.calculate_worker_assignments, driver.JoinPoint, driver.TaskAllocation]


def _alloc_slices(tier):
    mc, ms = (3, 3) if tier == "quick" else (4, 4)
    full = [("full", 0, 0), ("full", 2, 0)] + [("full", 1, k) for k in range(1, ms + 1)]
    small = [("small", 0, 0), ("small", 2, 0), ("small", 1, 2)]
    out = [{"shape": [f], "max_clients": mc, "_w": f[2]} for f in full]
    for f in full:
        for g in small:
            out.append({"shape": [f, g], "max_clients": mc if f[2] < ms else mc - 1, "_w": f[2] + 1})
            out.append({"shape": [g, f], "max_clients": mc if f[2] < ms else mc - 1, "_w": f[2] + 1})
    for g1 in small:
        for g2 in small:
            for g3 in small:
                out.append({"shape": [g1, g2, g3], "max_clients": 2, "_w": 2})
    return out


def _host_slices(tier):
    if tier == "quick":
        return [{"hosts": h, "max_cores": 4 if h < 3 else 3, "max_clients": 16 if h < 3 else 12, "_w": h} for h in (1, 2, 3)] + [
            {"hosts": 4, "max_cores": 2, "max_clients": 9, "_w": 4}]
    return [{"hosts": h, "max_cores": 4, "max_clients": 32 if h < 3 else 20, "_w": h} for h in (1, 2, 3)] + [{"hosts": 4, "max_cores": 3, "max_clients": 14, "_w": 5}]


def parallel_client_count(sl):
    """track.Parallel.clients: the cap if one is given, else the sum over the sub-tasks the element holds NOW (task filters remove
    sub-tasks after construction); the allocator hands out exactly that many client rows for it"""
    n = concrete(fresh_int("sub_tasks", 1, 3))
    cl = [concrete(fresh_int("clients_of_sub_task%d" % i, 1, 3)) for i in range(n)]
    cap = [None, 1, 2, 5][concrete(fresh_int("cap_none_1_2_5", 0, 3))]
    subs = [track.Task("s%d" % i, track.Operation("op%d" % i, "bulk"), clients=cl[i]) for i in range(n)]
    par = track.Parallel(list(subs), clients=cap)
    observe("as constructed: the cap, else the sum of the sub-tasks' clients", par.clients == (cap if cap is not None else sum(cl)))
    removed = [i for i in range(n) if bool(fresh_int("remove_sub_task%d" % i, 0, 1) == 1)]
    if len(removed) == n:
        removed = removed[1:]  # an emptied element is dropped by the filter (C11)
    for i in removed:
        par.remove_task(subs[i])
    left = [c for i, c in enumerate(cl) if i not in removed]
    core.trace("left", len(left))
    observe("after sub-tasks were removed: the cap, else the sum over the remaining sub-tasks", par.clients == (cap if cap is not None else sum(left)))
    alloc = driver.Allocator([par])
    observe("the allocator provisions exactly that many clients", alloc.clients == max(1, par.clients) and len(alloc.allocations) == alloc.clients)
    if cap is None:
        tas = [x for row in alloc.allocations for x in row if isinstance(x, driver.TaskAllocation)]
        observe("no phantom clients: every client row of an uncapped element runs a sub-task", len(tas) == sum(left)
                and all(any(isinstance(x, driver.TaskAllocation) for x in row) for row in alloc.allocations))


HARNESSES = [
    Harness("allocation_matrix", allocation_matrix, "bounded-exhaustive", _alloc_slices, reads=READS,
            bounds={"elements": "1 full-family element; 2 elements = full x small family in both orders; 3 small-family elements",
                    "full family": "task with 1..4 (5) clients | empty parallel | parallel of 1..3 (4) sub-tasks x 1..3 (4) clients, cap none/1/2/5, completed-by none/any/first/last",
                    "small family": "task with 1..4 clients | empty parallel | parallel of 2 sub-tasks x 1..2 clients, cap none/1"},
            doc="rectangular matrix, aligned join points, exactly-once client indices, steps == progress entries"),
    Harness("driver_steps", driver_steps, "bounded-exhaustive",
            lambda tier: [sl for sl in _alloc_slices(tier) if len(sl["shape"]) <= 2 and not (len(sl["shape"]) == 2 and sl["shape"][0][2] + sl["shape"][1][2] > 3)],
            reads=READS + [driver.Driver.start_benchmark, driver.Driver.update_progress_message],
            stubs=["fake actor runtime, metrics store / telemetry stubs (the Driver's coordination logic is real)"],
            bounds={"schedules": "the 1- and 2-element families of allocation_matrix", "cores": "1..3"},
            doc="Driver.start_benchmark: steps == schedule elements == progress entries; progress message defined for every step"),
    Harness("parallel_client_count", parallel_client_count, "bounded-exhaustive", lambda tier: [{}], reads=READS + [accessor(track.Parallel.clients), track.Parallel.remove_task],
            bounds={"sub-tasks": "1..3 with 1..3 clients", "cap": "none/1/2/5", "removed": "any proper subset"},
            doc="parallel client count follows the sub-tasks the element currently holds"),
    Harness("worker_assignments", worker_assignments, "bounded-exhaustive", _host_slices, reads=READS,
            bounds={"hosts": "1..4", "cores per host": "1..4", "clients": "1..16 quick / 1..32 thorough"},
            doc="exact contiguous partition of client ids, <=1 worker per core, balanced workers"),
]
