"""Virtual execution environment for the load-generator coroutines (C04, C05, C18): symbolic clock, fake asyncio.sleep,
hand-driven coroutines, stub runner/client.  Every perf_counter() read advances the clock by a fresh symbolic d >= 0, so
all non-negative latencies / overheads / timer slacks are covered."""
import elastic_transport
import elasticsearch

from esrally.client import context as client_context

from symx import core
from symx.core import fresh_real


class Clock:
    def __init__(self, prefix="dt", wall_steps=False):
        # wall_steps: the wall clock (time.time) may be stepped by any amount, forwards or backwards, between two reads (NTP correction,
        # manual change); only the monotonic clock (perf_counter) never goes back. Durations must not be taken from the wall clock.
        self.wall_steps = wall_steps
        self.now = fresh_real("%s_t0" % prefix, 0)
        self.wall = fresh_real("%s_wall0" % prefix, 0)
        self.t0, self.wall0 = self.now, self.wall  # the two clocks advance together: wall - wall0 == now - t0
        self.n = 0
        self.prefix = prefix
        self.reads = []
        self.sleeps = []

    def tick(self, why=""):
        d = fresh_real("%s%d" % (self.prefix, self.n), 0)
        self.n += 1
        self.now = self.now + d
        self.wall = self.wall + d
        if self.wall_steps:
            self.wall = self.wall + fresh_real("%s_wall_clock_step%d" % (self.prefix, self.n))
        return self.now

    def perf_counter(self):
        t = self.tick()
        self.reads.append(t)
        return t

    def time(self):
        self.tick()
        return self.wall

    def time_ns(self):
        clock = self

        class T:
            perf_counter = staticmethod(clock.perf_counter)
            time = staticmethod(clock.time)

            @staticmethod
            def sleep(x):
                clock.sleeps.append(x)
                clock.now = clock.now + x
                clock.wall = clock.wall + x

        return T

    def asyncio_ns(self, real_asyncio=None):
        clock = self

        class A:
            @staticmethod
            async def sleep(x):
                # returns at or after now + x (timer slack is a fresh d >= 0 at the next clock read)
                clock.sleeps.append((clock.now, x))
                clock.now = clock.now + x
                clock.wall = clock.wall + x

            def __getattr__(self, name):
                return getattr(real_asyncio, name)

        return A()


def drive(coro):
    """runs a coroutine whose awaits never suspend; returns ("ret", value) / ("raise", exc)"""
    try:
        coro.send(None)
    except StopIteration as e:
        return "ret", e.value
    except Exception as e:  # noqa: BLE001 - outcome under test
        return "raise", e
    coro.close()
    raise RuntimeError("coroutine suspended: something real was awaited")


class Client(client_context.RequestContextHolder):
    """the part of the ES client the executor touches"""


def api_meta(status):
    return elastic_transport.ApiResponseMeta(status=status, http_version="1.1", headers=elastic_transport.HttpHeaders(), duration=0.0,
                                             node=elastic_transport.NodeConfig("http", "localhost", 9200))


# runner outcome classes
R_DICT, R_DICT_FAIL, R_TUPLE, R_NONE, R_API, R_TRANSPORT, R_TIMEOUT, R_CONN, R_KEYERROR = range(9)
R_NAMES = ["dict", "dict success=False", "tuple", "None", "ApiError", "TransportError(TlsError)", "ConnectionTimeout", "ConnectionError",
           "KeyError"]


class StubRunner:
    """calls on_request_start/on_request_end on the client like the real transport does, then returns / raises"""

    def __init__(self, es, outcome_fn, wire_requests=1, nested=False):
        self.nested = nested  # issue the wire requests (and fail) inside a nested request context, as composite sub-requests do
        self.es = es
        self.outcome_fn = outcome_fn
        self.calls = 0
        self.wire = []  # (start, end) per call as read from the clock
        self.completed = None
        self.percent_completed = None
        self.wire_requests = wire_requests

    async def __aenter__(self):
        return self

    async def __aexit__(self, *a):
        return False

    async def __call__(self, es, params):
        if self.nested:
            with es["default"].new_request_context():
                return await self._call(es, params)
        return await self._call(es, params)

    async def _call(self, es, params):
        i = self.calls
        self.calls += 1
        c = es["default"]
        first, last = None, None
        for _ in range(self.wire_requests):
            c.on_request_start()
            s = c.request_context.get().get("request_start")
            if first is None:
                first = s
            c.on_request_end()
            last = c.request_context.get().get("request_end")
        self.wire.append((first, last))
        kind = self.outcome_fn(i)
        if kind == R_DICT:
            return {"weight": 7, "unit": "docs", "took": 1}
        if kind == R_DICT_FAIL:
            return {"weight": 3, "unit": "docs", "success": False, "error-type": "bulk"}
        if kind == R_TUPLE:
            return (5, "pages")
        if kind == R_NONE:
            return None
        if kind == R_API:
            # the message of an API error is whatever the response body carried as "error": Elasticsearch sends an object with a "type"
            # (the client turns that into a string), gateways and proxies send other shapes that arrive as they are
            message = ["boom", {"code": 502, "message": "bad gateway"}, None][i % 3]
            raise elasticsearch.ApiError(message, api_meta(500), {"error": message})
        if kind == R_TRANSPORT:
            raise elastic_transport.TlsError("tls", errors=())
        if kind == R_TIMEOUT:
            raise elasticsearch.ConnectionTimeout("timeout", errors=())
        if kind == R_CONN:
            raise elasticsearch.ConnectionError("refused", errors=())
        raise KeyError("missing-param")

    def __str__(self):
        return "stub-runner"


def lazy_kind(prefix, n_kinds):
    cache = {}

    def kinds(i):
        if i not in cache:
            k = core.fresh_int("%s%d" % (prefix, i), 0, n_kinds - 1)
            cache[i] = n_kinds - 1
            for c in range(n_kinds - 1):
                if k == c:
                    cache[i] = c
                    break
        return cache[i]

    kinds.cache = cache
    return kinds
