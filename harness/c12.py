"""C12 — cluster engine start/stop is all-or-nothing across hosts and reports failures (DESIGN §4 C12).

Deciding step: one-event harnesses on the real MechanicActor / Dispatcher / NodeMechanicActor (fake actor runtime) from solver-enumerated
actor states; the real Mechanic.start_engine / stop_engine run with recording supplier / provisioners / launcher.  Closed runs on
the fake runtime (any order of daemon joins, acknowledgements, one start failure or departure) are auxiliary."""
import collections
import time

import thespian.actors as ta

from esrally import actor, exceptions
from esrally.mechanic import mechanic, provisioner

from harness import actors
from harness.common import concrete
from symx import core
from symx.core import fresh_bool, fresh_int, observe, shadowed
from symx.explore import Harness

PROPERTY = "C12"
EXPLANATION = ("C12: one-event harnesses from solver-enumerated states of the real MechanicActor (status, number of expected hosts, "
               "acknowledgements already counted, placeholders replaced), Dispatcher (which remote daemons are still awaited, start messages "
               "pending) and NodeMechanicActor (start/stop with a mechanic that fails at a solver-chosen step), plus the real "
               "Mechanic.start_engine/stop_engine on recording collaborators: EngineStarted/EngineStopped exactly once after the last "
               "acknowledgement, failures and daemon departures reported to race control, external clusters never touched.")

CALLS = []


class Hosts:
    def __init__(self, h):
        self.default = h


class Cfg:
    def __init__(self, hosts, preserve=False):
        self.hosts = hosts
        self.preserve = preserve

    def opts(self, s, k, mandatory=True, default_value=None):
        if (s, k) == ("client", "hosts"):
            return Hosts(self.hosts)
        if (s, k) == ("mechanic", "preserve.install"):
            return self.preserve
        if (s, k) == ("mechanic", "repository.revision"):
            return "rev-1"
        return default_value

    def add(self, *a):
        pass


class Node:
    def __init__(self, name):
        self.node_name = name


class NodeConfig:
    def __init__(self, name):
        self.binary_path = "/install/" + name
        self.data_paths = ["/install/%s/data" % name]
        self.name = name


class Launcher:
    def __init__(self, fail_at=None, who=""):
        self.fail_at = fail_at
        self.who = who

    def start(self, node_configs):
        CALLS.append(("launch", self.who, tuple(c.name for c in node_configs)))
        if self.fail_at == "launch":
            raise exceptions.LaunchError("node did not start")
        if self.fail_at == "launch-process-gone":
            # Elasticsearch wrote its pid file and died at once: attaching telemetry to the pid fails with an exception of a
            # third-party library (it can be pickled but not unpickled)
            import psutil

            raise psutil.NoSuchProcess(4711)
        return [Node(c.name) for c in node_configs]

    def stop(self, nodes, metrics_store):
        CALLS.append(("stop", self.who, tuple(n.node_name for n in nodes)))
        if STOP_FAILS:
            raise exceptions.LaunchError("could not stop the node")


class Provisioner:
    def __init__(self, name, fail_at=None):
        self.name = name
        self.fail_at = fail_at

    def prepare(self, binaries):
        CALLS.append(("prepare", self.name))
        if self.fail_at == "prepare":
            raise exceptions.SystemSetupError("cannot provision")
        return NodeConfig(self.name)


class MetricsStore:
    def __init__(self, cfg=None):
        pass

    def open(self, ctx=None):
        pass

    def flush(self, refresh=False):
        CALLS.append(("flush", refresh))

    def close(self):
        CALLS.append(("close-metrics",))

    def reset_relative_time(self):
        pass


FAIL = {}  # ip -> step at which the node's mechanic fails
STOP_FAILS = []  # non-empty: the launcher fails to stop the nodes


def fake_create(cfg, metrics_store, node_ip, node_http_port, all_node_ips, all_node_ids, sources=False, distribution=False, external=False, docker=False):
    """stands for mechanic.create: the REAL Mechanic on recording collaborators"""
    node_ids = CREATE_IDS.get((node_ip, node_http_port), [0])
    fail_at = FAIL.get(node_ip)

    def supply():
        CALLS.append(("supply", node_ip))
        if fail_at == "supply":
            raise exceptions.SupplyError("cannot download")
        return {"elasticsearch": "/dist.tar.gz"}

    m = mechanic.Mechanic(cfg, MetricsStore(), supply, [Provisioner("%s-%s-n%d" % (node_ip, node_http_port, i), fail_at) for i in node_ids],
                          Launcher(fail_at, "%s:%s" % (node_ip, node_http_port)))
    m._current_race = lambda: _Race()
    m._add_results = lambda race, node: CALLS.append(("store-system-metrics", node.node_name))
    return m


class _Race:
    pass


CREATE_IDS = {}


def cleanup_recorder(preserve, install_dir, data_paths):
    CALLS.append(("cleanup", install_dir, preserve))


class _Config:
    Scope = mechanic.config.Scope

    @staticmethod
    def auto_load_local_config(cfg, additional_sections=None):
        return cfg


class _Paths:
    @staticmethod
    def rally_root():
        return "/rally"


class _Metrics:
    @staticmethod
    def metrics_store_class(cfg):
        return MetricsStore


class _Net:
    @staticmethod
    def resolve(h):
        return h


class _Console:
    @staticmethod
    def info(*a, **k):
        pass


class _Prov:
    cleanup = staticmethod(cleanup_recorder)


def env():
    return shadowed(mechanic, (), extra={"create": fake_create, "config": _Config, "paths": _Paths, "metrics": _Metrics, "net": _Net, "console": _Console,
                                         "load_team": lambda cfg, external: (None, []), "provisioner": _Prov})


def new_system():
    CALLS.clear()
    FAIL.clear()
    del STOP_FAILS[:]
    CREATE_IDS.clear()
    s = actors.System()
    s.rc_addr = s.create(actors.Endpoint)
    s.rc = s.actors[s.rc_addr.addressDetails]
    return s


def sends(s, frm=None):
    return [((a, b), type(m).__name__, m) for (a, b, m) in s.sent if frm is None or a == frm]


# ------------------------------------------------------------------------------------------------------------------
# M1 MechanicActor
# ------------------------------------------------------------------------------------------------------------------
def mechanic_ack(sl):
    """NodesStarted / NodesStopped arriving at a MechanicActor that expects n hosts and has counted k acknowledgements"""
    s = new_system()
    n = concrete(fresh_int("expected_hosts", 1, sl["max_hosts"]))
    k = concrete(fresh_int("acknowledgements_counted", 0, n - 1))
    phase = sl["phase"]
    m_addr = s.create(mechanic.MechanicActor, parent=s.rc_addr)
    m = s.actors[m_addr.addressDetails]
    m.race_control = s.rc_addr
    m.team_revision = "rev-1"
    kids = [s.create(actors.Endpoint, parent=m_addr) for _ in range(n)]
    if phase == "starting":
        m.status = "starting"
        m.children = list(reversed(kids[:k])) + [None] * (n - k)  # placeholders are replaced as hosts report
        m.received_responses = [mechanic.NodesStarted()] * k
        msg, sender = mechanic.NodesStarted(), kids[k]
    else:
        m.status = "cluster_stopping"
        m.children = list(kids)
        m.received_responses = [mechanic.NodesStopped()] * k
        msg, sender = mechanic.NodesStopped(), kids[k]
    n0 = len(s.sent)
    with env():
        m.receiveMessage(msg, sender)
    new = sends(s)[n0:]
    to_rc = [x[1] for x in new if x[0][1] == s.rc_addr.addressDetails]
    core.note("n, k", (n, k))
    core.note("sent", [(x[0], x[1]) for x in new])
    core.trace("n", n)
    last = k + 1 == n
    want = "EngineStarted" if phase == "starting" else "EngineStopped"
    observe("race control is told only after the LAST host acknowledged, exactly once", to_rc == ([want] if last else []))
    if phase == "starting":
        observe("status", m.status == ("cluster_started" if last else "starting"))
        observe("the reporting host is known afterwards", sender in m.children and len(m.children) == n)
        if last:
            observe("all hosts are known when the engine is reported as started", all(c is not None for c in m.children) and sorted(c.addressDetails for c in m.children) == sorted(c.addressDetails for c in kids))
    else:
        observe("status", m.status == ("cluster_stopped" if last else "cluster_stopping"))
        if last:
            exits = [x for x in new if x[1] == "ActorExitRequest"]
            observe("after the engine stopped every node actor is told to exit", sorted(x[0][1] for x in exits) == sorted(c.addressDetails for c in kids))
    observe("no failure is invented", "BenchmarkFailure" not in [x[1] for x in new])


def mechanic_stop(sl):
    s = new_system()
    n = concrete(fresh_int("hosts", 1, 3))
    external = bool(fresh_bool("externally_provisioned"))
    m_addr = s.create(mechanic.MechanicActor, parent=s.rc_addr)
    m = s.actors[m_addr.addressDetails]
    m.race_control = s.rc_addr
    m.externally_provisioned = external
    m.status = "cluster_started"
    kids = [] if external else [s.create(actors.Endpoint, parent=m_addr) for _ in range(n)]
    m.children = list(kids)
    n0 = len(s.sent)
    with env():
        m.receiveMessage(mechanic.StopEngine(), s.rc_addr)
    new = sends(s)[n0:]
    core.trace("n", n)
    if external:
        observe("an externally provisioned cluster is never stopped: immediate EngineStopped, no StopNodes", [x[1] for x in new] == ["EngineStopped"])
    else:
        stops = [x for x in new if x[1] == "StopNodes"]
        observe("every host is asked to stop its nodes exactly once", sorted(x[0][1] for x in stops) == sorted(c.addressDetails for c in kids))
        observe("not acknowledged before the hosts confirmed", "EngineStopped" not in [x[1] for x in new] and m.status == "cluster_stopping")


def mechanic_start(sl):
    s = new_system()
    external = bool(fresh_bool("externally_provisioned"))
    nh = concrete(fresh_int("target_hosts", 1, 3))
    # a further node on the first machine: none / under the same ip:port / under another port (a node mechanic of its own)
    extra = concrete(fresh_int("further_node_on_first_host_none_same_port_other_port", 0, 2)) if not external else 0
    hosts = [{"host": "10.0.0.%d" % i if i else "127.0.0.1", "port": 9200} for i in range(nh)]
    if extra:
        hosts.append({"host": "127.0.0.1", "port": 9200 if extra == 1 else 9201})
    awaited = nh + (1 if extra == 2 else 0)
    m_addr = s.create(mechanic.MechanicActor, parent=s.rc_addr)
    m = s.actors[m_addr.addressDetails]
    with env():
        m.receiveMessage(mechanic.StartEngine(Cfg(hosts), None, False, not external, external, False), s.rc_addr)
    new = sends(s)
    core.trace("hosts", nh)
    if external:
        observe("external cluster: EngineStarted at once, nothing created or started", [x[1] for x in new] == ["EngineStarted"] and len(s.actors) == 2 and not CALLS)
    else:
        observe("nothing is reported before the hosts acknowledged", "EngineStarted" not in [x[1] for x in new])
        observe("one acknowledgement per distinct host:port is awaited", len(m.children) == awaited and all(c is None for c in m.children) and m.status == "starting")
        disp = [a for a in s.actors.values() if isinstance(a, mechanic.Dispatcher)]
        observe("the start request goes to one dispatcher", len(disp) == 1 and [x[1] for x in new] == ["StartEngine"])


def mechanic_failures(sl):
    s = new_system()
    status = ["starting", "cluster_started", "cluster_stopping", "cluster_stopped"][concrete(fresh_int("status", 0, 3))]
    m_addr = s.create(mechanic.MechanicActor, parent=s.rc_addr)
    m = s.actors[m_addr.addressDetails]
    m.race_control = s.rc_addr
    m.status = status
    kid = s.create(actors.Endpoint, parent=m_addr)
    m.children = [kid, None]
    kind = sl["kind"]
    msg = {"BenchmarkFailure": actor.BenchmarkFailure("start failed", "tb"), "PoisonMessage(StartEngine)": ta.PoisonMessage(mechanic.StartEngine(None, None, 0, 0, 0, 0), "d"),
           "PoisonMessage(other)": ta.PoisonMessage(mechanic.StopNodes(), "details"), "ChildActorExited": ta.ChildActorExited(kid)}[kind]
    with env():
        m.receiveMessage(msg, kid)
    out = [x[1] for x in sends(s) if x[0][1] == s.rc_addr.addressDetails]
    core.trace("status", status)
    if kind == "ChildActorExited" and status in ("cluster_stopping", "cluster_stopped"):
        observe("a node actor exiting while the engine stops is expected", out == [])
    else:
        observe("race control gets a benchmark failure", out == ["BenchmarkFailure"])
    observe("never EngineStarted", "EngineStarted" not in out)


# ------------------------------------------------------------------------------------------------------------------
# M2 Dispatcher
# ------------------------------------------------------------------------------------------------------------------
def _layout():
    """symbolic target-host list: local host and/or up to two remote hosts, 1..2 nodes each, listed machine by machine or interleaved"""
    per_machine = []
    spec = []
    for name, ip in (("local", "127.0.0.1"), ("remoteA", "10.0.0.2"), ("remoteB", "10.0.0.3")):
        nn = concrete(fresh_int("nodes_on_%s" % name, 0, 2))
        per_machine.append([{"host": ip, "port": 9200 + (j if bool(fresh_bool("%s_node%d_other_port" % (name, j))) else 0)} for j in range(nn)])
        spec.append((ip, nn))
    if sum(1 for m in per_machine if len(m) == 2) >= 1 and sum(1 for m in per_machine if m) >= 2 and bool(fresh_bool("hosts_listed_interleaved_(a,b,a,b)")):
        hosts = [m[j] for j in range(2) for m in per_machine if len(m) > j]
    else:
        hosts = [h for m in per_machine for h in m]
    return hosts, spec


def dispatcher_start(sl):
    s = new_system()
    hosts, spec = _layout()
    if not hosts:
        return
    d_addr = s.create(mechanic.Dispatcher, parent=s.rc_addr)
    d = s.actors[d_addr.addressDetails]
    start = mechanic.StartEngine(Cfg(hosts), None, False, True, False, False)
    start.hosts = hosts
    with env():
        d.receiveMessage(start, s.rc_addr)
    pairs = collections.OrderedDict()
    for i, h in enumerate(hosts):
        pairs.setdefault((h["host"], h["port"]), []).append(i)
    remote_ips = sorted({ip for (ip, _) in pairs if ip != "127.0.0.1"})
    new = sends(s)
    starts = [x for x in new if x[1] == "StartNodes"]
    core.note("hosts", hosts)
    core.trace("hosts", len(hosts))
    if remote_ips:
        observe("with remote hosts nothing is started before their daemons joined", not starts)
        observe("the dispatcher waits for exactly the remote hosts and listens for daemons", sorted(d.remotes) == remote_ips and s.registration_listeners.get(d_addr.addressDetails) is True)
    else:
        observe("local only: every host:port gets its StartNodes at once", len(starts) == len(pairs))
    local_pairs = [p for p in pairs if p[0] == "127.0.0.1"]
    observe("one node actor per local host:port", len(d.pending if remote_ips else starts) == len(local_pairs))
    msgs = [m for (_, m) in (d.pending if remote_ips else [])] + [x[2] for x in starts] + [m for ms in d.remotes.values() for m in ms]
    observe("every host:port is covered by exactly one start message with its own node ids", sorted((m.ip, m.port, tuple(m.node_ids)) for m in msgs)
            == sorted((ip, port, tuple(ids)) for (ip, port), ids in pairs.items()))
    observe("all start messages know the whole cluster and reply to the requester",
            all(set(m.all_node_ids) == set(range(len(hosts))) and set(m.all_node_ips) == {h["host"] for h in hosts} and m.reply_to == s.rc_addr for m in msgs))


def dispatcher_convention(sl):
    """a convention update (daemon joined / left) in an arbitrary dispatcher state"""
    s = new_system()
    d_addr = s.create(mechanic.Dispatcher, parent=s.rc_addr)
    d = s.actors[d_addr.addressDetails]
    d.start_sender = s.rc_addr
    ips = ["10.0.0.2", "10.0.0.3"]
    awaited = [ip for ip in ips if bool(fresh_bool("still_waiting_for_%s" % ip.replace(".", "_")))]
    d.remotes = collections.defaultdict(list)
    for ip in awaited:
        d.remotes[ip] = [_start_nodes(ip, 9200 + j, [j]) for j in range(concrete(fresh_int("nodes_on_%s" % ip.replace(".", "_"), 1, 2)))]
    joined = [ip for ip in ips if ip not in awaited]
    d.pending = [(s.create(actors.Endpoint, parent=d_addr), _start_nodes(ip, 9200, [7])) for ip in joined]
    if bool(fresh_bool("local_node_pending")):
        d.pending.append((s.create(actors.Endpoint, parent=d_addr), _start_nodes("127.0.0.1", 9200, [8])))
    if not awaited:
        # all daemons have joined: everything was sent, the dispatcher no longer listens (not a state in which updates are delivered)
        return
    s.registration_listeners[d_addr.addressDetails] = True
    n_pending = len(d.pending)
    n_awaited_msgs = {ip: len(ms) for ip, ms in d.remotes.items()}
    who = ["10.0.0.2", "10.0.0.3", "10.0.0.99"][concrete(fresh_int("update_is_about", 0, 2))]
    added = bool(fresh_bool("daemon_joined"))
    upd = ta.ActorSystemConventionUpdate(ta.ActorAddress(900), {"ip": who}, added)
    n0 = len(s.sent)
    with env():
        try:
            d.receiveMessage(upd, ta.ActorAddress(0))
            escaped = None
        except Exception as e:  # noqa: BLE001 - would be retried and poisoned by thespian: nobody is told
            escaped = e
    new = sends(s)[n0:]
    core.note("awaited / update", (awaited, who, added))
    core.note("sent", [(x[0], x[1]) for x in new])
    core.trace("awaited", len(awaited))
    observe("the handler does not fail", escaped is None)
    to_rc = [x[1] for x in new if x[0][1] == s.rc_addr.addressDetails]
    starts = [x for x in new if x[1] == "StartNodes"]
    if not added:
        observe("a remote Rally daemon leaving during start-up is reported to the requester as a benchmark failure", to_rc == ["BenchmarkFailure"])
        observe("nothing is started after a departure", not starts)
    else:
        still = [ip for ip in awaited if ip != who]
        if still:
            observe("while a daemon is still missing nothing is started", not starts and sorted(k for k, v in d.remotes.items() if v) == sorted(still))
        else:
            observe("when the last awaited daemon joined every pending host:port is started exactly once",
                    len(starts) == n_pending + n_awaited_msgs[who] and d.pending == [] and len({x[0][1] for x in starts}) == len(starts))
        observe("no failure is invented for a joining daemon", "BenchmarkFailure" not in to_rc)


def _start_nodes(ip, port, ids):
    return mechanic.StartNodes(None, None, False, True, False, False, ["x"], [0], ip, port, ids)


# ------------------------------------------------------------------------------------------------------------------
# M3 NodeMechanicActor + real Mechanic
# ------------------------------------------------------------------------------------------------------------------
def node_start_stop(sl):
    s = new_system()
    n_addr = s.create(mechanic.NodeMechanicActor, parent=s.rc_addr)
    node = s.actors[n_addr.addressDetails]
    ip = "10.0.0.2"
    nn = concrete(fresh_int("nodes_on_this_host", 1, 2))
    CREATE_IDS[(ip, 9200)] = list(range(nn))
    fail = [None, "supply", "prepare", "launch", "launch-process-gone"][concrete(fresh_int("start_fails_at", 0, 4))]
    if fail:
        FAIL[ip] = fail
    preserve = bool(fresh_bool("preserve_install"))
    msg = mechanic.StartNodes(Cfg([], preserve), None, False, True, False, False, [ip], list(range(nn)), ip, 9200, list(range(nn)))
    via_reply_to = bool(fresh_bool("reply_to_set"))
    requester = s.create(actors.Endpoint)
    if via_reply_to:
        msg.reply_to = requester
    sender = s.rc_addr
    with env():
        node.receiveMessage(msg, sender)
    answer_to = requester if via_reply_to else sender
    out = [(x[0][1], x[1]) for x in sends(s)]
    core.note("calls", list(CALLS))
    core.trace("nodes", nn)
    if fail:
        observe("a start failure is reported as benchmark failure to the requester, never as NodesStarted", out == [(answer_to.addressDetails, "BenchmarkFailure")])
        return
    observe("NodesStarted exactly once, to the requester, after the engine started", out == [(answer_to.addressDetails, "NodesStarted")])
    observe("start order: supply, provision every node, launch all", [c[0] for c in CALLS] == ["supply"] + ["prepare"] * nn + ["launch"])
    started = [n.node_name for n in node.mechanic.nodes]
    observe("all nodes of the host are running", len(started) == nn)
    # stop
    CALLS.clear()
    n0 = len(s.sent)
    how = sl["stop"]
    if bool(fresh_bool("stopping_the_nodes_fails")):
        STOP_FAILS.append(True)
    with env():
        node.receiveMessage(mechanic.StopNodes() if how == "StopNodes" else ta.ActorExitRequest(), sender)
    out = [(x[0][1], x[1]) for x in sends(s)[n0:]]
    kinds = [c[0] for c in CALLS]
    core.note("stop calls", list(CALLS))
    if STOP_FAILS:
        observe("a host that could not stop its nodes does not confirm the stop; it reports a failure", "NodesStopped" not in [x[1] for x in out]
                and [x[1] for x in out] == ["BenchmarkFailure"])
        return
    observe("every started node is stopped exactly once", [c for c in CALLS if c[0] == "stop"] == [("stop", "%s:9200" % ip, tuple(started))])
    observe("stop order: stop nodes, flush, store system metrics per node, close, clean up",
            kinds == ["stop", "flush"] + ["store-system-metrics"] * nn + ["close-metrics"] + ["cleanup"] * nn)
    observe("clean-up honours preserve-install for every node", [c[2] for c in CALLS if c[0] == "cleanup"] == [preserve] * nn)
    if how == "StopNodes":
        observe("NodesStopped only after the engine was stopped", out == [(sender.addressDetails, "NodesStopped")])
    observe("the mechanic is released (a second stop does nothing)", node.mechanic is None)
    CALLS.clear()
    with env():
        node.receiveMessage(ta.ActorExitRequest(), sender)
    observe("nodes are never stopped twice", not CALLS)


# ------------------------------------------------------------------------------------------------------------------
# auxiliary closed runs
# ------------------------------------------------------------------------------------------------------------------
class ClosedMech:
    def __init__(self, hosts, fail_ip=None, leaving=None):
        self.s = new_system()
        s = self.s
        self.hosts = hosts
        if fail_ip:
            FAIL[fail_ip] = "launch"
        self.leaving = leaving
        self.left = False
        self.m_addr = s.create(mechanic.MechanicActor, parent=s.rc_addr)
        self.remote_ips = sorted({h["host"] for h in hosts if h["host"] != "127.0.0.1"})
        self.joined = set()
        self.stop_sent = False
        s.send(s.rc_addr, self.m_addr, mechanic.StartEngine(Cfg(hosts), None, False, True, False, False))
        self.calls_at_started = None

    def dispatcher(self):
        d = [(k, a) for k, a in self.s.actors.items() if isinstance(a, mechanic.Dispatcher)]
        return d[0] if d else (None, None)

    def enabled(self):
        s = self.s
        evs = [e for e in s.enabled() if e[0] == "msg"]
        dk, d = self.dispatcher()
        if d is not None and s.registration_listeners.get(dk):
            for ip in self.remote_ips:
                if ip not in self.joined and not (self.left and ip == self.leaving):
                    evs.append(("join", ip))
            if self.leaving and not self.left:
                evs.append(("leave", self.leaving))
        if not self.stop_sent and any(isinstance(m, mechanic.EngineStarted) for m in s.rc.got):
            evs.append(("stop-engine", 0))
        return evs

    def fire(self, ev):
        s = self.s
        with env():
            if ev[0] == "join":
                self.joined.add(ev[1])
                dk, d = self.dispatcher()
                s.trace.append("daemon on %s joins" % ev[1])
                s.deliver(dk, ta.ActorSystemConventionUpdate(ta.ActorAddress(900), {"ip": ev[1]}, True), ta.ActorAddress(0))
            elif ev[0] == "leave":
                self.left = True
                dk, d = self.dispatcher()
                s.trace.append("daemon on %s leaves" % ev[1])
                # the actors hosted by the departed daemon are gone with it
                for k, req in list(s.requirements.items()):
                    if req and req.get("ip") == ev[1] and k not in s.dead:
                        s.kill(k)
                s.deliver(dk, ta.ActorSystemConventionUpdate(ta.ActorAddress(900), {"ip": ev[1]}, False), ta.ActorAddress(0))
            elif ev[0] == "stop-engine":
                self.stop_sent = True
                s.trace.append("race control asks to stop the engine")
                s.send(s.rc_addr, self.m_addr, mechanic.StopEngine())
            else:
                s.fire(ev)
        got = [type(m).__name__ for m in s.rc.got]
        if "EngineStarted" in got and self.calls_at_started is None:
            self.calls_at_started = [c for c in CALLS if c[0] == "launch"]

    def check(self, final):
        s = self.s
        got = [type(m).__name__ for m in s.rc.got]
        pairs = {(h["host"], h["port"]) for h in self.hosts}
        if got.count("EngineStarted") > 1 or got.count("EngineStopped") > 1:
            return "EngineStarted / EngineStopped reported more than once"
        if "EngineStarted" in got:
            launched = {c[1] for c in (self.calls_at_started or [])}
            if launched != {"%s:%s" % p for p in pairs}:
                return "EngineStarted before every host started its nodes (started: %s)" % sorted(launched)
            if FAIL or self.left:
                return "EngineStarted although a host failed to start / a daemon left"
        if "EngineStopped" in got:
            stops = [c for c in CALLS if c[0] == "stop"]
            if sorted(c[1] for c in stops) != sorted("%s:%s" % p for p in pairs):
                return "EngineStopped but hosts stopped were %s" % sorted(c[1] for c in stops)
        if final:
            if (FAIL or self.left) and "BenchmarkFailure" not in got:
                return "hang: a start failure / daemon departure never reached race control (got %s)" % got
            if not FAIL and not self.left and not (got.count("EngineStarted") == 1 and got.count("EngineStopped") == 1):
                return "hang: fault-free start/stop did not complete (got %s)" % got
        return None

    def fingerprint(self):
        s = self.s
        ch = tuple((k, tuple(type(m).__name__ for _, m in q)) for k, q in sorted(s.chan.items()) if q)
        st = tuple((k, type(a).__name__, getattr(a, "status", None), len(getattr(a, "received_responses", []) or []),
                    tuple(None if c is None else c.addressDetails for c in getattr(a, "children", []) or [])) for k, a in sorted(s.actors.items()))
        return hash((ch, st, tuple(sorted(self.joined)), self.left, self.stop_sent, tuple(CALLS), tuple(type(m).__name__ for m in s.rc.got)))


def explore_mech(hosts, fail_ip, leaving, deadline, max_states=50000):
    visited = set()
    stack = [[]]
    transitions = 0
    violation = None
    exhaustive = True

    def replay(path):
        c = ClosedMech(hosts, fail_ip, leaving)
        for i in path:
            c.fire(c.enabled()[i])
        return c

    while stack:
        path = stack.pop()
        c = replay(path)
        evs = c.enabled()
        if not evs:
            v = c.check(final=True)
            if v and violation is None:
                violation = (v, path, list(c.s.trace))
            continue
        for i in range(len(evs)):
            c2 = replay(path + [i])
            transitions += 1
            fp = c2.fingerprint()
            if fp in visited:
                continue
            visited.add(fp)
            v = c2.check(final=False)
            if v and violation is None:
                violation = (v, path + [i], list(c2.s.trace))
            stack.append(path + [i])
        if time.time() > deadline or len(visited) > max_states:
            exhaustive = False
            break
    return {"states": len(visited), "transitions": transitions, "violation": violation, "exhaustive": exhaustive}


LAYOUTS = {
    "local": [{"host": "127.0.0.1", "port": 9200}],
    "local+remote": [{"host": "127.0.0.1", "port": 9200}, {"host": "10.0.0.2", "port": 9200}],
    "two remotes, two nodes on one": [{"host": "10.0.0.2", "port": 9200}, {"host": "10.0.0.3", "port": 9200}, {"host": "10.0.0.3", "port": 9201}],
    "local x2 + remote": [{"host": "127.0.0.1", "port": 9200}, {"host": "127.0.0.1", "port": 9201}, {"host": "10.0.0.2", "port": 9200}],
}


def closed_mechanic_runs(tier, deadline):
    t0 = time.time()
    out = {"name": "closed_mechanic_runs", "kind": "auxiliary explicit-state exploration of the real mechanic actors with state hashing", "states": 0, "transitions": 0,
           "evaluations": 0, "distinct_nontrivial": 0, "exhaustive": True, "violations": [], "errors": [], "runs": {}}
    combos = []
    for name, hosts in LAYOUTS.items():
        ips = sorted({h["host"] for h in hosts})
        combos.append((name, None, None))
        for ip in ips:
            combos.append((name, ip, None))
        for ip in ips:
            if ip != "127.0.0.1":
                combos.append((name, None, ip))
    per = max(2.0, (deadline - t0 - 5) / len(combos))
    for name, fail_ip, leaving in combos:
        r = explore_mech(LAYOUTS[name], fail_ip, leaving, min(deadline, time.time() + per))
        out["states"] += r["states"]
        out["transitions"] += r["transitions"]
        out["runs"]["%s / fail=%s / leaves=%s" % (name, fail_ip, leaving)] = {"states": r["states"], "exhaustive": r["exhaustive"]}
        if r["violation"]:
            text, path, trace = r["violation"]
            out["violations"].append({"inputs": {"layout": name, "fail_ip": fail_ip, "leaving": leaving, "schedule": path}, "failed": [text],
                                      "slice": {"layout": name}, "trace": trace[-30:]})
    out["evaluations"] = out["transitions"]
    out["distinct_nontrivial"] = out["states"]
    out["wall_s"] = round(time.time() - t0, 1)
    return out


def _replay_mech(entry):
    i = entry["inputs"]
    c = ClosedMech(LAYOUTS[i["layout"]], i["fail_ip"], i["leaving"])
    bad = None
    for j in i["schedule"]:
        evs = c.enabled()
        if j >= len(evs):
            return True, "schedule no longer applies"
        c.fire(evs[j])
        bad = bad or c.check(final=False)
    if not c.enabled():
        bad = bad or c.check(final=True)
    return bad is None, "%s:\n  %s\n  -> %s" % (i["layout"], "\n  ".join(c.s.trace[-30:]), bad or "no violation")


AUX = [closed_mechanic_runs]
AUX_REPLAY = {"closed_mechanic_runs": _replay_mech}

def launcher_stop(sl):
    """the real ProcessLauncher.stop on 1..2 nodes whose processes are alive, already gone, vanish while being stopped or need a kill:
    every node is handled exactly once (telemetry detached around the stop if the process was there; system metrics stored in any case)"""
    from esrally.mechanic import launcher

    n = sl["nodes"]
    with_store = bool(fresh_bool("metrics_store_given"))
    calls = []
    ALIVE, GONE, VANISHES_ON_TERMINATE, NEEDS_KILL, VANISHES_ON_KILL = range(5)
    fate = [concrete(fresh_int("fate_of_process_%d" % i, 0, 4)) for i in range(n)]

    class NoSuchProcess(Exception):
        pass

    class TimeoutExpired(Exception):
        pass

    class Proc:
        def __init__(self, pid):
            self.pid = pid
            self.i = pid - 100
            if fate[self.i] == GONE:
                raise NoSuchProcess()

        def terminate(self):
            calls.append(("terminate", self.i))
            if fate[self.i] == VANISHES_ON_TERMINATE:
                raise NoSuchProcess()

        def wait(self, t):
            if fate[self.i] in (NEEDS_KILL, VANISHES_ON_KILL):
                raise TimeoutExpired()

        def kill(self):
            calls.append(("kill", self.i))
            if fate[self.i] == VANISHES_ON_KILL:
                raise NoSuchProcess()

    class Psutil:
        Process = Proc

    Psutil.NoSuchProcess = NoSuchProcess
    Psutil.TimeoutExpired = TimeoutExpired

    class Tel:
        def __init__(self, i):
            self.i = i

        def detach_from_node(self, node, running):
            calls.append(("detach", self.i, running))

        def store_system_metrics(self, node, store):
            calls.append(("store_system_metrics", self.i))

    class TelNs:
        @staticmethod
        def add_metadata_for_node(store, node_name, host_name):
            calls.append(("metadata", node_name))

    class Watch:
        def start(self):
            pass

        def split_time(self):
            return 1.0

    class Clk:
        @staticmethod
        def stop_watch():
            return Watch()

    class Node:
        def __init__(self, i):
            self.node_name, self.host_name, self.pid, self.telemetry = "node-%d" % i, "host", 100 + i, Tel(i)

    nodes = [Node(i) for i in range(n)]
    pl = launcher.ProcessLauncher(actors.Cfg(), clock=Clk)
    with shadowed(launcher, (), extra={"psutil": Psutil, "telemetry": TelNs}):
        try:
            stopped = pl.stop(nodes, object() if with_store else None)
        except Exception as e:  # noqa: BLE001
            core.note("stop raised", repr(e))
            observe("stopping does not fail whatever happened to the processes", False)
            return
    core.trace("calls", len(calls))
    core.note("fates", fate)
    core.note("calls", calls)
    for i in range(n):
        mine = [c for c in calls if c[1] == i]
        was_there = fate[i] != GONE
        observe("node %d: a process that is there is told to terminate exactly once, one that is gone never" % i, mine.count(("terminate", i)) == (1 if was_there else 0))
        observe("node %d: killed exactly when it did not terminate in time" % i, mine.count(("kill", i)) == (1 if fate[i] in (NEEDS_KILL, VANISHES_ON_KILL) else 0))
        observe("node %d: telemetry detached before and after the stop iff the process was there" % i,
                [c[2] for c in mine if c[0] == "detach"] == ([True, False] if was_there else []))
        observe("node %d: system metrics are stored exactly once whenever a metrics store is given, also for a node whose process is already gone" % i,
                mine.count(("store_system_metrics", i)) == (1 if with_store else 0))
        if with_store and was_there:
            observe("node %d: system metrics stored after the node was stopped" % i, mine.index(("store_system_metrics", i)) > mine.index(("detach", i, False)))
        observe("node %d: reported as stopped iff Rally ended the process" % i, (nodes[i] in stopped) == (fate[i] in (ALIVE, NEEDS_KILL)))
    observe("nodes are handled in order, one after the other", [c[1] for c in calls if c[0] != "metadata"] == sorted(c[1] for c in calls if c[0] != "metadata"))


def launcher_partial_start(sl):
    """the real ProcessLauncher.start for 1..3 nodes on one host where the launch of node k fails (per-node launch stubbed): a node that was
    already launched when the start fails must not be left running - nobody gets to know it, so nobody would ever stop it"""
    from esrally.mechanic import launcher

    n = sl["nodes"]
    fail_at = concrete(fresh_int("launch_of_node_k_fails_(n_=_none)", 0, n))
    running, calls = set(), []

    class NoSuchProcess(Exception):
        pass

    class TimeoutExpired(Exception):
        pass

    class Proc:
        def __init__(self, pid):
            self.pid = pid
            if pid not in running:
                raise NoSuchProcess()

        def terminate(self):
            calls.append(("terminate", self.pid))
            running.discard(self.pid)

        def wait(self, t):
            pass

        def kill(self):
            running.discard(self.pid)

    class Psutil:
        Process = Proc

    Psutil.NoSuchProcess, Psutil.TimeoutExpired = NoSuchProcess, TimeoutExpired

    class Tel:
        def detach_from_node(self, node, running):
            pass

        def store_system_metrics(self, node, store):
            pass

    class TelNs:
        @staticmethod
        def add_metadata_for_node(store, node_name, host_name):
            pass

    class Watch:
        def start(self):
            pass

        def split_time(self):
            return 1.0

    class Clk:
        @staticmethod
        def stop_watch():
            return Watch()

    class Node:
        def __init__(self, i):
            self.node_name, self.host_name, self.pid, self.telemetry = "node-%d" % i, "host", 100 + i, Tel()

    pl = launcher.ProcessLauncher(actors.Cfg(), clock=Clk)
    launched = []

    def start_node(node_configuration, node_count_on_host):
        i = node_configuration
        if i == fail_at:
            raise exceptions.LaunchError("node %d did not start" % i)
        running.add(100 + i)
        launched.append(i)
        return Node(i)

    pl._start_node = start_node
    with shadowed(launcher, (), extra={"psutil": Psutil, "telemetry": TelNs}):
        try:
            nodes = pl.start(list(range(n)))
            how = "ret"
        except exceptions.LaunchError:
            nodes, how = None, "raise"
    core.trace("launched", len(launched))
    core.note("launched / still running", (launched, sorted(running)))
    if fail_at == n:
        observe("all nodes launched: all of them are handed to the caller (who stops them later)", how == "ret" and [x.pid for x in nodes] == [100 + i for i in range(n)]
                and running == {100 + i for i in range(n)})
    else:
        observe("a failing launch fails the start", how == "raise")
        observe("no node that was launched before the failure is left running (the caller never gets a handle to stop it)", not running)
        observe("nodes are launched in order up to the failing one", launched == list(range(fail_at)))


def local_host_names(sl):
    """a target host may be given by name: the REAL net.resolve (socket stubbed) + to_ip_port + Dispatcher. A name that only resolves to
    loop-back addresses ("localhost", the help text's own example) is this machine: its nodes are started like those of 127.0.0.1, the
    dispatcher does not wait for a remote daemon that can never join"""
    import socket as real_socket

    from esrally.utils import net as real_net

    table = {"localhost": ["127.0.0.1"], "es-node-1": ["10.0.0.2"], "debian-style-host": ["127.0.1.1", "10.0.0.5"], "127.0.0.1": ["127.0.0.1"]}

    class Sock:
        IPPROTO_TCP = real_socket.IPPROTO_TCP
        AddressFamily = real_socket.AddressFamily
        gaierror = real_socket.gaierror

        @staticmethod
        def getaddrinfo(host, port, *a, **kw):
            if host not in table:
                raise real_socket.gaierror("Name or service not known")
            return [(real_socket.AddressFamily.AF_INET, real_socket.SOCK_STREAM, 6, "", (ip, port)) for ip in table[host]]

    class RealNet:
        @staticmethod
        def resolve(h):
            with shadowed(real_net, (), extra={"socket": Sock}):
                return real_net.resolve(h)

    names = ["127.0.0.1", "localhost", "es-node-1", "debian-style-host"]
    chosen = [n for n in names if bool(fresh_bool("target_host_%s" % n.replace(".", "_").replace("-", "_")))]
    if not chosen:
        return
    hosts = [{"host": n, "port": 9200} for n in chosen]
    s = new_system()
    d_addr = s.create(mechanic.Dispatcher, parent=s.rc_addr)
    d = s.actors[d_addr.addressDetails]
    with shadowed(mechanic, (), extra={"create": fake_create, "config": _Config, "paths": _Paths, "metrics": _Metrics, "net": RealNet, "console": _Console,
                                       "load_team": lambda cfg, external: (None, []), "provisioner": _Prov}):
        try:
            pairs = mechanic.to_ip_port(hosts)
            start = mechanic.StartEngine(Cfg(hosts), None, False, True, False, False)
            start.hosts = hosts
            d.receiveMessage(start, s.rc_addr)
        except exceptions.RallyError as e:
            # the statement asks for a report instead of a hang: rejecting a loop-back-only name explicitly (inside the no_retry-guarded
            # handler this becomes a BenchmarkFailure) would satisfy it as well as treating the name as this machine
            core.note("rejected", repr(e))
            core.trace("hosts", -1)
            observe("only a name that does not denote a reachable address may be rejected", "localhost" in chosen)
            return
        except Exception as e:  # noqa: BLE001
            core.note("raised", repr(e))
            observe("target hosts given by name are accepted or explicitly rejected", False)
            return
    core.trace("hosts", len(chosen))
    core.note("hosts -> (ip, port)", list(zip(chosen, pairs)))
    want_remote = sorted({"es-node-1": "10.0.0.2", "debian-style-host": "10.0.0.5"}[n] for n in chosen if n in ("es-node-1", "debian-style-host"))
    observe("every target host resolves to an address (a loop-back-only name is this machine)", all(ip is not None for ip, _ in pairs))
    observe("the dispatcher waits for exactly the hosts that are other machines", sorted(d.remotes) == want_remote)
    starts = [x for x in sends(s) if x[1] == "StartNodes"]
    if not want_remote:
        observe("local hosts only (by address or by name): their nodes are started at once", len(starts) >= 1)


def docker_partial_start(sl):
    """the real DockerLauncher.start / stop over a model of docker-compose: node k's container does not come up (`up -d` fails) or comes up
    but never gets healthy. Whatever was brought up by a start that fails is taken down again - the caller gets no handle to do it later"""
    from esrally.mechanic import launcher

    n = sl["nodes"]
    fail_at = concrete(fresh_int("start_of_node_k_fails_(n_=_none)", 0, n))
    never_healthy = bool(fresh_bool("the_failing_container_comes_up_but_never_gets_healthy")) if fail_at < n else False
    up, downs, cmds = set(), [], []

    def node_of(cmd):
        return int(cmd.split("/nodes/")[1].split("/")[0])

    class Process:
        @staticmethod
        def run_subprocess_with_logging(cmd, *a, **kw):
            cmds.append(cmd)
            i = node_of(cmd)
            if cmd.endswith("up -d"):
                if i == fail_at and not never_healthy:
                    return 1
                up.add(i)
                return 0
            if cmd.endswith("down"):
                downs.append(i)
                up.discard(i)
                return 0
            raise AssertionError(cmd)

        @staticmethod
        def run_subprocess_with_output(cmd, *a, **kw):
            cmds.append(cmd)
            if " ps -q" in cmd:
                return ["container-%d" % node_of(cmd)]
            i = int(cmd.split("id=container-")[1].split('"')[0])
            return ["container-%d" % i] if (i in up and not (i == fail_at and never_healthy)) else []

    class Tel:
        def __init__(self, devices=None):
            pass

        def attach_to_node(self, node):
            pass

        def detach_from_node(self, node, running):
            pass

        def store_system_metrics(self, node, store):
            pass

    class TelNs:
        Telemetry = Tel

        @staticmethod
        def add_metadata_for_node(store, node_name, host_name):
            pass

    class Watch:
        def __init__(self):
            self.t = 0

        def start(self):
            pass

        def split_time(self):
            self.t += 400
            return self.t

    class Clk:
        @staticmethod
        def stop_watch():
            return Watch()

    class Conf:
        def __init__(self, i):
            self.node_name, self.ip, self.binary_path = "rally-node-%d" % i, "127.0.0.1", "/nodes/%d/install" % i

    dl = launcher.DockerLauncher(actors.Cfg(), clock=Clk)
    with shadowed(launcher, (), extra={"process": Process, "telemetry": TelNs, "time": type("T", (), {"sleep": staticmethod(lambda s: None)})}):
        try:
            nodes = dl.start([Conf(i) for i in range(n)])
            how = "ret"
        except exceptions.LaunchError:
            nodes, how = None, "raise"
        core.trace("up", len(up))
        core.note("containers still up / taken down", (sorted(up), downs))
        if fail_at == n:
            observe("all containers healthy: all nodes are handed to the caller", how == "ret" and [x.node_name for x in nodes] == ["rally-node-%d" % i for i in range(n)]
                    and up == set(range(n)) and not downs)
            dl.stop(nodes, None)
            observe("stopping takes every container down exactly once", sorted(downs) == list(range(n)) and not up)
        else:
            observe("a container that does not come up healthy fails the start", how == "raise")
            observe("no container that a failing start brought up is left running (the caller never gets a handle to take it down)", not up)
            observe("no container is taken down twice", len(downs) == len(set(downs)))


READS = [mechanic.MechanicActor.receiveMsg_StartEngine, mechanic.MechanicActor.receiveMsg_NodesStarted, mechanic.MechanicActor.receiveMsg_StopEngine,
         mechanic.MechanicActor.receiveMsg_NodesStopped, mechanic.MechanicActor.receiveMsg_BenchmarkFailure, mechanic.MechanicActor.receiveMsg_PoisonMessage,
         mechanic.MechanicActor.receiveMsg_ChildActorExited, mechanic.MechanicActor.on_all_nodes_started, mechanic.MechanicActor.on_all_nodes_stopped,
         mechanic.Dispatcher.receiveMsg_StartEngine, mechanic.Dispatcher.receiveMsg_ActorSystemConventionUpdate, mechanic.Dispatcher.send_all_pending,
         mechanic.NodeMechanicActor.receiveMsg_StartNodes, mechanic.NodeMechanicActor.receiveUnrecognizedMessage, mechanic.Mechanic.start_engine,
         mechanic.Mechanic.stop_engine, mechanic.nodes_by_host, mechanic.to_ip_port, actor.RallyActor.transition_when_all_children_responded,
         actor.RallyActor.send_to_children_and_transition]
STUBS = ["thespian transport replaced by the fake actor runtime", "mechanic.create returns the REAL Mechanic on recording supplier / provisioners / launcher / metrics store",
         "net.resolve identity; config.auto_load_local_config identity; load_team; provisioner.cleanup recorder (covered by C13)"]

HARNESSES = [
    Harness("mechanic_ack", mechanic_ack, "symbolic", lambda tier: [{"phase": p, "max_hosts": 3 if tier == "quick" else 4} for p in ("starting", "stopping")],
            reads=READS, stubs=STUBS, bounds={"expected hosts": "1..3 (4)", "acknowledgements counted": "0..n-1"},
            doc="EngineStarted / EngineStopped exactly once, after the last acknowledgement"),
    Harness("mechanic_start", mechanic_start, "symbolic", lambda tier: [{}], reads=READS, stubs=STUBS, doc="StartEngine: external bypass, placeholders per host:port"),
    Harness("mechanic_stop", mechanic_stop, "symbolic", lambda tier: [{}], reads=READS, stubs=STUBS, doc="StopEngine: every host once; external bypass"),
    Harness("mechanic_failures", mechanic_failures, "symbolic",
            lambda tier: [{"kind": k} for k in ("BenchmarkFailure", "PoisonMessage(StartEngine)", "PoisonMessage(other)", "ChildActorExited")],
            reads=READS, stubs=STUBS, doc="failures reach race control in every status"),
    Harness("dispatcher_start", dispatcher_start, "symbolic", lambda tier: [{}], reads=READS, stubs=STUBS,
            bounds={"hosts": "local and/or two remote hosts, 0..2 nodes each, same or different ports"}, doc="fan-out per host:port with reply-to"),
    Harness("dispatcher_convention", dispatcher_convention, "symbolic", lambda tier: [{}], reads=READS, stubs=STUBS,
            bounds={"awaited daemons": "any non-empty subset of two", "update": "joined / left, about an awaited, an already joined or an unrelated host"},
            doc="daemon joins and departures in every dispatcher state"),
    Harness("node_start_stop", node_start_stop, "symbolic", lambda tier: [{"stop": h} for h in ("StopNodes", "ActorExitRequest")], reads=READS, stubs=STUBS,
            bounds={"nodes per host": "1..2", "start failure": "none / supply / provision / launch / launch with a third-party exception (psutil.NoSuchProcess)"}, doc="node start, failure reporting, stop order, stop exactly once"),
    Harness("launcher_partial_start", launcher_partial_start, "bounded-exhaustive", lambda tier: [{"nodes": k} for k in (1, 2, 3)], reads=READS,
            stubs=["ProcessLauncher._start_node (records a running pid or fails)", "psutil, telemetry, stop watch"],
            bounds={"nodes on the host": "1..3", "failing launch": "none or any position"}, doc="a start that fails half-way leaves no launched node behind"),
    Harness("local_host_names", local_host_names, "bounded-exhaustive", lambda tier: [{}], reads=READS + [__import__("esrally.utils.net", fromlist=["x"]).resolve],
            stubs=["socket.getaddrinfo inside esrally.utils.net (a table of four names)", "mechanic collaborators as in dispatcher_start"],
            bounds={"target hosts": "any non-empty subset of 127.0.0.1, localhost, a remote name, a name with a 127.0.1.1 and a LAN address"},
            doc="target hosts given by name: loop-back-only names are local"),
    Harness("docker_partial_start", docker_partial_start, "bounded-exhaustive", lambda tier: [{"nodes": k} for k in (1, 2, 3)],
            reads=READS + [__import__("esrally.mechanic.launcher", fromlist=["x"]).DockerLauncher.start, __import__("esrally.mechanic.launcher", fromlist=["x"]).DockerLauncher.stop],
            stubs=["process.run_subprocess_* over a model of docker-compose (up -d / ps -q / docker ps health filter / down)", "telemetry, stop watch, sleep"],
            bounds={"nodes on the host": "1..3", "failing start": "none or any position; `up -d` fails, or the container comes up and never gets healthy"},
            doc="Docker: a start that fails half-way leaves no container behind; stop takes every container down once"),
    Harness("launcher_stop", launcher_stop, "bounded-exhaustive", lambda tier: [{"nodes": 1}, {"nodes": 2}], reads=READS,
            stubs=["psutil (process alive / gone / vanishing on terminate / needing a kill / vanishing on kill)", "telemetry recorder", "stop watch"],
            bounds={"nodes": "1..2", "fate per process": 5, "metrics store": "given or not"}, doc="ProcessLauncher.stop: every node exactly once, system metrics in any case"),
]
BUDGET = {"quick": 150, "thorough": 900}
