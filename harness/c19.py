"""C19 — fast-path response parsing agrees with full JSON parsing (DESIGN §4 C19)."""
import io as pyio
import itertools
import json

from esrally.driver import runner

from harness.common import concrete
from symx import core
from symx.core import fresh_bool, fresh_int, observe, shadowed
from symx.explore import Harness

PROPERTY = "C19"
EXPLANATION = ("C19: bulk error accounting (simple_stats fast path, detailed_stats) runs on bulk responses whose item statuses and failed-shard "
               "counts are solver variables (ijson/json replaced by an event generator / the tree itself on symbolic paths, the real "
               "libraries on native replays); selective parsing and the cursor extractors run with the REAL ijson/json on every response of "
               "a solver-enumerated family (key orders, presence, nesting, adversarial strings); the oracle is full parsing of the same text.")


# ------------------------------------------------------------------------------------------------------------------
# ijson.parse emulation over a Python tree (symbolic leaves allowed)
# ------------------------------------------------------------------------------------------------------------------
def events(tree, prefix=""):
    if isinstance(tree, dict):
        yield prefix, "start_map", None
        for k, v in tree.items():
            yield prefix, "map_key", k
            yield from events(v, (prefix + "." + k) if prefix else k)
        yield prefix, "end_map", None
    elif isinstance(tree, list):
        yield prefix, "start_array", None
        for v in tree:
            yield from events(v, (prefix + ".item") if prefix else "item")
        yield prefix, "end_array", None
    elif tree is None:
        yield prefix, "null", None
    elif isinstance(tree, (bool, core.SBool)):
        yield prefix, "boolean", tree
    elif isinstance(tree, (int, core.SInt)):
        yield prefix, "integer", tree
    elif isinstance(tree, float):
        yield prefix, "double", tree
    else:
        yield prefix, "string", tree


class TreeResponse:
    """BytesIO stand-in carrying the parsed tree (symbolic paths only)"""

    def __init__(self, tree):
        self.tree = tree

    def seek(self, pos):
        pass

    def getvalue(self):
        return self


class IjsonStub:
    IncompleteJSONError = runner.ijson.IncompleteJSONError

    @staticmethod
    def parse(text):
        return events(text.tree)


class JsonStub:
    JSONDecodeError = json.JSONDecodeError
    JSONDecoder = json.JSONDecoder

    @staticmethod
    def loads(x):
        return x.tree

    dumps = staticmethod(json.dumps)


def bulk_stats(sl):
    n = sl["items"]
    items = []
    failed_flags = []
    for i in range(n):
        status = fresh_int("status%d" % i, 297, 302)  # around the 299/300 boundary (failed statuses get hashed, i.e. enumerated)
        op = ["index", "create", "update"][concrete(fresh_int("op%d" % i, 0, 2))] if sl.get("ops") else "index"
        data = {"_index": "idx", "_id": str(i), "status": status}
        fails = status > 299
        if (bool(sl["shards_mask"] >> i & 1) if "shards_mask" in sl else bool(fresh_bool("item%d_has_shards" % i))):
            f = fresh_int("shards_failed%d" % i, 0, 1)
            data["_shards"] = {"total": 2, "successful": 2 - f, "failed": f}
            fails = core.s_or(fails, f > 0)
        if bool(fresh_bool("item%d_has_error_object" % i)):
            data["error"] = {"type": "version_conflict_engine_exception", "reason": "conflict %d" % i}
        items.append({op: data})
        failed_flags.append(fails)
    any_failed = core.s_or(*failed_flags)
    # Elasticsearch sets `errors` when an item carries an error. It leaves it false for items that Rally's own rule (status > 299 or
    # failed shard copies) nevertheless counts as failed: a delete of a missing document (404, result not_found), a write acknowledged
    # by the primary whose replica failed. In that region the fast path (which trusts the flag) and the detailed path disagree: listed
    # as a known finding (known_findings.json, region below); everywhere else `errors` is true iff an item counts as failed.
    flag_false_although_failed = bool(fresh_bool("errors_flag_false_although_an_item_counts_as_failed")) if sl.get("flag_may_be_false") else False
    core.region("errors-false-although-an-item-counts-as-failed", core.s_and(flag_false_although_failed, any_failed))
    errors = bool(any_failed) and not flag_false_although_failed
    took = fresh_int("took", 0)
    tree = {}
    order = [["took", "errors", "items"], ["errors", "items", "took"], ["items", "took", "errors"]][concrete(fresh_int("key_order", 0, 2)) if n == 1 else (n % 3)]
    for k in order:
        tree[k] = {"took": took, "errors": errors, "items": items}[k]
    b = runner.BulkIndex()
    try:
        if core.symbolic():
            resp = TreeResponse(tree)
            with shadowed(runner, (), extra={"ijson": IjsonStub, "json": JsonStub}):
                simple = b.simple_stats(n, "docs", resp)
                simple_other_unit = b.simple_stats(n, "ops", resp)
            full = tree
        else:
            text = json.dumps(tree).encode("utf-8")
            core.note("response", text.decode())
            simple = b.simple_stats(n, "docs", pyio.BytesIO(text))
            simple_other_unit = b.simple_stats(n, "ops", pyio.BytesIO(text))
            full = json.loads(text)
        detailed = b.detailed_stats({"action-metadata-present": True, "body": b'{"index":{}}\n{"a":1}\n' * n}, full)
    except Exception as e:  # noqa: BLE001 - accounting must work on every well-formed bulk response
        core.note("accounting raised", repr(e))
        observe("bulk accounting does not fail on a well-formed bulk response", False)
        return
    n_failed = sum(1 for f in failed_flags if bool(f))
    core.note("failed items", n_failed)
    core.trace("failed", n_failed)
    for name, st in (("fast path", simple), ("detailed path", detailed)):
        observe("%s: success iff no item failed" % name, st["success"] == (n_failed == 0))
        observe("%s: error count == number of failed items" % name, st["error-count"] == n_failed)
        observe("%s: success count == number of succeeded items" % name, st["success-count"] == n - n_failed)
        observe("%s: took as in the response" % name, st["took"] is took or st["took"] == took)
        observe("%s: error type/description iff errors" % name, ("error-type" in st) == (n_failed > 0) and ("error-description" in st) == (n_failed > 0))
    observe("fast path with another unit: error count", simple_other_unit["error-count"] == n_failed)
    observe("fast path with another unit: success count only known after a full parse", simple_other_unit["success-count"] == (n - n_failed if errors else None))
    observe("both paths agree", (simple["success"], simple["success-count"], simple["error-count"]) == (detailed["success"], detailed["success-count"], detailed["error-count"]))
    if n_failed:
        observe("both paths give the same error description", simple.get("error-description") == detailed.get("error-description"))
    observe("detailed: one op counter per item", sum(c["item-count"] for c in detailed["ops"].values()) == n)


# ------------------------------------------------------------------------------------------------------------------
# real ijson / json on enumerated responses
# ------------------------------------------------------------------------------------------------------------------
STRINGS = ["x", "", 'a"b', "]", "[", "sort", '"sort":[', "a\\", "é", "}{", ", ", "☃]"]
AFTER_KEYS = [None, {"vendor": "a"}, {"host.name": "h", "user.name": 7}, {"a": True, "b": 1.5, "c": "x.y"}, {}, {"vendor": None, "payment": "cash"}, {"only": None},
              {"ts": 1609780186123456789, "id": 9007199254740993, "neg": -9007199254740993}, {"price": 0.1, "ratio": -2.675, "big": 1e+22}]  # missing_bucket: true yields null members


TOTAL_FORM = [2]


def _search_tree(focus):
    """focus 'cursor': vary hits / sort strings / layout; focus 'props': vary presence, forms and key order"""
    cur = focus == "cursor"
    took = 17
    timed_out = False if cur else bool(fresh_bool("timed_out"))
    total_form = 2 if cur else TOTAL_FORM[0]  # absent / number / object eq / object gte
    nhits = concrete(fresh_int("number_of_hits", 1, 2)) if cur else concrete(fresh_int("number_of_hits", 0, 1))
    with_pit = False if cur else bool(fresh_bool("has_pit_id"))
    hits = []
    for i in range(nhits):
        last = i == nhits - 1
        if cur:
            s = STRINGS[concrete(fresh_int("sort_string%d" % i, 0, len(STRINGS) - 1 if last else 2)) * (1 if last else 4)]
            src = STRINGS[concrete(fresh_int("source_string%d" % i, 0, len(STRINGS) - 1))] if last else "plain"
        else:
            s, src = "x", "plain"
        hit = {"_id": "doc%d" % i, "_source": {"title": src}, "sort": [i + 1, s]}
        if cur and bool(fresh_bool("hit%d_sort_before_source" % i)):
            hit = {"_id": hit["_id"], "sort": hit["sort"], "_source": hit["_source"]}
        hits.append(hit)
    hits_obj = {}
    if total_form == 1:
        hits_obj["total"] = 42
    elif total_form >= 2:
        hits_obj["total"] = {"value": 42, "relation": "eq" if total_form == 2 else "gte"}
    hits_obj["hits"] = hits
    ak = AFTER_KEYS[1] if cur else AFTER_KEYS[concrete(fresh_int("after_key_form", 0, len(AFTER_KEYS) - 1))]
    agg = {"buckets": [{"key": {"vendor": "a"}, "doc_count": 3}]}
    if ak is not None:
        agg = {"after_key": ak, "buckets": agg["buckets"]} if (cur or bool(fresh_bool("after_key_first"))) else {"buckets": agg["buckets"], "after_key": ak}
    parts = {"took": took, "timed_out": timed_out, "hits": hits_obj, "aggregations": {"outer": {"comp": agg}}}
    if with_pit:
        parts["pit_id"] = "pit-123"
    keys = list(parts.keys())
    perm = list(itertools.permutations(range(len(keys))))
    order = perm[0] if cur else perm[concrete(fresh_int("key_order", 0, 5)) * (len(perm) // 6)]
    return {keys[i]: parts[keys[i]] for i in order}, with_pit, ak


def search_parsing(sl):
    TOTAL_FORM[0] = sl.get("total_form", 2)
    tree, with_pit, ak = _search_tree(sl["focus"])
    cur = sl["focus"] == "cursor"
    compact = sl.get("compact", True)
    if sl.get("pretty"):
        # what Elasticsearch sends for ?pretty: one entry per line, a blank on BOTH sides of the colon
        text = json.dumps(tree, indent=2, separators=(",", " : "), ensure_ascii=sl.get("ascii", False)).encode("utf-8")
    else:
        text = json.dumps(tree, separators=(",", ":") if compact else (", ", ": "), ensure_ascii=sl.get("ascii", False)).encode("utf-8")
    full = json.loads(text)
    core.note("response", text.decode("utf-8")[:400])
    core.trace("len", len(text))
    # selective parse
    props = ["timed_out", "took", "pit_id", "hits.total", "hits.total.value", "hits.total.relation"]
    got = runner.parse(pyio.BytesIO(text), props, ["hits.hits"], ["aggregations.outer.comp.after_key"])

    def lookup(path):
        cur = full
        for p in path.split("."):
            if not isinstance(cur, dict) or p not in cur:
                return KeyError
            cur = cur[p]
        return cur

    for p in props:
        v = lookup(p)
        if v is KeyError:
            observe("property %s absent from the response is absent from the result" % p, p not in got)
        elif isinstance(v, dict):
            observe("property %s that is an object yields no scalar" % p, got.get(p) is None)
        else:
            observe("property %s equals the fully parsed value" % p, p in got and got[p] == v and type(got[p]) is type(v))
    observe("list emptiness as in the full parse", got.get("hits.hits") == (len(full["hits"]["hits"]) == 0))
    if ak is not None:
        observe("flat object equals the fully parsed object", got.get("aggregations.outer.comp.after_key") == full["aggregations"]["outer"]["comp"]["after_key"])
    else:
        observe("absent object is absent", "aggregations.outer.comp.after_key" not in got)
    # extractors
    hits_total = None if (cur or bool(fresh_bool("first_page"))) else 7
    try:
        parsed, last_sort = runner.SearchAfterExtractor()(pyio.BytesIO(text), with_pit, hits_total)
    except Exception as e:  # noqa: BLE001 - a well-formed response must be parsed
        core.note("search_after extractor raised", repr(e))
        observe("search_after extractor handles every well-formed response", False)
        return
    hits = full["hits"]["hits"]
    observe("pagination cursor is the sort value of the last hit", last_sort == (hits[-1]["sort"] if hits else None))
    total = full["hits"].get("total")
    exp_total = (total["value"] if isinstance(total, dict) else total) if (hits_total is None and total is not None) else hits_total
    observe("hits total as in the full parse", parsed["hits.total.value"] == exp_total)
    observe("hits relation", parsed["hits.total.relation"] == (total["relation"] if (isinstance(total, dict) and hits_total is None) else "eq"))
    observe("took / timed_out / pit_id", parsed["took"] == full["took"] and parsed["timed_out"] == full["timed_out"]
            and (not with_pit or parsed["pit_id"] == full["pit_id"]))
    comp = runner.CompositeAggExtractor()(pyio.BytesIO(text), with_pit, ["outer", "comp"], hits_total)
    observe("composite after_key equals the fully parsed after_key", comp["after_key"] == full["aggregations"]["outer"]["comp"].get("after_key"))
    observe("composite: hits total as in the full parse (object or plain number)", comp["hits.total.value"] == exp_total)
    observe("composite: hits relation", comp["hits.total.relation"] == (total["relation"] if (isinstance(total, dict) and hits_total is None) else "eq"))
    observe("composite: took / timed_out / pit_id", comp["took"] == full["took"] and comp["timed_out"] == full["timed_out"] and (not with_pit or comp["pit_id"] == full["pit_id"]))


# ------------------------------------------------------------------------------------------------------------------
# the query runners' result records vs. full parsing of the pages they received
# ------------------------------------------------------------------------------------------------------------------
def _page(i, total_form, total, nhits, timed_out, took, scroll_id, sort_base):
    hits = [{"_id": "d%d" % (sort_base + k), "_source": {"title": "t"}, "sort": [sort_base + k, STRINGS[(sort_base + k) % 4]]} for k in range(nhits)]
    h = {}
    if total_form == 1:
        h["total"] = total
    elif total_form >= 2:
        h["total"] = {"value": total, "relation": "eq" if total_form == 2 else "gte"}
    h["hits"] = hits
    out = {"took": took, "timed_out": timed_out, "_shards": {"total": 5, "successful": 4, "skipped": 1, "failed": 0}, "hits": h}
    if scroll_id:
        out = dict([("_scroll_id", scroll_id)] + list(out.items()))
    return out


class _RawEs:
    """what the Query runner touches: options(), return_raw_response(), perform_request() returning raw bytes, clear_scroll()"""

    def __init__(self, pages):
        self.pages = pages
        self.requests = []
        self.cleared = []

    def options(self, **kw):
        return self

    def return_raw_response(self):
        pass

    async def perform_request(self, method, path, params=None, body=None, headers=None):
        i = len(self.requests)
        self.requests.append((path, json.loads(json.dumps(body))))
        return pyio.BytesIO(json.dumps(self.pages[min(i, len(self.pages) - 1)], separators=(",", ":")).encode("utf-8"))

    async def clear_scroll(self, body=None):
        self.cleared.append(body)


def query_results(sl):
    from harness.execenv import drive

    op = sl["op"]
    # a paginated search needs the total to page (a response without hits.total, i.e. track_total_hits=false, makes it fail
    # with a TypeError: noted in DESIGN as an observation outside this property)
    total_form = concrete(fresh_int("hits_total_absent_number_object_gte", 1 if op == "paginated-search" else 0, 3))
    total = [0, 1, 2, 5][concrete(fresh_int("total_hits_0_1_2_5", 0, 3))]
    size = 2
    n_pages = 4  # the last page served is always empty (what Elasticsearch answers once everything has been returned)
    per_page = [min(size, max(0, total - size * i)) for i in range(n_pages)]
    timed = [bool(fresh_bool("page%d_timed_out" % i)) for i in range(2)] + [False, False]
    tooks = [3, 5, 11, 19]
    pages = [_page(i, total_form if i == 0 or op == "paginated-search" else 0, total, per_page[i], timed[i], tooks[i], "scroll-1" if op == "scroll-search" else None, 1 + size * i)
             for i in range(n_pages)]
    es = _RawEs(pages)
    want_pages = [1, 2, "all"][concrete(fresh_int("pages_1_2_all", 0, 2))]
    params = {"index": "idx", "body": {"query": {"match_all": {}}}, "operation-type": op}
    if op == "search":
        params["detailed-results"] = True
    else:
        params["pages"] = want_pages
        params["results-per-page"] = size
    q = runner.Query()
    how, res = drive(q(es, params))
    core.note("op", op)
    core.note("first page", json.dumps(pages[0])[:300])
    core.note("result", repr(res)[:300])
    core.trace("requests", len(es.requests))
    observe("the query runner handles every well-formed response", how == "ret")
    if how != "ret":
        return
    full0 = pages[0]
    t = full0["hits"].get("total")
    exp_hits = (t["value"] if isinstance(t, dict) else t) if t is not None else None
    exp_rel = t["relation"] if isinstance(t, dict) else "eq"
    n_req = len(es.requests)
    if op == "search":
        observe("search: one request", n_req == 1)
        observe("search: hits equal the fully parsed total (0 when the response carries none)", res["hits"] == (exp_hits if exp_hits is not None else 0)
                and type(res["hits"]) is int)
        observe("search: relation / timed_out / took / shards as in the full parse", res["hits_relation"] == exp_rel and res["timed_out"] == full0["timed_out"]
                and res["took"] == full0["took"] and res["shards"] == full0["_shards"])
        return
    got_pages = pages[:n_req]
    observe("%s: pages == weight == number of requests" % op, res["pages"] == n_req and res["weight"] == n_req)
    observe("%s: took is the sum over the retrieved pages" % op, res["took"] == sum(p["took"] for p in got_pages))
    observe("%s: timed_out iff a retrieved page timed out" % op, bool(res["timed_out"]) == any(p["timed_out"] for p in got_pages))
    limit = n_pages if want_pages == "all" else want_pages
    if op == "scroll-search":
        observe("scroll: hits equal the fully parsed total of the first page (0 when absent), as an integer",
                res["hits"] == (exp_hits if exp_hits is not None else 0) and type(res["hits"]) is int)
        observe("scroll: relation as in the full parse", res["hits_relation"] == exp_rel)
        # documented loop: stop after the first page if it holds everything, else when a page comes back empty or the page limit is reached
        h = exp_hits if exp_hits is not None else 0
        exp_req = 1
        if not (h < size or h == 0):
            while exp_req < limit and exp_req < n_pages:
                exp_req += 1
                if not pages[exp_req - 1]["hits"]["hits"]:
                    break
        observe("scroll: number of pages fetched", n_req == exp_req)
        observe("scroll: the scroll is cleared exactly once", es.cleared == [{"scroll_id": ["scroll-1"]}])
    else:
        if exp_hits is None:
            return
        observe("paginated: hits equal the fully parsed total of the first page", res["hits"] == exp_hits and res["hits_relation"] == exp_rel)
        exp_req = 1
        while exp_hits / size > exp_req and exp_req < limit:
            exp_req += 1
        observe("paginated: number of pages fetched", n_req == exp_req)
        for k in range(1, n_req):
            prev_hits = pages[k - 1]["hits"]["hits"]
            observe("paginated: page %d continues after the sort value of the last hit of the page before" % (k + 1),
                    es.requests[k][1].get("search_after") == (prev_hits[-1]["sort"] if prev_hits else None))


READS = [runner.parse, runner.BulkIndex.simple_stats, runner.BulkIndex.detailed_stats, runner.BulkIndex.extract_error_details,
         runner.BulkIndex.error_description, runner.SearchAfterExtractor.__call__, runner.SearchAfterExtractor._get_last_sort,
         runner.CompositeAggExtractor.__call__]

HARNESSES = [
    Harness("bulk_stats", bulk_stats, "symbolic", lambda tier: [{"items": 1}, {"items": 2, "_w": 2}, {"items": 2, "ops": True, "_w": 3}, {"items": 2, "flag_may_be_false": True, "_w": 3}] + [{"items": 3, "shards_mask": m, "_w": 5} for m in range(8)]
            + ([{"items": 4, "shards_mask": m, "_w": 9} for m in range(16)] if tier == "thorough" else []),
            reads=READS, stubs=["ijson.parse replaced by an event generator over the response tree and json.loads by the tree (symbolic paths); the real ijson/json on native replays and validations"],
            assumptions=["`errors` is true iff an item counts as failed by Rally's rule (status > 299 or failed shard copies), except in the slice flag_may_be_false, "
                         "where the flag may be false although an item counts as failed (404 delete, failed replica): the two paths disagree there - KNOWN FINDING, region errors-false-although-an-item-counts-as-failed"],
            bounds={"items": "<=3 quick / <=4 thorough", "status": "symbolic 297..302 (the code only compares with 299)", "failed shards": "symbolic 0..1, _shards and error object optional", "key order": "3 rotations (all three for one item)"},
            doc="fast and detailed bulk accounting agree with the item list"),
    Harness("search_parsing", search_parsing, "bounded-exhaustive",
            lambda tier: [{"focus": "cursor", "compact": c, "ascii": a, "_w": 4} for c in (True, False) for a in (True, False)]
            + [{"focus": "cursor", "pretty": True, "ascii": False, "_w": 4}, {"focus": "props", "pretty": True, "total_form": 2, "_w": 2}]
            + [{"focus": "props", "total_form": t, "_w": 2} for t in range(4)], reads=READS,
            bounds={"hits": "0..2 with sort arrays holding one of %d adversarial strings (quotes, brackets, backslash, the word sort, non-ASCII)" % len(STRINGS),
                    "hits.total": "absent / number / object eq / object gte", "after_key": "%d forms incl. dotted source names" % len(AFTER_KEYS),
                    "key order": "6 top-level permutations, sort before/after _source", "separators": "compact, spaced and pretty-printed (?pretty: indentation, blanks around the colon)", "escapes": "ASCII-escaped and raw UTF-8"},
            doc="selective parse, search_after cursor and composite after_key vs. full parsing (real ijson/json)"),
    Harness("query_results", query_results, "bounded-exhaustive", lambda tier: [{"op": o} for o in ("search", "scroll-search", "paginated-search")],
            reads=READS + [runner.Query.__call__],
            stubs=["raw Elasticsearch client: options/return_raw_response/perform_request (serves the enumerated pages as bytes)/clear_scroll"],
            bounds={"hits.total": "absent / number / object eq / object gte", "total": "0, 1, 2, 5 with 2 results per page", "pages": "1, 2, all (<=4 served, the last one empty)",
                    "timed_out": "per page"},
            doc="result records of search / scroll-search / paginated-search equal the full parse of the pages received"),
]


# ------------------------------------------------------------------------------------------------------------------
# auxiliary engine: CrossHair on symbolic strings (never the only basis of a verdict: "Not confirmed" is inconclusive)
# ------------------------------------------------------------------------------------------------------------------
def crosshair_last_sort(tier, deadline):
    import os
    import re
    import subprocess
    import sys
    import time

    t0 = time.time()
    budget = 25 if tier == "quick" else 240
    verif = os.path.dirname(os.path.dirname(os.path.abspath(__file__)))
    cond = os.path.join(verif, "chx", "c19_last_sort.py")
    cmd = ["timeout", str(budget + 30), os.path.join(os.path.dirname(sys.executable), "crosshair"), "check", "--report_all",
           "--per_condition_timeout", str(budget), cond]
    env = dict(os.environ)
    p = subprocess.run(cmd, capture_output=True, text=True, env=env, cwd=verif)
    out = (p.stdout + p.stderr).strip()
    res = {"name": "crosshair_last_sort", "engine": "CrossHair 0.0.110", "bounds": {"sort string": "<=3 printable ASCII characters", "n": "0..9"},
           "evaluations": 1, "distinct_nontrivial": 0, "exhaustive": True, "wall_s": round(time.time() - t0, 1), "output": out[-400:], "violations": [], "errors": []}
    m = re.search(r"when calling (last_sort\(.*\))", out)
    if "Confirmed over all paths" in out:
        res["verdict"] = "confirmed"
        res["distinct_nontrivial"] = 1
    elif m:
        # replay natively against the real code
        sys.path.insert(0, os.path.join(verif, "chx"))
        import c19_last_sort

        call = m.group(1)
        try:
            ok = eval(call, {"last_sort": c19_last_sort.last_sort})  # noqa: S307 - arguments printed by CrossHair
        except Exception as e:  # noqa: BLE001
            ok = False
            call += " raised %r" % (e,)
        if not ok:
            res["verdict"] = "counterexample"
            res["violations"].append({"inputs": {"call": call}, "failed": ["search_after cursor equals the sort value of the last hit"], "slice": {}})
        else:
            res["verdict"] = "counterexample did not replay"
            res["exhaustive"] = False
    else:
        res["verdict"] = "not confirmed (inconclusive)"
        res["exhaustive"] = True  # an auxiliary engine without a verdict does not make the check inconclusive
    return res


def _replay_crosshair(entry):
    import os
    import sys

    sys.path.insert(0, os.path.join(os.path.dirname(os.path.dirname(os.path.abspath(__file__))), "chx"))
    import c19_last_sort

    call = entry["inputs"]["call"].split(" raised ")[0]
    try:
        ok = eval(call, {"last_sort": c19_last_sort.last_sort})  # noqa: S307
    except Exception as e:  # noqa: BLE001
        return False, "%s raised %r" % (call, e)
    return bool(ok), "%s -> %s" % (call, ok)


AUX = [crosshair_last_sort]
AUX_REPLAY = {"crosshair_last_sort": _replay_crosshair}
