"""C15 — the track/team branch used is the documented best match for the ES version (DESIGN §4 C15).

V1 structured_minor : real latest_bounded_minor / _latest_major on structured names, UNBOUNDED symbolic integers.
V2 best_match_names : real best_match on rendered branch names (bounded, solver-enumerated integers) vs. the documented precedence.
V3 repo_update      : real RallyRepository.update with a stub git whose branch/tag sets, current branch and failures are symbolic.
"""
from esrally import exceptions
from esrally.utils import git, repo, versions

from symx import core
from symx.core import fresh_bool, fresh_int, observe, shadowed
from symx.explore import Harness

PROPERTY = "C15"
EXPLANATION = ("C15: the arithmetic core of the match (nearest prior minor, latest major) is executed on structured branch names with unbounded "
               "symbolic integer components; the complete best_match (variant enumeration, regex parsing, string rendering) is executed on "
               "every rendered branch list of a stated finite universe, the integers being enumerated by the solver; the repository update "
               "is executed against a stub git with symbolic branch/tag sets and failures. Oracle: the precedence documented in docs/track.rst.")


# --------------------------------------------------------------------------------------------------------------------
# V1
# --------------------------------------------------------------------------------------------------------------------
class Name:
    """kind 0 = not a version ('master', 'feature'), 1 = M, 2 = M.m, 3 = M.m.p, 4 = M.m.p-s"""

    def __init__(self, kind, M, m, p):
        self.kind, self.M, self.m, self.p = kind, M, m, p


def _s_is_version_identifier(a, strict=True):
    return a is not None and a.kind != 0 and (not strict or a.kind >= 3)


def _s_components(a, strict=True):
    return (a.M, a.m if a.kind >= 2 else None, a.p if a.kind >= 3 else None, "sfx" if a.kind == 4 else None)


class Target:
    pass


def structured_minor(sl):
    nb = sl["branches"]
    names = []
    for i in range(nb):
        k = fresh_int("kind%d" % i, 0, 4)
        kind = core.concretize(k.z) if core.is_sym(k) else k
        names.append(Name(kind, fresh_int("M%d" % i, 0), fresh_int("m%d" % i, 0), fresh_int("p%d" % i, 0)))
    t = Target()
    t.major, t.minor = fresh_int("TM", 0), fresh_int("Tm", 0)
    with shadowed(versions, (), extra={"components": _s_components, "is_version_identifier": _s_is_version_identifier}):
        got = versions.latest_bounded_minor(names, t)
        lm = versions._latest_major(names)
    # oracle without forking: greatest eligible minor
    elig = [core.s_and(n.M == t.major, n.m <= t.minor) for n in names if n.kind == 2]
    minors = [n.m for n in names if n.kind == 2]
    any_elig = core.s_or(*elig) if elig else False
    core.note("kinds", [n.kind for n in names])
    core.note("got", got if not core.is_sym(got) else "<sym>")
    if got is None:
        observe("None only if no M.m branch of the same major with m <= target minor (a .0 minor counts)", core.s_not(any_elig))
    else:
        core.trace("got", got)
        observe("a result only if an eligible branch exists", any_elig)
        observe("result is an eligible minor", core.s_or(*[core.s_and(e, m == got) for e, m in zip(elig, minors)]) if elig else False)
        observe("no eligible minor is closer (greater)", core.s_and(*[core.implies(e, m <= got) for e, m in zip(elig, minors)]) if elig else True)
    vers = [n for n in names if n.kind != 0]
    observe("latest major >= every versioned branch", core.s_and(*[lm >= n.M for n in vers]) if vers else lm == -1)
    observe("latest major is attained (or -1)", core.s_or(*[lm == n.M for n in vers]) if vers else lm == -1)


# --------------------------------------------------------------------------------------------------------------------
# V2
# --------------------------------------------------------------------------------------------------------------------
VM = 2  # major of the distribution version in the bounded universe (branches use majors 1..3)


def universe():
    """structured names (kind, M, m, p, s, text)"""
    u = [(0, None, None, None, None, "master"), (0, None, None, None, None, "feature-x")]
    for M in (1, 2, 3):
        u.append((1, M, None, None, None, "%d" % M))
    for M in (1, 2, 3):
        for m in (0, 1, 2):
            u.append((2, M, m, None, None, "%d.%d" % (M, m)))
    for m in (0, 1, 2):
        for p in (0, 1):
            u.append((3, VM, m, p, None, "%d.%d.%d" % (VM, m, p)))
            u.append((4, VM, m, p, "SNAPSHOT", "%d.%d.%d-SNAPSHOT" % (VM, m, p)))
    u.append((3, 1, 0, 0, None, "1.0.0"))
    u.append((3, 3, 0, 0, None, "3.0.0"))
    u.append((4, 3, 0, 0, "SNAPSHOT", "3.0.0-SNAPSHOT"))
    # unrelated branches that merely START like a version (a number followed by a dash suffix without a patch level)
    u.append((0, 2, None, None, "odd", "2-dev"))
    u.append((0, 2, 1, None, "odd", "2.1-wip"))
    return u


UNIVERSE = universe()


def documented_best_match(branches, V):
    """docs/track.rst 'branch logic' + property statement; branches/V are structured"""
    M, m, p, s = V
    texts = [b[5] for b in branches]
    if s is not None and "%d.%d.%d-%s" % (M, m, p, s) in texts:
        return "%d.%d.%d-%s" % (M, m, p, s)
    if "%d.%d.%d" % (M, m, p) in texts:
        return "%d.%d.%d" % (M, m, p)
    if "%d.%d" % (M, m) in texts:
        return "%d.%d" % (M, m)
    prior = [b[2] for b in branches if b[0] == 2 and b[1] == M and b[2] <= m]
    if prior:
        return "%d.%d" % (M, max(prior))
    if "%d" % M in texts:
        return "%d" % M
    latest = max([b[1] for b in branches if b[0] != 0], default=-1)
    if M > latest and "master" in texts:  # the result is always one of the repository's branches ("alternative that is available or None")
        return "master"
    return None


def documented_best_match_alternatives(branches, V):
    """names like '2-dev' do not follow the scheme; whether they count as 'versioned branches' for the master decision is left open:
    both readings are accepted"""
    a = documented_best_match(branches, V)
    counted = [((1,) + b[1:]) if b[4] == "odd" else b for b in branches]
    latest = max([b[1] for b in counted if b[0] != 0], default=-1)
    b_ = a
    if a == "master" and not V[0] > latest:
        b_ = None
    return {a, b_}


def best_match_names(sl):
    n = sl["branches"]
    idx = []
    for i in range(n):
        v = fresh_int("b%d" % i, 0, len(UNIVERSE) - 1)
        if sl.get("unordered") and idx:
            core.assume(v > idx[-1][0])
        c = core.concretize(v.z) if core.is_sym(v) else v
        idx.append((v, c))
    branches = [UNIVERSE[c] for (_, c) in idx]
    Vm = fresh_int("Vm", 0, 2)
    Vp = fresh_int("Vp", 0, 1)
    Vs = fresh_bool("Vsuffix")
    m = core.concretize(Vm.z) if core.is_sym(Vm) else Vm
    p = core.concretize(Vp.z) if core.is_sym(Vp) else Vp
    # a suffix may itself contain dashes (8.0.0-rc1-SNAPSHOT): everything after the first dash is the suffix
    s = (sl.get("suffix") or "SNAPSHOT") if Vs else None
    M = sl["major"]
    text = "%d.%d.%d" % (M, m, p) + ("-%s" % s if s else "")
    try:
        got = versions.best_match([b[5] for b in branches], text)
    except Exception as e:  # noqa: BLE001 - unrelated branch names must not break the match
        core.note("branches", [b[5] for b in branches])
        core.note("best_match raised", repr(e))
        observe("best_match copes with every branch list (unrelated names included)", False)
        return
    exps = documented_best_match_alternatives(branches, (M, m, p, s))
    exp = documented_best_match(branches, (M, m, p, s)) if got not in exps else got
    core.note("branches", [b[5] for b in branches])
    core.note("version", text)
    core.note("got/expected", (got, exp))
    core.trace("got", got)
    observe("best_match returns the branch of the documented precedence", got == exp)
    if got is not None and got != "master":
        gM = int(got.split(".")[0].split("-")[0])
        observe("never a branch of another major", gM == M)
        parts = got.split("-")[0].split(".")
        if len(parts) > 1:
            observe("never a later minor", int(parts[1]) <= m)


def special_versions(sl):
    """unknown / serverless versions go to master; malformed ones to nothing"""
    v = fresh_int("b0", 0, len(UNIVERSE) - 1)
    c = core.concretize(v.z) if core.is_sym(v) else v
    branches = [UNIVERSE[c][5], "master"]
    observe("None -> master", versions.best_match(branches, None) == "master")
    observe("'' -> master", versions.best_match(branches, "") == "master")
    observe("serverless -> master", versions.best_match(branches, "serverless") == "master")
    observe("malformed -> no match", versions.best_match(branches, "not-a-version") is None)


# --------------------------------------------------------------------------------------------------------------------
# V3
# --------------------------------------------------------------------------------------------------------------------
CAND_BRANCHES = [(1, 2, None, None, None, "2"), (2, 2, 0, None, None, "2.0"), (2, 2, 1, None, None, "2.1"), (1, 1, None, None, None, "1"),
                 (0, None, None, None, None, "master")]
CAND_TAGS = ["v2.1.0", "v2.1", "v2"]
# only v-prefixed tags are version tags; the others are unrelated tags (harness tag_fallback)
FALLBACK_TAGS = ["v2.1.0", "v2.1", "v2", "2.1.0", "2.1", "vv2", "v2.1.0-SNAPSHOT"]
# branches the working copy may be on from an earlier run / the user's own work (never candidates themselves)
CUR_EXTRA = ["12", "7.2.0"]


class StubGit:
    def __init__(self, fixed_local=None, tag_candidates=None):
        self.calls = []
        self.current = "start-branch"
        self.cache = {}
        self.tag_candidates = tag_candidates or CAND_TAGS
        if fixed_local is not None:
            self.cache["local"] = list(fixed_local)

    def _subset(self, tag, cands):
        if tag not in self.cache:
            self.cache[tag] = [c for i, c in enumerate(cands) if fresh_bool("%s_has_%d" % (tag, i))]
        return self.cache[tag]

    def branches(self, src, remote=True):
        self.calls.append(("branches", bool(remote)))
        return [b[5] for b in self._subset("remote" if remote else "local", CAND_BRANCHES)]

    def tags(self, src):
        self.calls.append(("tags",))
        return list(self._subset("tags", self.tag_candidates))

    def current_branch(self, src):
        if "cur" not in self.cache:
            k = fresh_int("current_is", 0, len(CAND_BRANCHES) + len(CUR_EXTRA))
            kk = core.concretize(k.z) if core.is_sym(k) else k
            self.cache["cur"] = True
            if kk < len(CAND_BRANCHES):
                self.current = CAND_BRANCHES[kk][5]
            elif kk < len(CAND_BRANCHES) + len(CUR_EXTRA):
                self.current = CUR_EXTRA[kk - len(CAND_BRANCHES)]
        return self.current

    def checkout(self, src, *, branch):
        self.calls.append(("checkout", branch))
        known = [b if isinstance(b, str) else b[5] for k in ("local", "remote", "tags") for b in self.cache.get(k, [])]
        if branch not in known:
            raise exceptions.SupplyError("pathspec '%s' did not match anything known to git" % branch)
        if fresh_bool("checkout_fails_%d" % len(self.calls)):
            raise exceptions.SupplyError("cannot checkout (local changes)")
        self.current = branch

    def rebase(self, src, *, remote, branch):
        self.calls.append(("rebase", branch))
        if fresh_bool("rebase_fails"):
            raise exceptions.SupplyError("cannot rebase")

    def head_revision(self, src):
        # the head of whatever is checked out at the moment of the call
        return "head-of-%s" % self.current

    def is_working_copy(self, src):
        return True

    def fetch(self, src, *, remote):
        self.calls.append(("fetch",))


def repo_update(sl):
    g = StubGit()
    remote = sl["remote"]
    vtext, V = sl["version"], (tuple(sl["V"]) if sl["V"] is not None else None)
    with shadowed(repo, (), extra={"git": g, "console": _Quiet}):
        r = repo.RallyRepository("http://example.org/tracks" if remote else None, "/nonexistent-root", "default", "tracks", offline=False,
                                 fetch=False)
        try:
            r.update(vtext)
            how, err = "ret", None
        except Exception as e:  # noqa: BLE001 - outcome under test
            how, err = "raise", e
    # expectation
    rem = [b for b in CAND_BRANCHES if b in g.cache.get("remote", [])]
    loc = [b for b in CAND_BRANCHES if b in g.cache.get("local", [])]
    target, via = None, None

    def best(listing):
        if V is None:  # unknown version (none given / serverless): master if the repository has it, nothing else
            return "master" if any(b[5] == "master" for b in listing) else None
        return documented_best_match(listing, V)

    if remote:
        target = best(g.cache.get("remote", []))
        via = "remote" if target else None
    if not target:
        target = best(g.cache.get("local", []))
        via = "local" if target else None
    if not target and V is not None:
        M, m, p, s = V
        for cand in (["v%d.%d.%d-%s" % (M, m, p, s)] if s else []) + ["v%d.%d.%d" % (M, m, p), "v%d.%d" % (M, m), "v%d" % M]:
            if cand in g.cache.get("tags", []):
                target, via = cand, "tag"
                break
    checkouts = [c for c in g.calls if c[0] == "checkout"]
    core.note("calls", g.calls)
    core.note("outcome", (how, repr(err), g.current))
    core.note("expected", (target, via))
    core.trace("n_calls", len(g.calls))
    if target is None:
        # (for an unknown version the statement only asks for "an error": any Rally error will do, a raw TypeError will not)
        observe("nothing qualifies -> SystemSetupError", how == "raise" and isinstance(err, exceptions.SystemSetupError if V is not None else exceptions.RallyError))
        observe("nothing checked out", not checkouts)
    else:
        failed = any(core.ctx().vars.get("checkout_fails_%d" % (i + 1), (None, False))[1] is True for i in range(len(g.calls))) \
            if core.ctx().mode == "native" else None
        if how == "ret":
            observe("on return the working copy is on the documented best match (branch, else v-tag)", g.current == target)
            observe("never checks out anything but the best match", all(c[1] == target for c in checkouts))
            # the revision is what the other actors (track preparator, workers) check out and what is reported as track/team revision
            # (none is recorded when nothing had to be checked out or a rebase was refused: the other actors then use the working copy as it is)
            observe("a revision recorded for the other actors is the head of the best match, not of what was checked out before",
                    getattr(r, "revision", None) in (None, "head-of-%s" % target))
        else:
            observe("only a git failure may abort the update, as DataError", isinstance(err, exceptions.DataError))
            observe("a failed update attempted the best match", checkouts and checkouts[-1][1] == target)
        del failed


def tag_fallback(sl):
    """local repository whose branches do not qualify (only a later major exists): the most specific v-tag is used, unrelated tags
    (no v prefix, double prefix) are ignored, and without a v-tag the update fails with a set-up error"""
    later_major = (0, 3, None, None, None, "3")  # kind is irrelevant for the stub; best_match sees the name "3"
    g = StubGit(fixed_local=[(1, 3, None, None, None, "3")], tag_candidates=FALLBACK_TAGS)
    del later_major
    vtext, V = sl["version"], tuple(sl["V"])
    with shadowed(repo, (), extra={"git": g, "console": _Quiet}):
        r = repo.RallyRepository(None, "/nonexistent-root", "default", "tracks", offline=False, fetch=False)
        try:
            r.update(vtext)
            how, err = "ret", None
        except Exception as e:  # noqa: BLE001
            how, err = "raise", e
    tags = g.cache.get("tags", [])
    M, m, p, sfx = V
    target = None
    for cand in (["v%d.%d.%d-%s" % (M, m, p, sfx)] if sfx else []) + ["v%d.%d.%d" % (M, m, p), "v%d.%d" % (M, m), "v%d" % M]:
        if cand in tags:
            target = cand
            break
    checkouts = [c for c in g.calls if c[0] == "checkout"]
    core.note("tags", tags)
    core.note("outcome", (how, repr(err), g.current))
    core.note("expected", target)
    core.trace("n_calls", len(g.calls))
    if target is None:
        observe("no branch and no v-tag qualifies -> explicit set-up error, nothing checked out", how == "raise" and isinstance(err, exceptions.SystemSetupError) and not checkouts)
    elif how == "ret":
        observe("the most specific matching v-tag is checked out (unrelated tags ignored)", g.current == target and [c[1] for c in checkouts] == [target])
    else:
        observe("only a git failure on the matching tag may abort the update, as DataError", isinstance(err, exceptions.DataError) and checkouts and checkouts[-1][1] == target)


# --------------------------------------------------------------------------------------------------------------------
# branch listing: what git reports -> the names the match works on
# --------------------------------------------------------------------------------------------------------------------
# refs as printed by `git for-each-ref --format='%(refname:short)'`, with the branch the repository's owner would name
REMOTE_REFS = [("origin/HEAD", None), ("origin", None), ("origin/master", "master"), ("origin/2", "2"), ("origin/2.1", "2.1"), ("origin/2.0", "2.0"),
               ("origin/3", "3"), ("origin/backport/2.1", "backport/2.1"), ("origin/wip/3", "wip/3"), ("origin/release/2.2.1", "release/2.2.1"),
               (" origin/1 ", "1")]
LOCAL_REFS = [("HEAD", None), ("master", "master"), ("2", "2"), ("2.1", "2.1"), ("2.0", "2.0"), ("3", "3"), ("backport/2.1", "backport/2.1"), ("wip/3", "wip/3"),
              ("release/2.2.1", "release/2.2.1"), (" 1 ", "1")]


def _structured(name):
    for u in UNIVERSE:
        if u[5] == name:
            return u
    return (0, None, None, None, None, name)  # names with a slash are never version branches


def git_listing(sl):
    """the real git.branches (ref clean-up) composed with the real best_match: only branches that ARE named like a version count"""
    remote = sl["remote"]
    refs = REMOTE_REFS if remote else LOCAL_REFS
    chosen = [(r, b) for (r, b) in refs if bool(fresh_bool("ref_%s" % r.strip().replace("/", "_")))]
    # a local repository may also carry TAGS named like a branch (release tags "2.1", "3"): git then prints the branch's short name as
    # "heads/2.1" - `%(refname:short)` is the shortest UNAMBIGUOUS name (git-for-each-ref(1)), `%(refname:lstrip=2)` always the plain name
    same_named_tags = set() if remote else {t for t in ("2.1", "3") if bool(fresh_bool("tag_named_like_branch_%s" % t.replace(".", "_")))}
    cmds = []

    def printed(r, fmt):
        name = r.strip()
        if "%(refname:short)" in fmt:
            out = ("heads/" + name) if name in same_named_tags else name
        elif "%(refname:lstrip=2)" in fmt or "%(refname:strip=2)" in fmt:
            out = "origin/HEAD" if name == "origin" else name
        else:
            raise AssertionError("git stub: unknown format in %r" % fmt)
        return r.replace(name, out)

    class Proc:
        @staticmethod
        def run_subprocess_with_output(cmd):
            cmds.append(cmd)
            return [printed(r, cmd) for (r, _) in chosen]

        @staticmethod
        def run_subprocess_with_logging(cmd, **kw):
            return 0

        @staticmethod
        def exit_status_as_bool(runnable, quiet=False):
            return runnable() == 0

    with shadowed(git, (), extra={"process": Proc}):
        names = git.branches("/repo dir", remote=remote)
    want = [b for (_, b) in chosen if b is not None]
    core.note("refs", [r for (r, _) in chosen])
    core.note("branches", names)
    core.trace("n", len(names))
    observe("the branch list is exactly the repository's branch names (remote name and HEAD entries removed, nothing else cut off)", names == want)
    observe("the listing asks git for remote refs iff remote", len(cmds) == 1 and ("refs/remotes/" in cmds[0]) == remote)
    for vtext, V in (("2.1.0", (2, 1, 0, None)), ("2.2.1", (2, 2, 1, None)), ("3.0.0", (3, 0, 0, None)), ("4.0.0", (4, 0, 0, None))):
        try:
            got = versions.best_match(names, vtext)
        except Exception as e:  # noqa: BLE001
            core.note("best_match raised", repr(e))
            observe("best_match copes with every listed branch name", False)
            continue
        exp = documented_best_match([_structured(b) for b in want], V)
        observe("best match over what git lists, for %s: unrelated names (also with a version-like last path segment) are ignored" % vtext, got == exp)


class _Quiet:
    @staticmethod
    def warn(*a, **kw):
        pass

    @staticmethod
    def info(*a, **kw):
        pass


READS = [versions.best_match, versions.latest_bounded_minor, versions._latest_major, versions.VersionVariants, versions.components,
         versions.is_version_identifier, repo.RallyRepository.update, repo.RallyRepository._find_matching_tag]


def _v2_slices(tier):
    out = [{"branches": 1, "major": VM}, {"branches": 2, "major": VM, "_w": 5}, {"branches": 1, "major": VM, "suffix": "rc1-SNAPSHOT"}]
    out += [{"branches": 1, "major": 3}, {"branches": 1, "major": 1}, {"branches": 2, "major": 3, "_w": 5}, {"branches": 2, "major": 1, "_w": 5}]
    if tier == "thorough":
        out += [{"branches": 3, "major": VM, "unordered": True, "_w": 9}]
    return out


HARNESSES = [
    Harness("structured_minor", structured_minor, "symbolic",
            lambda tier: [{"branches": n, "_w": n} for n in ((1, 2, 3) if tier == "quick" else (1, 2, 3, 4))], reads=READS,
            bounds={"branches": "<=3 quick / <=4 thorough", "components": "unbounded non-negative integers", "kinds": "not-a-version, M, M.m, M.m.p, M.m.p-s"},
            stubs=["versions.components / is_version_identifier read fields of structured names (tied to the string forms by best_match_names)"],
            doc="nearest prior minor and latest major, unbounded integers"),
    Harness("best_match_names", best_match_names, "bounded-exhaustive", _v2_slices, reads=READS,
            bounds={"universe": "%d rendered names: master, feature-x, M, M.m (M 1..3, m 0..2), 2.m.p and 2.m.p-SNAPSHOT (p 0..1), 1.0.0, 3.0.0, 3.0.0-SNAPSHOT" % len(UNIVERSE),
                    "branch lists": "all ordered lists of <=2 names (thorough: all 3-subsets)", "versions": "M.m.p[-SNAPSHOT], M in 1..3, m 0..2, p 0..1"},
            doc="complete best_match on rendered names vs. the documented precedence"),
    Harness("special_versions", special_versions, "bounded-exhaustive", lambda tier: [{}], reads=READS, doc="unknown/serverless/malformed versions"),
    Harness("git_listing", git_listing, "bounded-exhaustive", lambda tier: [{"remote": True}, {"remote": False}],
            reads=READS + [git.branches, git._cleanup_remote_branch_names, git._cleanup_local_branch_names],
            stubs=["process.run_subprocess_* inside esrally.utils.git (returns a solver-chosen subset of the listed refs)"],
            bounds={"remote refs": [r for r, _ in REMOTE_REFS], "local refs": [r for r, _ in LOCAL_REFS], "versions": "2.1.0, 2.2.1, 3.0.0, 4.0.0"},
            doc="git's ref listing -> branch names -> best match (slash-named branches, HEAD entries, padding)"),
    Harness("tag_fallback", tag_fallback, "symbolic",
            lambda tier: [{"version": v, "V": V} for (v, V) in (("2.1.0", (2, 1, 0, None)), ("2.2.1", (2, 2, 1, None)), ("2.1.0-SNAPSHOT", (2, 1, 0, "SNAPSHOT")))],
            reads=READS, stubs=["git module inside esrally.utils.repo (local branches fixed to ['3'], symbolic tag subset, checkout fails for unknown revisions)", "console"],
            bounds={"tags": "any subset of %s" % FALLBACK_TAGS}, doc="v-tag fallback of local repositories"),
    Harness("repo_update", repo_update, "symbolic",
            lambda tier: [{"remote": r, "version": v, "V": V} for r in (True, False)
                          for (v, V) in (("2.1.0", (2, 1, 0, None)), ("2.2.1", (2, 2, 1, None)), ("3.0.0", (3, 0, 0, None)), ("2.1.0-SNAPSHOT", (2, 1, 0, "SNAPSHOT")),
                                         ("1.5.0", (1, 5, 0, None)), (None, None), ("", None), ("serverless", None))],
            reads=READS, stubs=["git module inside esrally.utils.repo (symbolic branch/tag subsets, current branch, checkout/rebase failures)", "console"],
            bounds={"remote/local branches": "any subset of %s" % [b[5] for b in CAND_BRANCHES], "tags": "any subset of %s" % CAND_TAGS,
                    "failures": "each checkout and the rebase may raise SupplyError"},
            doc="update checks out exactly the best match, falls back to v-tags, reports failures"),
]
