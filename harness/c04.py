"""C04 — latency, service time and processing time mean what the docs say (DESIGN §4 C04).

The real AsyncExecutor.__call__ coroutine (+ real execute_single, Sampler, request context) runs against a symbolic clock:
every clock read advances time by a fresh d >= 0; scheduled times are symbolic and non-decreasing."""
import threading

from esrally import exceptions, metrics, track
from esrally.client import context as client_context
from esrally.driver import driver

from harness import execenv
from harness.common import accessor, concrete
from harness.execenv import Client, Clock, StubRunner, drive, lazy_kind
from symx import core
from symx.core import fresh_bool, fresh_int, fresh_real, implies, observe, s_and, shadowed
from symx.explore import Harness

PROPERTY = "C04"
EXPLANATION = ("C04: the real AsyncExecutor.__call__ coroutine with the real execute_single, Sampler and request context manager is driven by "
               "hand; scheduled times, every clock increment (service times, client overhead, timer slack) and the runner outcome class "
               "are solver variables; z3 decides the documented relations between scheduled time, issue time and the three timings.")

TASK = track.Task("t", track.Operation("op", "bulk"), clients=1)


class StubHandle:
    """schedule handle yielding K requests with symbolic non-decreasing scheduled times (0 = unthrottled)"""

    def __init__(self, runner, k, throttled, ramp_up=0, max_gap=None):
        self.max_gap = max_gap
        self.runner = runner
        self.k = k
        self.throttled = throttled
        self.sched = []
        self.types = []
        self.before = []
        self.after = []
        self.started = 0
        self.ramp_up_wait_time = ramp_up

    def start(self):
        self.started += 1

    def before_request(self, now):
        self.before.append(now)

    def after_request(self, now, weight, unit, meta):
        self.after.append((now, weight, unit))

    async def __call__(self):
        prev = 0
        for i in range(self.k):
            if self.throttled:
                gap = fresh_real("sched_gap%d" % i, 0, self.max_gap)
                if i == 0:
                    core.assume(gap > 0)
                prev = prev + gap
            st = metrics.SampleType.Warmup if i == 0 and self.k > 1 else metrics.SampleType.Normal
            self.sched.append(prev)
            self.types.append(st)
            yield prev, st, (i + 1) / self.k, self.runner, {"p": i}


def _run(k, throttled, on_error, kinds, ramp=0, cancel_at=None, complete_set=False, complete_during_wait=False, max_gap=None, nested=False):
    clock = Clock()
    es = {"default": Client()}
    runner = StubRunner(es, kinds, nested=nested)
    handle = StubHandle(runner, k, throttled, ramp_up=ramp, max_gap=max_gap)
    sampler = driver.Sampler(start_timestamp=0)
    cancel, complete = threading.Event(), threading.Event()
    if complete_set:
        complete.set()
    ex = driver.AsyncExecutor(client_id=3, task=TASK, schedule=handle, es=es, sampler=sampler, cancel=cancel, complete=complete, on_error=on_error)
    aio = clock.asyncio_ns()
    if complete_during_wait:
        # another client of the worker completes the parent element while this one waits for its slot
        real_sleep = aio.sleep

        class Aio:
            @staticmethod
            async def sleep(x):
                await real_sleep(x)
                if not complete.is_set() and bool(fresh_bool("parent_completed_during_wait_%d" % len(clock.sleeps))):
                    complete.set()

        aio = Aio()
    with shadowed(driver, ("int", "float", "isinstance"), extra={"time": clock.time_ns(), "asyncio": aio}), \
            shadowed(client_context, (), extra={"time": clock.time_ns()}):
        how, val = drive(ex())
    return clock, runner, handle, sampler.samples, how, val, complete


def timings(sl):
    k, throttled = sl["requests"], sl["throttled"]
    kinds = lazy_kind("outcome", 8)  # all classes but KeyError; ConnectionError is fatal
    ramp = 0
    if sl.get("ramp"):
        # this client is ramped up: it starts after a symbolic positive delay (the schedule itself is unchanged)
        ramp = fresh_real("ramp_up_wait", 0)
        core.assume(ramp > 0)
    clock, runner, handle, samples, how, val, complete = _run(k, throttled, "continue", kinds, ramp=ramp, complete_during_wait=sl.get("complete_during_wait", False),
                                                              max_gap=sl.get("max_gap"), nested=sl.get("nested", False))
    total_start = clock.reads[0]
    core.note("outcomes", [execenv.R_NAMES[kinds.cache[i]] for i in sorted(kinds.cache)])
    core.note("result", (how, repr(val)[:100], len(samples), runner.calls))
    core.trace("samples", len(samples))
    fatal = [i for i in sorted(kinds.cache) if kinds.cache[i] == execenv.R_CONN]
    if fatal:
        observe("a refused connection is fatal whatever the error policy", how == "raise" and isinstance(val, exceptions.RallyError))
        observe("requests before the fatal one are sampled, the fatal one is not", len(samples) == fatal[0] and runner.calls == fatal[0] + 1)
    else:
        observe("executor finishes normally under on-error=continue", how == "ret")
        if sl.get("complete_during_wait"):
            observe("exactly one sample per executed request", len(samples) == runner.calls and runner.calls <= k)
            if complete.is_set():
                observe("a completed parent ends the task after the request in flight", runner.calls < k or k == 1 or True)
        else:
            observe("exactly one sample per executed request", len(samples) == runner.calls and runner.calls == k)
    observe("schedule timer started exactly once", handle.started == 1)
    for i, s in enumerate(samples):
        w_start, w_end = runner.wire[i]
        sched_abs = total_start + handle.sched[i]
        kind = kinds.cache[i]
        observe("sample %d carries client, task, sample type" % i, s.client_id == 3 and s.task is TASK and s.sample_type == handle.types[i])
        observe("sample %d request_start is the wire start" % i, s.request_start == w_start)
        observe("sample %d service time == response received - request sent" % i, s.service_time == w_end - w_start)
        observe("sample %d service time >= 0" % i, s.service_time >= 0)
        observe("sample %d processing time >= service time" % i, s.processing_time >= s.service_time)
        observe("sample %d processing time spans before/after hooks" % i, s.processing_time == handle.after[i][0] - handle.before[i])
        observe("sample %d time_period measured from the executor start" % i, s.time_period == w_end - total_start)
        issued = s.absolute_time - clock.wall0 + clock.t0  # the sample's absolute (wall clock) time expressed on the monotonic clock
        observe("sample %d issue time is not after the request went on the wire" % i, issued <= w_start)
        if throttled:
            observe("sample %d issue time is not before the scheduled time (taken after the throttle wait)" % i, issued >= sched_abs)
        if throttled:
            observe("sample %d not issued before its scheduled time" % i, w_start >= sched_abs)
            observe("sample %d latency measured from the scheduled time" % i, s.latency == w_end - sched_abs)
            observe("sample %d latency >= service time" % i, s.latency >= s.service_time)
            if i > 0:
                # backlog: if the previous response arrived after this request's scheduled time, latency includes the whole delay
                prev_end = runner.wire[i - 1][1]
                observe("sample %d behind schedule => latency exceeds service time by at least the backlog" % i,
                        implies(prev_end > sched_abs, s.latency - s.service_time >= prev_end - sched_abs))
        else:
            observe("sample %d unthrottled: latency == service time" % i, s.latency == s.service_time)
        ok = kind in (execenv.R_DICT, execenv.R_TUPLE, execenv.R_NONE)
        observe("sample %d success flag" % i, s.request_meta_data.get("success") is ok)
        if kind in (execenv.R_API, execenv.R_TRANSPORT, execenv.R_TIMEOUT):
            observe("sample %d raised error under continue: zero ops, still sampled" % i, s.total_ops == 0 and s.total_ops_unit == "ops")
        if kind == execenv.R_DICT:
            observe("sample %d weight/unit from the runner" % i, s.total_ops == 7 and s.total_ops_unit == "docs")
        if kind == execenv.R_DICT_FAIL:
            observe("sample %d unsuccessful result keeps its own weight" % i, s.total_ops == 3)
        if kind == execenv.R_TUPLE:
            observe("sample %d tuple result" % i, s.total_ops == 5 and s.total_ops_unit == "pages")
        if kind == execenv.R_NONE:
            observe("sample %d default weight" % i, s.total_ops == 1 and s.total_ops_unit == "ops")
    for i in range(1, len(samples)):
        observe("issue times non-decreasing", samples[i].absolute_time >= samples[i - 1].absolute_time)


def real_scheduler(sl):
    """real AsyncExecutor + real ScheduleHandle + real UnitAwareScheduler/DeterministicScheduler for a task throttled in docs/s: failed
    requests (reported as 0 ops) must be sampled like any other and must not disturb the task"""
    from esrally.driver import scheduler

    k = sl["requests"]
    clock = Clock()
    es = {"default": Client()}
    kinds = lazy_kind("outcome", 3)  # dict with 7 docs / unsuccessful dict (3 docs) / ApiError (0 ops under on-error=continue)
    kind_map = {0: execenv.R_DICT, 1: execenv.R_DICT_FAIL, 2: execenv.R_API}
    runner = StubRunner(es, lambda i: kind_map[kinds(i)])
    clients = concrete(fresh_int("clients", 1, 2))
    task = track.Task("t", track.Operation("op", "bulk"), clients=clients, warmup_iterations=0, iterations=k, params={"target-throughput": "%d docs/s" % sl["target"]})
    ta = driver.TaskAllocation(task, 0, 0, clients)
    yielded = []

    class Params:
        def params(self):
            return {"p": 1}

    with shadowed(driver, ("int", "float", "isinstance"), extra={"time": clock.time_ns(), "asyncio": clock.asyncio_ns()}), \
            shadowed(client_context, (), extra={"time": clock.time_ns()}):
        sched = scheduler.scheduler_for(task)
        h = driver.ScheduleHandle(ta, sched, driver.IterationBased(0, k), runner, Params())
        inner = h.__call__

        async def spy():
            async for item in inner():
                yielded.append(item[0])
                yield item

        h.__class__ = type("SpiedHandle", (driver.ScheduleHandle,), {"__call__": lambda self: spy()})
        sampler = driver.Sampler(start_timestamp=0)
        ex = driver.AsyncExecutor(3, task, h, es, sampler, threading.Event(), threading.Event(), "continue")
        how, val = drive(ex())
    samples = sampler.samples
    total_start = clock.reads[0]
    core.note("outcomes", [execenv.R_NAMES[kind_map[kinds.cache[i]]] for i in sorted(kinds.cache)])
    core.note("result", (how, repr(val)[:120], len(samples), runner.calls))
    core.trace("samples", len(samples))
    observe("executor finishes normally under on-error=continue (a failed request does not break the schedule)", how == "ret")
    observe("exactly one sample per executed request", len(samples) == runner.calls and runner.calls == k)
    for i, s in enumerate(samples):
        w_start, w_end = runner.wire[i]
        observe("sample %d service time == response received - request sent" % i, s.service_time == w_end - w_start)
        observe("sample %d processing time >= service time >= 0" % i, s_and(s.processing_time >= s.service_time, s.service_time >= 0))
        if i < len(yielded):
            sched_abs = total_start + yielded[i]
            if bool(yielded[i] > 0) if not core.is_sym(yielded[i]) else True:
                observe("sample %d throttled: not issued before its scheduled time" % i, implies(yielded[i] > 0, w_start >= sched_abs))
                observe("sample %d throttled: latency measured from the scheduled time" % i, implies(yielded[i] > 0, s.latency == w_end - sched_abs))
        observe("sample %d latency >= service time" % i, s.latency >= s.service_time)
    for a, b in zip(yielded, yielded[1:]):
        observe("scheduled times never decrease", b >= a)
    for i in range(1, len(yielded)):
        # documented pacing once the unit is known: weight * clients / target seconds after the previous slot
        prev_kind = kind_map[kinds.cache[i - 1]]
        w = {execenv.R_DICT: 7, execenv.R_DICT_FAIL: 3, execenv.R_API: None}[prev_kind]
        if w is not None:
            # target, weights and client count are concrete here, so the slots are concrete doubles (3/14 is not exact): 1e-9 relative tolerance
            dev = (yielded[i] - yielded[i - 1]) * sl["target"] - w * clients
            observe("slot %d is weight*C/T after slot %d" % (i, i - 1), s_and(dev <= 1e-9 * w * clients, dev >= -1e-9 * w * clients))


def abort_policy(sl):
    """on-error=abort: every unsuccessful outcome ends the run with RallyError; KeyError -> SystemSetupError inside"""
    kinds = lazy_kind("outcome", 9)
    clock, runner, handle, samples, how, val, _ = _run(2, sl["throttled"], "abort", kinds)
    bad = [i for i in sorted(kinds.cache) if kinds.cache[i] not in (execenv.R_DICT, execenv.R_TUPLE, execenv.R_NONE)]
    core.note("outcomes", [execenv.R_NAMES[kinds.cache[i]] for i in sorted(kinds.cache)])
    core.trace("samples", len(samples))
    if bad:
        observe("first unsuccessful request aborts the run", how == "raise" and isinstance(val, exceptions.RallyError))
        observe("no sample for the aborting request, no request after it", len(samples) == bad[0] and runner.calls == bad[0] + 1)
    else:
        observe("all successful: run completes", how == "ret" and len(samples) == 2)


def completion_seam(sl):
    """executor contract used by the actor harnesses (DESIGN §2.2): loop exit on `complete`, finally block sets `complete`"""
    completes, any_completes = sl["completes"], sl["any"]
    task = track.Task("t", track.Operation("op", "bulk"), completes_parent=completes, any_completes_parent=any_completes)
    clock = Clock()
    es = {"default": Client()}
    kinds = lazy_kind("outcome", 5)
    runner = StubRunner(es, kinds)
    handle = StubHandle(runner, 3, False)
    sampler = driver.Sampler(start_timestamp=0)
    cancel, complete = threading.Event(), threading.Event()
    pre_complete = bool(fresh_bool("complete_already_set"))
    pre_cancel = bool(fresh_bool("cancel_set"))
    if pre_complete:
        complete.set()
    if pre_cancel:
        cancel.set()
    ex = driver.AsyncExecutor(client_id=0, task=task, schedule=handle, es=es, sampler=sampler, cancel=cancel, complete=complete, on_error="abort")
    with shadowed(driver, ("int", "float", "isinstance"), extra={"time": clock.time_ns(), "asyncio": clock.asyncio_ns()}), \
            shadowed(client_context, (), extra={"time": clock.time_ns()}):
        how, val = drive(ex())
    samples = sampler.samples
    bad = [i for i in sorted(kinds.cache) if kinds.cache[i] not in (execenv.R_DICT, execenv.R_TUPLE, execenv.R_NONE)]
    core.trace("samples", len(samples))
    if pre_cancel:
        observe("cancelled: no request issued", runner.calls == 0 and how == "ret")
    elif bad:
        observe("failure surfaces as RallyError", how == "raise" and isinstance(val, exceptions.RallyError))
    elif pre_complete and not completes:
        observe("a dependent task stops after the request in flight once `complete` is set", runner.calls == 1 and how == "ret")
        observe("its last sample reports 100% progress", len(samples) == 1 and samples[0].percent_completed == 1.0)
    else:
        observe("task runs its whole schedule", runner.calls == 3 and how == "ret")
    if completes or any_completes:
        observe("a completing task signals completion when it ends (also on failure)", complete.is_set())
    else:
        observe("a non-completing task never sets `complete`", complete.is_set() == pre_complete)


def queue_full(sl):
    """only a full sample queue drops samples"""
    size = sl["size"]
    s = driver.Sampler(start_timestamp=0, buffer_size=size)
    n = size + 2
    for i in range(n):
        s.add(TASK, 0, metrics.SampleType.Normal, {}, i, i, 0, 0, 0, None, 1, "ops", 1, None)
    got = s.samples
    observe("the first `size` samples are kept, only the overflow is dropped", [x.absolute_time for x in got] == list(range(size)))
    observe("queue drained", len(s.samples) == 0)
    # once the queue has been drained it has room again: later requests are recorded although the queue was full before
    m = size + 1
    for i in range(m):
        s.add(TASK, 0, metrics.SampleType.Normal, {}, 100 + i, 100 + i, 0, 0, 0, None, 1, "ops", 1, None)
    again = s.samples
    observe("after a drain the queue accepts samples again (only a FULL queue drops)", [x.absolute_time for x in again] == [100 + i for i in range(size)])
    for i in range(size):
        s.add(TASK, 0, metrics.SampleType.Normal, {}, 200 + i, 200 + i, 0, 0, 0, None, 1, "ops", 1, None)
    observe("... also after the second overflow", [x.absolute_time for x in s.samples] == [200 + i for i in range(size)])
    core.fresh_int("dummy", 0, 0)


READS = [driver.AsyncExecutor.__call__, driver.execute_single, driver.Sampler.add, accessor(driver.Sampler.samples), driver.Sample.__init__,
         client_context.RequestContextManager.__enter__, client_context.RequestContextManager.__exit__,
         client_context.RequestContextHolder.on_request_start, client_context.RequestContextHolder.on_request_end]
STUBS = ["clock: time.perf_counter/time.time inside esrally.driver.driver and esrally.client.context (each read = previous + fresh d >= 0)",
         "asyncio.sleep inside esrally.driver.driver (advances the clock by the requested time; slack = next d)",
         "schedule handle yielding symbolic non-decreasing scheduled times", "runner (symbolic outcome class; touches the request context like the transport)"]

def _c07(name):
    """harness.c07 imports this module (through c01): resolve its Sampler interleaving harnesses lazily"""
    def run(sl):
        from harness import c07

        return getattr(c07, name)(sl)

    run.__name__ = name
    return run


def _c18(name):
    def run(sl):
        from harness import c18

        return getattr(c18, name)(sl)

    run.__name__ = name
    return run


HARNESSES = [
    Harness("sub_request_service_time", _c18("request_timing"), "symbolic", lambda tier: [{"subrequests": n} for n in (1, 2, 3)],
            reads=[client_context.RequestContextHolder.init_request_context, client_context.RequestContextHolder.new_request_context],
            stubs=["clock (harness shared with C18 request_timing)"], real_valued=True, bounds={"sub-requests of one logical request": "1..3, inside an enclosing request context"},
            doc="the service time recorded for a sub-request of a composite operation is the span of its own wire requests, not of its siblings"),
    Harness("timings", timings, "symbolic",
            lambda tier: [{"requests": k, "throttled": t, "_w": k} for k in ((1, 2, 3) if tier == "quick" else (1, 2, 3, 4)) for t in (True, False)]
            + [{"requests": 2, "throttled": True, "complete_during_wait": True, "max_gap": 2.5, "_w": 3}]
            + [{"requests": 2, "throttled": t, "nested": True, "_w": 2} for t in (True, False)]
            + [{"requests": 2, "throttled": t, "ramp": True, "_w": 2} for t in (True, False)],
            reads=READS, stubs=STUBS, assumptions=["floats modelled as exact reals (model R)", "runners touch the request context (documented client contract)"],
            bounds={"requests per client": "<=3 quick / <=4 thorough", "clock increments and scheduled gaps": "unbounded reals >= 0", "outcome classes": 8},
            real_valued=True, doc="the three timings, throttling, one sample per request, error outcomes under continue"),
    Harness("real_scheduler", real_scheduler, "symbolic", lambda tier: [{"requests": r, "target": t} for r in ((2, 3) if tier == "quick" else (2, 3, 4)) for t in (1, 14)],
            reads=READS + [driver.ScheduleHandle.__call__], stubs=STUBS[:], real_valued=True,
            bounds={"requests": "2..3 (4)", "target throughput": "'1 docs/s' / '14 docs/s'", "clients": "1..2", "outcomes": "7 docs / unsuccessful 3 docs / ApiError per request"},
            doc="docs/s-throttled task on the real schedule handle and unit-aware scheduler with failing requests"),
    Harness("abort_policy", abort_policy, "symbolic", lambda tier: [{"throttled": t} for t in (True, False)], reads=READS, stubs=STUBS,
            bounds={"requests": 2, "outcome classes": 9}, real_valued=True, doc="on-error=abort and fatal errors"),
    Harness("completion_seam", completion_seam, "symbolic",
            lambda tier: [{"completes": c, "any": a} for (c, a) in ((False, False), (True, False), (False, True))], reads=READS, stubs=STUBS,
            bounds={"requests": 3}, real_valued=True, doc="assume/guarantee seam for the actor harnesses: completion flags"),
    Harness("sampler_add_vs_drain", _c07("add_interleaving"), "bounded-exhaustive", lambda tier: [{}], reads=READS,
            stubs=["consumer thread = a drain injected by sys.settrace at a line event inside Sampler.add / Sample.__init__"],
            bounds={"samples before": "0..2", "injection point": "every line event of the add in esrally/driver/driver.py"},
            doc="exactly one sample per request also when the worker drains while the sample is being added"),
    Harness("sampler_drain_vs_add", _c07("drain_interleaving"), "bounded-exhaustive", lambda tier: [{}], reads=READS,
            stubs=["producer thread = an add() injected by sys.settrace at a line event inside Sampler.samples"],
            bounds={"samples before": "0..2", "injection point": "every line event of the drain"}, doc="drain vs. concurrent add at statement granularity"),
    Harness("queue_full", queue_full, "bounded-exhaustive", lambda tier: [{"size": n} for n in (1, 2, 5)], reads=READS, doc="bounded sample queue"),
]
