"""C10 — a loaded track is exactly what the file says; invalid tracks are rejected (DESIGN §4 C10).

The real TrackSpecificationReader runs on specification dicts (what json.loads of the rendered, schema-valid track file yields) whose
optional keys are guarded by solver variables and whose numeric leaves are symbolic integers.  Jinja rendering, rally.collect,
jsonschema validation and track-parameter accounting are OUTSIDE this check (string/IO-heavy library code, DESIGN §C10)."""
from esrally import exceptions, track
from esrally.track import loader

from harness.common import concrete
from symx import core
from symx.core import fresh_bool, fresh_int, observe, shadowed
from symx.explore import Harness

PROPERTY = "C10"
EXPLANATION = ("C10: TrackSpecificationReader.__call__/_create_challenges/parse_parallel/parse_task/parse_operations/_create_corpora run on spec "
               "dicts with symbolic presence of every optional timing field, symbolic integer values (so the ramp-up vs warm-up comparison is "
               "decided for all values), solver-enumerated names (duplicates included), completed-by targets, default flags and top-level "
               "layouts; the oracle is the rule list of the property statement for rejection and field-by-field equality for fidelity.")

FIELDS = ["warmup-iterations", "iterations", "warmup-time-period", "time-period", "ramp-up-time-period"]
ATTR = {"warmup-iterations": "warmup_iterations", "iterations": "iterations", "warmup-time-period": "warmup_time_period", "time-period": "time_period",
        "ramp-up-time-period": "ramp_up_time_period"}
REJECT = (loader.TrackSyntaxError, exceptions.InvalidSyntax)


def reader(**kw):
    return loader.TrackSpecificationReader(**kw)


def _fields(prefix, allow=FIELDS, mask=None):
    out = {}
    for i, f in enumerate(allow):
        if (bool(mask >> i & 1) if mask is not None else bool(fresh_bool("%s_has_%s" % (prefix, f)))):
            out[f] = fresh_int("%s_%s" % (prefix, f), 0)
    return out


def _rule_violation(vals):
    """documented rules on the effective values of one task (None = unset); returns a python bool (forks on symbolic comparisons)"""
    wi, it, wt, tp, ru = [vals.get(f) for f in FIELDS]
    # "mixing time periods and iterations is not allowed": any iteration property together with any time-period property
    if (wi is not None or it is not None) and (wt is not None or tp is not None):
        return True
    if (wi is not None or it is not None) and ru is not None:
        return True
    if ru is not None:
        if wt is None:
            return True
        if bool(wt < ru):
            return True
    return False


def _load(spec, **kw):
    try:
        return "ret", reader(**kw)("unittest", spec, "/mappings")
    except REJECT as e:
        return "reject", e
    except Exception as e:  # noqa: BLE001 - anything else is neither a load nor a documented rejection
        return "crash", e


def task_rules(sl):
    """one sequential task: every combination of the five timing fields with symbolic values"""
    f = _fields("task")
    t = dict({"operation": "force-merge", "clients": fresh_int("clients", 1)}, **f)
    if bool(fresh_bool("has_name")):
        t["name"] = "my-task"
    if bool(fresh_bool("has_tags")):
        t["tags"] = ["a", "b"]
    # throughput target: docs/track.rst "Define either target-throughput or target-interval but not both (otherwise Rally will raise an error)";
    # a target Rally cannot interpret is no target either
    tt_form = ["none", "throughput number", "throughput with unit", "interval", "both", "uninterpretable", "wrong type"][concrete(fresh_int("throughput_target_form", 0, 6))]
    tt_val = concrete(fresh_int("throughput_target_value", 1, 3))  # how a valid target is interpreted for every value is C05's target_throughput
    if tt_form == "throughput number":
        t["target-throughput"] = tt_val
    elif tt_form == "throughput with unit":
        t["target-throughput"] = "10 docs/s"
    elif tt_form == "interval":
        t["target-interval"] = tt_val
    elif tt_form == "both":
        t["target-throughput"], t["target-interval"] = tt_val, 5
    elif tt_form == "uninterpretable":
        t["target-throughput"] = "fast"
    elif tt_form == "wrong type":
        t["target-interval"] = "5"
    spec = {"operations": [{"name": "force-merge", "operation-type": "force-merge"}], "schedule": [t]}
    how, res = _load(spec)
    bad = _rule_violation(f) or tt_form in ("both", "uninterpretable", "wrong type")
    core.note("throughput target", tt_form)
    core.note("fields", sorted(f))
    core.note("outcome", (how, repr(res)[:100]))
    core.trace("rejected", how == "reject")
    observe("never anything but a load or a track syntax error", how in ("ret", "reject"))
    observe("rejected iff a documented timing rule is violated", (how == "reject") == bad)
    if how == "ret":
        ch = res.challenges[0]
        task = ch.schedule[0]
        for fld in FIELDS:
            got = getattr(task, ATTR[fld])
            observe("%s exactly as written (None if absent)" % fld, (got is None) if fld not in f else (got is f[fld]))
        observe("clients as written", task.clients is t["clients"])
        observe("throughput target as written", task.params.get("target-throughput") is t.get("target-throughput") and task.params.get("target-interval") is t.get("target-interval"))
        observe("name defaults to the operation name", task.name == t.get("name", "force-merge"))
        observe("tags as written", task.tags == t.get("tags", []))
        observe("single auto-generated challenge is default and selected", ch.default and ch.selected and ch.auto_generated and ch.name == "default")
        observe("operation resolved by name", task.operation.name == "force-merge" and task.operation.type == "force-merge")


def parallel_rules(sl):
    """a parallel element with defaults and two tasks: inheritance, ramp-up rules, completed-by"""
    pf = _fields("parallel", mask=sl.get("pmask"))
    names = ["a", "b", "c"]
    tasks, tfs = [], []
    ntasks = sl["tasks"]
    for i in range(ntasks):
        tf = _fields("task%d" % i, allow=sl["task_fields"])
        nm = names[concrete(fresh_int("task%d_name" % i, 0, 1 if sl.get("dup_names") else 0)) + (0 if sl.get("dup_names") else i)]
        d = dict({"operation": "force-merge", "name": nm}, **tf)
        if bool(fresh_bool("task%d_has_clients" % i)):
            d["clients"] = fresh_int("task%d_clients" % i, 1)
        tasks.append(d)
        tfs.append(tf)
    cb = [None, "a", "b", "any", "zzz", ""][concrete(fresh_int("completed_by", 0, 5))]  # the empty string names no task either
    par = dict({"tasks": tasks}, **pf)
    if cb is not None:
        par["completed-by"] = cb
    if bool(fresh_bool("parallel_has_clients")):
        par["clients"] = fresh_int("parallel_clients", 1)
    spec = {"operations": [{"name": "force-merge", "operation-type": "force-merge"}], "schedule": [{"parallel": par}]}
    how, res = _load(spec)
    # oracle
    eff = [{f: tf.get(f, pf.get(f)) for f in FIELDS if tf.get(f, pf.get(f)) is not None} for tf in tfs]
    bad = any(_rule_violation(e) for e in eff)
    pru = pf.get("ramp-up-time-period")
    for e in eff:
        ru = e.get("ramp-up-time-period")
        if (ru is None) != (pru is None) or (ru is not None and pru is not None and bool(ru != pru)):
            bad = True
    tnames = [t["name"] for t in tasks]
    if len(set(tnames)) != len(tnames):
        bad = True  # duplicate task names in one challenge
    if cb is not None and cb != "any":
        if tnames.count(cb) != 1:
            bad = True  # unknown or ambiguous completed-by target
    core.note("parallel", sorted(pf))
    core.note("tasks", [(t["name"], sorted(tf)) for t, tf in zip(tasks, tfs)])
    core.note("completed-by", cb)
    core.note("outcome", (how, repr(res)[:100]))
    core.trace("rejected", how == "reject")
    observe("never anything but a load or a track syntax error", how in ("ret", "reject"))
    observe("rejected iff a documented rule is violated (timing mix, ramp-up, duplicate task, completed-by target)", (how == "reject") == bad)
    if how == "ret":
        p = res.challenges[0].schedule[0]
        observe("parallel element with its tasks in order", isinstance(p, track.Parallel) and [t.name for t in p.tasks] == tnames)
        observe("parallel clients as written", (p._clients is par["clients"]) if "clients" in par else p._clients is None)
        for t, tf, d in zip(p.tasks, tfs, tasks):
            for fld in FIELDS:
                want = tf.get(fld, pf.get(fld))
                got = getattr(t, ATTR[fld])
                observe("task %s: %s is its own value, else the parallel element's, else unset" % (t.name, fld), (got is None) if want is None else (got is want))
            observe("task %s: clients default 1" % t.name, (t.clients is d["clients"]) if "clients" in d else t.clients == 1)
            observe("task %s: completes the parent iff it is the completed-by target" % t.name, t.completes_parent == (cb == t.name))
            observe("task %s: any-completes iff completed-by is any" % t.name, t.any_completes_parent == (cb == "any"))


def challenge_rules(sl):
    n = sl["challenges"]
    names = ["c1", "c2", "c3"]
    specs = []
    for i in range(n):
        nm = names[concrete(fresh_int("challenge%d_name" % i, 0, 1))] if sl.get("dups") else names[i]
        c = {"name": nm, "schedule": [{"operation": "force-merge", "name": "t%d" % i}]}
        d = concrete(fresh_int("challenge%d_default" % i, 0, 2))  # absent / false / true
        if d:
            c["default"] = d == 2
        specs.append(c)
    selected = [None, "c1", "c2"][concrete(fresh_int("selected", 0, 2))]
    layout = sl["layout"]
    spec = {"operations": [{"name": "force-merge", "operation-type": "force-merge"}]}
    if layout == "challenges":
        spec["challenges"] = specs
    else:
        spec["challenge"] = specs[0]
        specs = specs[:1]
        n = 1
    how, res = _load(spec, selected_challenge=selected)
    cnames = [c["name"] for c in specs]
    defaults = [bool(c.get("default")) for c in specs]
    bad = len(set(cnames)) != len(cnames) or (n > 1 and sum(defaults) != 1)
    core.note("challenges", [(c["name"], c.get("default")) for c in specs])
    core.note("outcome", (how, repr(res)[:100]))
    core.trace("rejected", how == "reject")
    observe("never anything but a load or a track syntax error", how in ("ret", "reject"))
    observe("rejected iff duplicate challenge names, or no / several defaults among several challenges", (how == "reject") == bad)
    if how == "ret":
        observe("challenges in file order", [c.name for c in res.challenges] == cnames)
        observe("default flags", [bool(c.default) for c in res.challenges] == (defaults if n > 1 else [True]))
        observe("selected challenge", [bool(c.selected) for c in res.challenges] == ([c == selected for c in cnames] if n > 1 else [True]))
        observe("schedule of each challenge is its own", [[t.name for t in c.schedule] for c in res.challenges] == [[c["schedule"][0]["name"]] for c in specs])


def toplevel_layout(sl):
    has = {k: bool(fresh_bool("has_" + k)) for k in ("schedule", "challenge", "challenges")}
    spec = {"operations": [{"name": "force-merge", "operation-type": "force-merge"}]}
    t = {"operation": "force-merge"}
    if has["schedule"]:
        spec["schedule"] = [t]
    if has["challenge"]:
        spec["challenge"] = {"name": "c", "schedule": [dict(t)]}
    if has["challenges"]:
        spec["challenges"] = [{"name": "c", "schedule": [dict(t)]}]
    both = bool(fresh_bool("indices_and_data_streams"))
    if bool(fresh_bool("has_indices")) or both:
        spec["indices"] = [{"name": "idx"}]
    if both:
        spec["data-streams"] = [{"name": "ds"}]
    how, res = _load(spec)
    bad = sum(has.values()) != 1 or both
    core.trace("rejected", how == "reject")
    observe("never anything but a load or a track syntax error", how in ("ret", "reject"))
    observe("rejected iff not exactly one of schedule/challenge/challenges, or indices together with data streams", (how == "reject") == bad)


def corpora_rules(sl):
    """one corpus with two document sets: targets (own, corpus default, single index / data stream default), inherited base-url and
    action-and-meta-data flags, sizes and counts are exactly those written; a missing mandatory target is rejected"""
    streams = sl["streams"]
    # 0: the track declares neither indices nor data streams (they come from templates / a create-index operation / exist already)
    n_targets = concrete(fresh_int("number_of_indices_or_data_streams", 0, 2))
    key = "target-data-stream" if streams else "target-index"
    names = ["t%d" % i for i in range(n_targets)]
    spec = {"operations": [{"name": "force-merge", "operation-type": "force-merge"}], "schedule": [{"operation": "force-merge"}]}
    if names:
        spec["data-streams" if streams else "indices"] = [{"name": n} for n in names]
    corpus = {"name": "corpus", "documents": []}
    corpus_target = "corpus-target" if bool(fresh_bool("corpus_has_default_target")) else None
    if corpus_target:
        corpus[key] = corpus_target
    corpus_url = "http://corpus.example.org" if bool(fresh_bool("corpus_has_base_url")) else None
    if corpus_url:
        corpus["base-url"] = corpus_url
    corpus_meta = bool(fresh_bool("corpus_includes_action_and_meta_data"))
    if corpus_meta:
        corpus["includes-action-and-meta-data"] = True
    docs = []
    for i in range(2):
        d = {"source-file": "docs%d.json.bz2" % i if i == 0 else "docs1.json", "document-count": fresh_int("document_count_%d" % i, 1)}
        own = "own-target-%d" % i if bool(fresh_bool("doc%d_has_own_target" % i)) else None
        if own:
            d[key] = own
        url = "http://doc%d.example.org" % i if bool(fresh_bool("doc%d_has_base_url" % i)) else None
        if url:
            d["base-url"] = url
        meta = None
        if bool(fresh_bool("doc%d_sets_action_and_meta_data_flag" % i)):
            meta = bool(fresh_bool("doc%d_action_and_meta_data_value" % i))
            d["includes-action-and-meta-data"] = meta
        if i == 0:
            d["compressed-bytes"] = fresh_int("compressed_bytes_0", 1)
            d["uncompressed-bytes"] = fresh_int("uncompressed_bytes_0", 1)
        docs.append((d, own, url, meta))
        corpus["documents"].append(d)
    spec["corpora"] = [corpus]
    how, res = _load(spec)
    core.trace("rejected", how == "reject")
    observe("never anything but a load or a track syntax error", how in ("ret", "reject"))
    default_target = corpus_target or (names[0] if n_targets == 1 else None)
    exp = []
    for (d, own, url, meta) in docs:
        with_meta = meta if meta is not None else corpus_meta
        exp.append((None if with_meta else (own or default_target), with_meta, url or corpus_url))
    must_reject = any((not with_meta) and target is None for (target, with_meta, _) in exp)
    core.note("expected", exp)
    observe("a document set without any applicable target is rejected, everything else loads", (how == "reject") == must_reject)
    if how != "ret" or must_reject:
        return
    got = res.corpora[0].documents
    observe("both document sets loaded, in order", len(got) == 2 and got[0].document_archive == "docs0.json.bz2" and got[0].document_file == "docs0.json"
            and got[1].document_archive is None and got[1].document_file == "docs1.json")
    for i, (g, (target, with_meta, url)) in enumerate(zip(got, exp)):
        t_got = g.target_data_stream if streams else g.target_index
        observe("document set %d: target is its own, else the corpus default, else the only index / data stream" % i, t_got == target)
        observe("document set %d: the other kind of target stays unset" % i, (g.target_index if streams else g.target_data_stream) is None)
        observe("document set %d: action-and-meta-data flag is its own, else the corpus default" % i, g.includes_action_and_meta_data == with_meta)
        observe("document set %d: base-url is its own, else the corpus default" % i, g.base_url == url)
        observe("document set %d: document count as written" % i, g.number_of_documents == docs[i][0]["document-count"])
    observe("sizes as written / absent", got[0].compressed_size_in_bytes == docs[0][0]["compressed-bytes"] and got[0].uncompressed_size_in_bytes == docs[0][0]["uncompressed-bytes"]
            and got[1].compressed_size_in_bytes is None and got[1].uncompressed_size_in_bytes is None)


def operation_references(sl):
    """how a task names its operation: a name from the operations block, an inline definition (with parameters), or a bare operation type;
    each task's operation is exactly what ITS OWN entry says, whatever other tasks (also of other challenges) defined inline before"""
    forms = ["declared", "inline-with-params", "bare-type", "inline-named"]
    n = 3
    pick = [forms[concrete(fresh_int("operation_form_of_task_%d" % i, 0, len(forms) - 1))] for i in range(n)]
    across = bool(fresh_bool("third_task_in_a_second_challenge"))
    seg = [fresh_int("max_num_segments_%d" % i, 1) for i in range(n)]

    def task(i):
        form = pick[i]
        if form == "declared":
            op = "declared-merge"
        elif form == "inline-with-params":
            op = {"operation-type": "force-merge", "max-num-segments": seg[i]}
        elif form == "inline-named":
            op = {"name": "declared-merge-%d" % i, "operation-type": "force-merge", "max-num-segments": seg[i]}
        else:
            op = "force-merge"
        return {"name": "task-%d" % i, "operation": op}

    spec = {"operations": [{"name": "declared-merge", "operation-type": "force-merge", "max-num-segments": 99}], "indices": [{"name": "idx"}]}
    if across:
        spec["challenges"] = [{"name": "c1", "default": True, "schedule": [task(0), task(1)]}, {"name": "c2", "schedule": [task(2)]}]
    else:
        spec["schedule"] = [task(0), task(1), task(2)]
    how, res = _load(spec)
    core.note("forms", pick)
    core.trace("how", how)
    observe("a track using all documented ways to name an operation loads", how == "ret")
    if how != "ret":
        return
    tasks = [t for ch in res.challenges for t in ch.schedule]
    observe("all tasks present in order", [t.name for t in tasks] == ["task-%d" % i for i in range(n)])
    for i, t in enumerate(tasks):
        form, prm = pick[i], t.operation.params
        observe("task %d runs a force-merge" % i, t.operation.type == "force-merge")
        if form == "declared":
            observe("task %d: operation from the operations block with ITS parameters" % i, prm.get("max-num-segments") == 99 and t.operation.name == "declared-merge")
        elif form in ("inline-with-params", "inline-named"):
            observe("task %d: inline operation with its own parameters" % i, prm.get("max-num-segments") is seg[i] or prm.get("max-num-segments") == seg[i])
        else:
            observe("task %d: a bare operation type is a parameterless operation of that type (no parameters from other tasks' inline definitions)" % i,
                    "max-num-segments" not in prm)


def names_rules(sl):
    """duplicate operation / corpus names; duplicate task names sequentially, across and within parallel elements"""
    kind = sl["kind"]
    spec = {"operations": [{"name": "force-merge", "operation-type": "force-merge"}], "indices": [{"name": "idx"}]}
    dup = bool(fresh_bool("second_name_equals_first"))
    n2 = "first" if dup else "second"
    if kind == "operations":
        spec["operations"] = [{"name": "first", "operation-type": "force-merge"}, {"name": n2, "operation-type": "refresh"}]
        spec["schedule"] = [{"operation": "first"}]
    elif kind == "corpora":
        doc = {"source-file": "docs.json", "document-count": 10}
        spec["corpora"] = [{"name": "first", "documents": [dict(doc)]}, {"name": n2, "documents": [dict(doc)]}]
        spec["schedule"] = [{"operation": "force-merge"}]
    elif kind == "tasks-sequential":
        spec["schedule"] = [{"operation": "force-merge", "name": "first"}, {"operation": "force-merge", "name": n2}]
    elif kind == "tasks-across-parallel":
        spec["schedule"] = [{"operation": "force-merge", "name": "first"}, {"parallel": {"tasks": [{"operation": "force-merge", "name": n2}]}}]
    elif kind == "tasks-within-parallel":
        spec["schedule"] = [{"parallel": {"tasks": [{"operation": "force-merge", "name": "first"}, {"operation": "force-merge", "name": n2}]}}]
    elif kind == "tasks-default-names":
        # unnamed tasks take the operation name: two tasks with the same operation collide
        spec["schedule"] = [{"operation": "force-merge"}, {"operation": "force-merge", **({} if dup else {"name": "other"})}]
    how, res = _load(spec)
    core.trace("rejected", how == "reject")
    observe("never anything but a load or a track syntax error", how in ("ret", "reject"))
    observe("duplicate %s names rejected, distinct ones loaded" % kind, (how == "reject") == dup)


def operation_types(sl):
    ops = list(track.OperationType)
    i = concrete(fresh_int("operation_type", 0, len(ops) - 1))
    t = ops[i]
    observe("from_hyphenated_string(to_hyphenated_string(t)) is t", track.OperationType.from_hyphenated_string(t.to_hyphenated_string()) is t)
    spec = {"schedule": [{"operation": {"operation-type": t.to_hyphenated_string(), "name": "op", "x": 1}}]}
    how, res = _load(spec)
    observe("inline operation of every built-in type loads", how == "ret")
    if how == "ret":
        op = res.challenges[0].schedule[0].operation
        observe("operation type, name and parameters as written", op.type == t.to_hyphenated_string() and op.name == "op" and op.params.get("x") == 1)
        observe("include-in-reporting defaults to 'not an admin operation'", op.params["include-in-reporting"] == (not t.admin_op))


# ------------------------------------------------------------------------------------------------------------------
# template stage (bounded, Jinja itself runs concretely): track parameters are substituted wherever the template refers to them
# ------------------------------------------------------------------------------------------------------------------
CONSTRUCTS = {
    "direct": ('{{ p }}', None),
    "default filter": ('{{ p | default(500) }}', 500),
    "macro in the same file": ('{% macro m() %}{{ p | default(500) }}{% endmacro %}{{ m() }}', 500),
    "macro imported without context": ('{% import "macros.j2" as mm %}{{ mm.m() }}', 500),
    "macro imported with context": ('{% import "macros.j2" as mm with context %}{{ mm.m() }}', 500),
    "included part": ('{% include "part.j2" %}', 500),
    "rally.collect": ('{% import "rally.helpers" as rally with context %}{{ rally.collect(parts="parts/*.json") }}', 500),
    "conditional": ('{% if p is defined %}{{ p }}{% else %}7{% endif %}', 7),
    "set": ('{% set x = p | default(500) %}{{ x }}', 500),
    "exists_set_param": ('{% import "rally.helpers" as rally %}1{{ rally.exists_set_param("bulk", p, default_value=500) }}', None),
}
PARTS = {"macros.j2": '{% macro m() %}{{ p | default(500) }}{% endmacro %}', "part.j2": '{{ p | default(500) }}', "parts/a.json": '{{ p | default(500) }}'}


def template_params(sl):
    import json

    import jinja2

    name = sl["construct"]
    expr, default = CONSTRUCTS[name]
    given = bool(fresh_bool("parameter_given"))
    value = [0, 1, 1000, 65536][concrete(fresh_int("parameter_value", 0, 3))] if given else None
    other = bool(fresh_bool("unrelated_parameter_given"))
    tvars = {}
    if given:
        tvars["p"] = value
    if other:
        tvars["q"] = 3
    # a user parameter must never override Rally's internal template variables
    if bool(fresh_bool("user_tries_to_override_internal")):
        tvars["glob"] = "not-a-function"
    # a string-valued parameter is substituted verbatim (date-math index names, query strings, quotes of the other kind, ampersands)
    text_value = ["plain", "<logs-{now/d}>", "bytes:>1024 AND status:<500", "logs & metrics", "it's"][concrete(fresh_int("string_parameter_value", 0, 4))]
    tvars["s"] = text_value
    if name == "exists_set_param":
        source = '{"schedule": [{"operation": {"operation-type": "bulk", "index": "{{ s }}", "x": %s}}]}' % expr
    else:
        source = '{"schedule": [{"operation": {"operation-type": "bulk", "index": "{{ s }}", "bulk-size": %s}}]}' % expr
    internal = loader.default_internal_template_vars(glob_helper=lambda f: ["parts/a.json"] if f == "parts/*.json" else [])
    try:
        text = loader.render_template(source, template_vars=tvars, template_internal_vars=internal, loader=jinja2.DictLoader(PARTS))
        doc = json.loads(text)
        how = "ret"
    except Exception as e:  # noqa: BLE001 - an unusable rendering is a rejection at this stage
        how, doc, text = "reject", None, repr(e)
    core.note("construct", name)
    core.note("params", tvars)
    core.note("rendered", text[:200] if isinstance(text, str) else text)
    core.trace("given", given)
    if name == "direct" and not given:
        observe("a template that needs an undefined parameter does not silently load", how == "reject")
        return
    observe("the template renders to valid JSON", how == "ret")
    if how != "ret":
        return
    op = doc["schedule"][0]["operation"]
    observe("a string-valued parameter arrives exactly as given", op.pop("index", None) == text_value)
    if name == "exists_set_param":
        observe("exists_set_param emits the parameter (or its default)", op == {"operation-type": "bulk", "x": 1, "bulk": value if given else 500})
        return
    want = value if given else default
    observe("the loaded value is the track parameter wherever the template refers to it (else the template's default)", op["bulk-size"] == want)
    how2, trk = _load(doc)
    observe("the rendered specification loads", how2 == "ret")
    if how2 == "ret":
        observe("the loaded track carries the substituted value", trk.challenges[0].schedule[0].operation.params["bulk-size"] == want)


TRACK_TEMPLATE = """{% import "rally.helpers" as rally with context %}
{
  "version": VERSION,
  "description": "verif track",
  "indices": [{"name": "idx"}],
  "operations": [ {{ rally.collect(parts="operations/*.json") }} ],
  "schedule": [ {"operation": "bulk", "clients": {{ clients | default(2) }} }, {"operation": "force-merge", "clients": MINCLIENTS } ]
}
"""
OPS_BULK = """{"name": "bulk", "operation-type": "bulk", "bulk-size": {{ bulk_size | default(500) }} }"""
OPS_FM = """{"name": "force-merge", "operation-type": "force-merge"}"""
# how the two operations are spread over collected parts: file -> content, relative to the track directory
PART_LAYOUTS = {
    "one part": {"operations/default.json": OPS_BULK + ",\n" + OPS_FM},
    "two parts matched by one glob": {"operations/a.json": OPS_BULK, "operations/b.json": OPS_FM},
    "a part that collects further parts relative to its own directory": {
        "operations/default.json": OPS_BULK + ',\n{{ rally.collect(parts="inner/*.json") }}', "operations/inner/fm.json": OPS_FM},
    "two levels of nesting": {
        "operations/default.json": '{{ rally.collect(parts="l1/*.json") }}', "operations/l1/x.json": OPS_BULK + ',\n{{ rally.collect(parts="l2/*.json") }}',
        "operations/l1/l2/fm.json": OPS_FM},
}


def file_reader_pipeline(sl):
    """the whole TrackFileReader.read on a generated track directory: template assembly (rally.collect), rendering with track
    parameters, version check, jsonschema validation, construction, reserved / unused parameter accounting"""
    import os
    import shutil
    import tempfile

    from harness.common import StubCfg

    user = {}
    bulk_given = bool(fresh_bool("bulk_size_given"))
    if bulk_given:
        user["bulk_size"] = [1, 1000][concrete(fresh_int("bulk_size_value", 0, 1))]
    clients_given = bool(fresh_bool("clients_given"))
    if clients_given:
        user["clients"] = 4
    unused = bool(fresh_bool("unused_parameter_given"))
    if unused:
        user["bulk_sise"] = 5
    reserved = bool(fresh_bool("reserved_parameter_given"))
    if reserved:
        user[["glob", "now", "build_flavor"][concrete(fresh_int("which_reserved", 0, 2))]] = "x"
    version = [2, 1, 3][concrete(fresh_int("track_version", 0, 2))]
    # values written in an integer position of the schema ("clients": minimum 1): the first is valid
    clients_text = ["1", "0", "4.0", '"4"', "1e2", "-1", "2.5"][concrete(fresh_int("clients_value_of_second_task_as_written", 0, 6))]
    schema_bad = clients_text != "1"
    d = tempfile.mkdtemp(prefix="verif-c10-")
    try:
        with open(os.path.join(d, "track.json"), "w") as f:
            f.write(TRACK_TEMPLATE.replace("VERSION", str(version)).replace("MINCLIENTS", clients_text))
        for rel, content in PART_LAYOUTS[sl["layout"]].items():
            os.makedirs(os.path.dirname(os.path.join(d, rel)), exist_ok=True)
            with open(os.path.join(d, rel), "w") as f:
                f.write(content)
        cfg = StubCfg({("node", "rally.root"): os.path.dirname(loader.__file__).rsplit(os.sep, 1)[0], ("track", "params"): user})

        class Tmp:
            @staticmethod
            def NamedTemporaryFile(delete=False, suffix=""):
                return tempfile.NamedTemporaryFile(delete=False, suffix=suffix, dir=d)

        class Con:
            @staticmethod
            def println(*a, **k):
                pass

        with shadowed(loader, (), extra={"tempfile": Tmp, "console": Con}):
            try:
                trk = loader.TrackFileReader(cfg).read("verif", os.path.join(d, "track.json"), d)
                how, err = "ret", None
            except Exception as e:  # noqa: BLE001
                trk, how, err = None, "raise", e
    finally:
        shutil.rmtree(d, ignore_errors=True)
    causes = [c for c, on in (("version", version != 2), ("schema", schema_bad), ("reserved", reserved), ("unused", unused)) if on]
    core.note("user params", user)
    core.note("causes", causes)
    core.note("outcome", (how, type(err).__name__ if err else None, str(err)[:120] if err else None))
    core.trace("causes", len(causes))
    if not causes:
        observe("a valid track with valid parameters loads", how == "ret")
        if how == "ret":
            sched = trk.challenges[0].schedule
            observe("track parameters are substituted into the templates (main file and collected parts), defaults otherwise",
                    sched[0].clients == (4 if clients_given else 2) and sched[0].operation.params["bulk-size"] == (user["bulk_size"] if bulk_given else 500))
            observe("included parts are assembled in", [t.operation.name for t in sched] == ["bulk", "force-merge"])
        return
    observe("a track file / parameter set that violates a rule is rejected, never loaded", how == "raise")
    if how == "raise" and len(causes) == 1:
        want = {"version": exceptions.RallyError, "schema": loader.TrackSyntaxError, "reserved": exceptions.TrackConfigError, "unused": exceptions.TrackConfigError}[causes[0]]
        observe("rejected with the documented error type for '%s'" % causes[0], isinstance(err, want))
        if causes[0] in ("reserved", "unused"):
            bad = [k for k in user if k in ("glob", "now", "build_flavor", "bulk_sise")]
            observe("the error names the offending parameter", all(b in str(err) for b in bad))


READS = [loader.TrackSpecificationReader.__call__, loader.TrackSpecificationReader._create_challenges, loader.TrackSpecificationReader._get_challenge_specs,
         loader.TrackSpecificationReader.parse_parallel, loader.TrackSpecificationReader.parse_task, loader.TrackSpecificationReader.parse_operations,
         loader.TrackSpecificationReader.parse_operation, loader.TrackSpecificationReader._create_corpora, track.Task.__init__,
         track.OperationType.from_hyphenated_string, track.OperationType.to_hyphenated_string]
OUT = ["schema-valid specification dicts assumed (jsonschema validation, Jinja rendering, rally.collect and track-parameter accounting are outside)"]


def _par_slices(tier):
    base = [{"tasks": 1, "task_fields": FIELDS, "pmask": m, "_w": 3} for m in range(32)]
    base += [{"tasks": 2, "task_fields": ["warmup-time-period", "ramp-up-time-period"], "pmask": m, "_w": 4} for m in (0, 4, 16, 20, 21, 28)]
    base += [{"tasks": 2, "task_fields": ["iterations", "time-period"], "pmask": m, "_w": 4} for m in (0, 1, 2, 8, 12)]
    base += [{"tasks": 2, "task_fields": [], "dup_names": True, "pmask": m, "_w": 2} for m in (0, 2)]
    if tier == "thorough":
        base += [{"tasks": 2, "task_fields": ["warmup-iterations", "warmup-time-period", "ramp-up-time-period"], "pmask": m, "_w": 9} for m in range(0, 32, 3)]
    return base


HARNESSES = [
    Harness("task_rules", task_rules, "symbolic", lambda tier: [{}], reads=READS, assumptions=OUT,
            bounds={"fields": "every present/absent combination of the five timing fields", "values": "unbounded integers >= 0"},
            doc="timing rules and field fidelity of a sequential task"),
    Harness("parallel_rules", parallel_rules, "symbolic", _par_slices, reads=READS, assumptions=OUT,
            bounds={"parallel defaults": "every combination of the five fields, symbolic values", "tasks": "<=2 with the listed own fields",
                    "completed-by": "absent / a / b / any / unknown / empty string", "names": "distinct or duplicate"},
            doc="inheritance from parallel, ramp-up rules, completed-by, duplicate names"),
    Harness("challenge_rules", challenge_rules, "bounded-exhaustive",
            lambda tier: [{"challenges": n, "layout": "challenges", "dups": d} for n in (1, 2, 3) for d in (False, True)] + [{"challenges": 1, "layout": "challenge"}],
            reads=READS, assumptions=OUT, bounds={"challenges": "<=3, default absent/false/true each, duplicate names, selected challenge"},
            doc="challenge names, defaults, selection, order"),
    Harness("toplevel_layout", toplevel_layout, "symbolic", lambda tier: [{}], reads=READS, assumptions=OUT, doc="schedule/challenge/challenges exclusivity; indices vs data streams"),
    Harness("corpora_rules", corpora_rules, "symbolic", lambda tier: [{"streams": False}, {"streams": True}], reads=READS, assumptions=OUT,
            bounds={"corpus": "1 corpus x 2 document sets", "targets": "1..2 indices or data streams; own / corpus-level / implicit default each present or not",
                    "flags": "includes-action-and-meta-data and base-url on corpus and document level", "counts and sizes": "unbounded symbolic integers"},
            doc="document sets: target resolution, inherited defaults, sizes; missing mandatory target rejected"),
    Harness("operation_references", operation_references, "symbolic", lambda tier: [{}], reads=READS, assumptions=OUT,
            bounds={"tasks": "3, each naming its operation by block name / inline with parameters / inline with a name / bare type; the third task in the same or in a second challenge",
                    "parameter values": "unbounded symbolic integers"},
            doc="operation of every task is what its own entry says (no leakage between inline definitions and bare references)"),
    Harness("names_rules", names_rules, "symbolic",
            lambda tier: [{"kind": k} for k in ("operations", "corpora", "tasks-sequential", "tasks-across-parallel", "tasks-within-parallel", "tasks-default-names")],
            reads=READS, assumptions=OUT, doc="duplicate operation, corpus and task names"),
    Harness("operation_types", operation_types, "bounded-exhaustive", lambda tier: [{}], reads=READS, doc="operation type registry round trip (finite, complete)"),
    Harness("file_reader_pipeline", file_reader_pipeline, "bounded-exhaustive", lambda tier: [{"layout": k} for k in PART_LAYOUTS], reads=READS + [loader.TrackFileReader.read, loader.render_template_from_file,
                                                                                                          loader.CompleteTrackParams, loader.register_all_params_in_track],
            assumptions=["runs on a real temporary directory (created and removed per path) with the real Jinja2, json and jsonschema: a finite family, no symbolic strings"],
            bounds={"track parameters": "bulk_size / clients given or not, an unused (misspelt) and a reserved parameter given or not", "track file": "version 1/2/3; an integer position holding 1 / 0 / 4.0 / a string / 1e2 / -1 / 2.5", "parts": sorted(PART_LAYOUTS)},
            doc="end-to-end TrackFileReader.read: substitution, rally.collect, version, schema, reserved and unused parameters"),
    Harness("template_params", template_params, "bounded-exhaustive", lambda tier: [{"construct": c} for c in CONSTRUCTS], reads=READS + [loader.render_template, loader.default_internal_template_vars],
            assumptions=["Jinja2 and json run concretely on a finite family of templates (no symbolic strings): this harness only ties the rendering stage to the reader for the listed constructs"],
            bounds={"constructs": sorted(CONSTRUCTS), "parameter": "absent / 0 / 1 / 1000 / 65536; an unrelated parameter and an attempt to override an internal variable present or not"},
            doc="track parameters reach every place a template refers to them (direct, filters, macros with/without context, includes, rally.collect, conditionals)"),
]
