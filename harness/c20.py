"""C20 — race comparison reports signed differences with the right direction (DESIGN §4 C20)."""
import re

from esrally import metrics, reporter
from esrally.utils import console

from harness.common import StubCfg
from symx import core
from symx.core import fresh_bool, fresh_real, implies, observe, s_and, s_not, s_or, shadowed
from symx.explore import Harness

PROPERTY = "C20"
EXPLANATION = ("C20: the real ComparisonReporter._metrics_table (all _report_* methods, _line, _diff) is executed on two GlobalStats built by "
               "the real constructor from result dicts in which one metric row at a time has symbolic real baseline/contender values and "
               "symbolic presence; the numeric text of formatted numbers is a placeholder, colour codes and the '+' sign are real.")

ANSI = re.compile(r"\x1b\[[0-9;]*m")
console.format = console.RichFormat  # colours are the subject
CODES = {console.format.green("x")[:-len("x" + console.format.neutral("x").split("x")[1])]: "green"}


def _code_of(fn):
    s = fn("\0")
    return s.split("\0")[0]


COLOUR = {_code_of(console.format.green): "green", _code_of(console.format.red): "red", _code_of(console.format.neutral): "neutral"}


def colour(cell):
    if isinstance(cell, str):
        for code, name in COLOUR.items():
            if code and cell.startswith(code):
                return name
    return "plain"


def strip(cell):
    return ANSI.sub("", cell) if isinstance(cell, str) else cell


# --------------------------------------------------------------------------------------------------------------------
# metric specs: (label, direction, builder(value or None) -> results dict fragment)
# direction "up": an increase is an improvement (throughput); "down": a decrease is an improvement (everything else)
# --------------------------------------------------------------------------------------------------------------------
SIMPLE = ["total_time", "indexing_throttle_time", "merge_time", "merge_count", "refresh_time", "refresh_count", "flush_time", "flush_count",
          "merge_throttle_time", "young_gc_time", "young_gc_count", "old_gc_time", "old_gc_count", "zgc_cycles_gc_time", "zgc_cycles_gc_count",
          "zgc_pauses_gc_time", "zgc_pauses_gc_count", "memory_segments", "memory_doc_values", "memory_terms", "memory_norms", "memory_points",
          "memory_stored_fields", "dataset_size", "store_size", "translog_size", "segment_count", "ingest_pipeline_cluster_count",
          "ingest_pipeline_cluster_time", "ingest_pipeline_cluster_failed"]
PER_SHARD = ["total_time_per_shard", "indexing_throttle_time_per_shard", "merge_time_per_shard", "refresh_time_per_shard", "flush_time_per_shard",
             "merge_throttle_time_per_shard"]
PCT_KEYS = ["50_0", "90_0", "99_0", "99_9", "99_99", "100_0"]


def specs():
    out = []
    for f in SIMPLE:
        out.append((f, "down", (lambda f: lambda v: {} if v is None else {f: v})(f)))
    for f in PER_SHARD:
        for k in ("min", "median", "max"):
            out.append(("%s.%s" % (f, k), "down", (lambda f, k: lambda v: {f: ({} if v is None else {k: v, "unit": "ms"})})(f, k)))
    for k in ("min", "mean", "median", "max"):
        out.append(("ml_processing_time.%s" % k, "down",
                    (lambda k: lambda v: {"ml_processing_time": [] if v is None else [dict({"job": "j", "min": 1.0, "mean": 1.0, "median": 1.0, "max": 1.0, "unit": "ms"}, **{k: v})]})(k)))
    for f, d in (("total_transform_processing_times", "down"), ("total_transform_index_times", "down"), ("total_transform_search_times", "down"),
                 ("total_transform_throughput", "up")):
        def b(v, f=f):
            base = {g: [] for g in ("total_transform_processing_times", "total_transform_index_times", "total_transform_search_times",
                                    "total_transform_throughput")}
            base[f] = [] if v is None else [{"id": "tr", "mean": v, "unit": "u"}]
            return base
        out.append((f, d, b))

        # a race file written before transform metrics existed has none of the four keys (GlobalStats then reads them as None, not [])
        def b_legacy(v, b=b):
            return {} if v is None else b(v)
        out.append((f + "@race-file-without-transform-keys-when-absent", d, b_legacy))

    def op(metric, key, v):
        m = {"task": "t1", "operation": "op", "throughput": {"min": None, "mean": None, "median": None, "max": None, "unit": "docs/s"},
             "latency": {}, "service_time": {}, "processing_time": {}, "error_rate": None, "duration": 1}
        if metric == "error_rate":
            m["error_rate"] = v
        elif metric == "throughput":
            m["throughput"][key] = v
        elif v is not None:
            m[metric][key] = v
        return {"op_metrics": [m]}

    for k in ("min", "mean", "median", "max"):
        out.append(("throughput.%s" % k, "up", (lambda k: lambda v: op("throughput", k, v))(k)))
    for metric in ("latency", "service_time", "processing_time"):
        for k in PCT_KEYS:
            out.append(("%s.%s" % (metric, k), "down", (lambda metric, k: lambda v: op(metric, k, v))(metric, k)))
    out.append(("error_rate", "down", lambda v: op("error_rate", None, v)))

    # disk usage per index and field (bytes; rows whose values are zero on both sides are hidden by design, see table_row)
    def du(stat, v):
        if v is None:
            return {}
        # a race written by Rally carries all seven lists (GlobalStatsCalculator always sets them)
        d = {"disk_usage_" + k: [] for k in ("inverted_index", "stored_fields", "doc_values", "points", "norms", "term_vectors")}
        d["disk_usage_total"] = [{"index": "idx", "field": "fld", "value": v if stat == "total" else 4096, "unit": "byte"}]
        if stat != "total":
            d["disk_usage_" + stat] = [{"index": "idx", "field": "fld", "value": v, "unit": "byte"}]
        return d

    for stat in ("total", "inverted_index", "stored_fields", "doc_values", "points", "norms", "term_vectors"):
        out.append(("disk_usage_per_field.%s" % stat, "down", (lambda stat: lambda v: du(stat, v))(stat)))
    return out


SPECS = specs()


class Recorder:
    def __init__(self):
        self.calls = []


def _reporter(show_processing_time=True):
    cfg = StubCfg({("reporting", "output.path"): "/dev/null/report", ("reporting", "format"): "markdown", ("node", "rally.cwd"): "/",
                   ("reporting", "output.processingtime"): show_processing_time})
    return reporter.ComparisonReporter(cfg)


def table_row(sl):
    label, direction, build = SPECS[sl["spec"]]
    pb, pc = bool(fresh_bool("baseline_present")), bool(fresh_bool("contender_present"))
    b = fresh_real("b") if pb else None
    c = fresh_real("c") if pc else None
    if sl.get("nonneg") or label.startswith("disk_usage_per_field"):
        for v in (b, c):
            if v is not None:
                core.assume(v >= 0)
    if label.startswith("disk_usage_per_field") and pb and pc:
        core.assume(core.s_not(s_and(b == 0, c == 0)))  # a field that uses no space in either race is not listed (by design)
    B = metrics.GlobalStats(build(b))
    C = metrics.GlobalStats(build(c))
    r = _reporter()
    marked = []
    orig_line = r._line

    def spy(metric, baseline, contender, *a, **kw):
        out = orig_line(metric, baseline, contender, *a, **kw)
        if any(x is y for x in (baseline, contender) for y in (b, c) if y is not None):
            marked.append(out)
        return out

    r._line = spy
    try:
        with shadowed(reporter, ("round",)):
            rich = r._metrics_table(B, C, plain=False)
            plain = r._metrics_table(B, C, plain=True)
            swapped = r._metrics_table(C, B, plain=False)
            selfcmp = r._metrics_table(B, B, plain=False)
    except Exception as e:  # noqa: BLE001 - any two stored race results can be compared, whichever subset of metrics each one carries
        core.note("metric", label)
        core.note("comparison raised", repr(e))
        observe("any two stored race results can be compared in both orders (metrics missing on one side are skipped)", False)
        return
    core.note("metric", label)
    core.note("rows", [[strip(x) if isinstance(x, str) else "<num>" for x in row] for row in rich])
    core.trace("rows", len(rich))
    observe("no empty rows in the table", all(len(row) == 7 for row in rich))
    sym_rows = [row for row in rich if len(row) == 7 and any(row is m for m in marked)]
    if not (pb and pc):
        observe("a metric missing on one side is not listed", len(sym_rows) == 0)
        return
    observe("a metric present in both is listed exactly once", len(sym_rows) == 1)
    observe("plain and rich tables have the same rows", len(plain) == len(rich) and len(swapped) == len(rich))
    if len(sym_rows) != 1 or len(plain) != len(rich) or len(swapped) != len(rich):
        return
    i = [k for k, row in enumerate(rich) if row is sym_rows[0]][0]
    row, prow, srow = rich[i], plain[i], swapped[i]
    fb, fc = row[2], row[3]
    D = fc - fb  # difference of the printed values (contender minus baseline)
    col = colour(row[4])
    up = direction == "up"
    th = 1e-5
    observe("seven columns", len(row) == 7)
    improvement, regression = ("green", "red")
    if col == "neutral":
        observe("neutral only below the threshold", s_and(D < th, D > -th))
    elif col == improvement:
        observe("improvement colour: %s for this metric" % ("increase" if up else "decrease"), (D >= th) if up else (D <= -th))
    elif col == regression:
        observe("regression colour: %s for this metric" % ("decrease" if up else "increase"), (D <= -th) if up else (D >= th))
    else:
        observe("diff cell is coloured in the rich table", False)
    observe("'+' iff contender - baseline >= 1e-5 (as printed)", ("+" in strip(row[4])) == bool(D >= th))
    observe("a difference that prints as zero is neutral", implies(s_and(D < th / 2, D > -th / 2), col == "neutral"))
    # swap flips sign and colour
    flip = {"green": "red", "red": "green", "neutral": "neutral"}
    observe("swapping baseline and contender flips the colour", colour(srow[4]) == flip.get(col))
    observe("swapping flips the sign", implies(D >= th, "+" not in strip(srow[4])) if True else True)
    observe("swapping flips the sign (other way)", ("+" in strip(srow[4])) == bool(D <= -th))
    # percentage column
    pcol = colour(row[6])
    raw_b = b
    if bool(raw_b != 0):
        P = (c - b) / b * 100
        observe("a neutral percentage means that the relative difference (contender - baseline) / baseline really is below the printed precision - "
                "for negative baselines too", implies(pcol == "neutral", s_and(P < 0.01, P > -0.01)))
        observe("percentage that prints as 0.00% is neutral and unsigned",
                implies(s_and(P < 0.005, P > -0.005), pcol == "neutral" and "+" not in strip(row[6])))
        # one and the same line is never marked as improvement AND regression: the relative difference has the sign of the difference,
        # whatever the sign of the baseline (stored counter deltas can be negative)
        observe("the percentage never contradicts the direction of Diff (any non-zero baseline)",
                pcol == "neutral" or col == "neutral" or pcol == col)
        observe("a coloured percentage has the sign of the difference (any non-zero baseline)",
                implies(pcol != "neutral", ("+" in strip(row[6])) == bool(c > b)))
    else:
        observe("zero baseline: relative difference printed neutrally", pcol == "neutral")
    # plain table == rich table without colour codes
    observe("plain row == rich row without colour codes",
            all((x is y) or (strip(x) == y) for x, y in zip(row, prow)) and all(colour(x) == "plain" for x in prow))
    # self comparison
    observe("self comparison: same rows, all neutral", all(colour(r_[4]) == "neutral" and colour(r_[6]) == "neutral" and "+" not in strip(r_[4])
                                                           and "+" not in strip(r_[6]) for r_ in selfcmp)
            and (len(selfcmp) >= 1 or (label.startswith("disk_usage_per_field") and bool(b == 0))))


def report_output(sl):
    """file gets the plain table, console the rich one"""
    label, direction, build = SPECS[sl["spec"]]
    b, c = fresh_real("b"), fresh_real("c")
    results_b, results_c = build(b), build(c)
    rec = []

    def write_single_report(report_file, report_format, cwd, numbers_align, headers, data_plain, data_rich):
        rec.append((headers, data_plain, data_rich))

    class Race:
        def __init__(self, res):
            self.results = res
            self.race_id, self.race_timestamp, self.challenge_name, self.car_name, self.user_tags = "id", "ts", "c", "car", {}

    r = _reporter()
    with shadowed(reporter, (), extra={"write_single_report": write_single_report, "print_internal": lambda *a: None, "print_header": lambda *a: None}):
        r.report(Race(results_b), Race(results_c))
    observe("one report written", len(rec) == 1)
    if len(rec) == 1:
        headers, plain, rich = rec[0]
        observe("header columns", headers == ["Metric", "Task", "Baseline", "Contender", "Diff", "Unit", "Diff %"])
        observe("file table carries no colour codes", all(colour(x) == "plain" for row in plain for x in row))
        observe("file table == console table without colour codes",
                len(plain) == len(rich) and all(all((x is y) or strip(x) == y for x, y in zip(r1, r2)) for r1, r2 in zip(rich, plain)))
        observe("console table is coloured", all(colour(row[4]) in ("green", "red", "neutral") for row in rich) and len(rich) >= 1)


def multi_task(sl):
    """two tasks on each side: a task is compared iff it is present in both races"""
    has = {(side, t): bool(fresh_bool("%s_has_%s" % (side, t))) for side in ("baseline", "contender") for t in ("t1", "t2")}
    vals = {k: fresh_real("thr_%s_%s" % k) for k in has}

    def res(side):
        # t1 is a named task that runs the operation "t2"; the task after it is named after that operation (the usual warm-up idiom)
        return {"op_metrics": [{"task": t, "operation": "t2", "throughput": {"min": vals[(side, t)], "mean": None, "median": None, "max": None, "unit": "docs/s"},
                                "latency": {}, "service_time": {}, "processing_time": {}, "error_rate": None, "duration": 1}
                               for t in ("t1", "t2") if has[(side, t)]]}

    r = _reporter()
    rich = r._metrics_table(metrics.GlobalStats(res("baseline")), metrics.GlobalStats(res("contender")), plain=False)
    core.trace("rows", len(rich))
    for t in ("t1", "t2"):
        rows = [row for row in rich if row[1] == t]
        both = has[("baseline", t)] and has[("contender", t)]
        observe("task %s listed iff present in both races" % t, (len(rows) == 1) == both and len(rows) <= 1)
        if rows and both:
            observe("values of task %s are its own" % t, rows[0][2] is vals[("baseline", t)] and rows[0][3] is vals[("contender", t)])


# index and field names are the user's: a name that contains the word of another metric says nothing about the direction of a size
THROUGHPUT_FIELD = "net.Throughput_bytes"


def disk_usage_fields(sl):
    """two fields of one index with symbolic sizes on each side: a field present in both races is listed once with its own values"""
    keys = [(side, f) for side in ("baseline", "contender") for f in ("f1", THROUGHPUT_FIELD)]
    has = {k: bool(sl["mask"] >> i & 1) for i, k in enumerate(keys)}
    vals = {k: fresh_real("bytes_%s_%s" % k, 0) for k in has}
    for v in vals.values():
        core.assume(v > 0)

    def res(side):
        d = {"disk_usage_" + k: [] for k in ("inverted_index", "stored_fields", "doc_values", "points", "norms", "term_vectors")}
        d["disk_usage_total"] = [{"index": "idx", "field": f, "value": vals[(side, f)], "unit": "byte"} for f in ("f1", THROUGHPUT_FIELD) if has[(side, f)]]
        return d

    r = _reporter()
    with shadowed(reporter, ("round",)):
        rich = r._metrics_table(metrics.GlobalStats(res("baseline")), metrics.GlobalStats(res("contender")), plain=False)
    core.trace("rows", len(rich))
    core.note("rows", [[strip(x) if isinstance(x, str) else "<num>" for x in row] for row in rich])
    for f in ("f1", THROUGHPUT_FIELD):
        rows = [row for row in rich if row[0] == "idx %s total" % f]
        if has[("baseline", f)] and has[("contender", f)]:
            observe("field %s present in both races is listed exactly once" % f, len(rows) == 1)
            if len(rows) == 1:
                b, c = vals[("baseline", f)], vals[("contender", f)]
                fb, fc = rows[0][2], rows[0][3]
                observe("field %s: baseline and contender columns are its own sizes in one common unit" % f,
                        s_or(*[s_and(fb * k == b, fc * k == c) for k in (1, 1024, 1024 * 1024, 1024 * 1024 * 1024)]))
                observe("field %s: growth is a regression, shrinking an improvement" % f,
                        implies(fc - fb >= 1e-5, colour(rows[0][4]) == "red") & implies(fc - fb <= -1e-5, colour(rows[0][4]) == "green"))
        else:
            observe("field %s is never listed more than once" % f, len(rows) <= 1)


READS = [reporter.ComparisonReporter._metrics_table, reporter.ComparisonReporter._line, reporter.ComparisonReporter._diff,
         reporter.ComparisonReporter._report_throughput, reporter.ComparisonReporter._report_percentiles, reporter.ComparisonReporter._report_error_rate,
         reporter.ComparisonReporter._report_total_times, reporter.ComparisonReporter._report_gc_metrics, reporter.ComparisonReporter._report_disk_usage,
         reporter.ComparisonReporter._report_segment_memory, reporter.ComparisonReporter._report_transform_processing_times,
         reporter.ComparisonReporter._report_ml_processing_times, reporter.ComparisonReporter.report, metrics.GlobalStats.__init__]

HARNESSES = [
    Harness("table_row", table_row, "symbolic", lambda tier: [{"spec": i} for i in range(len(SPECS))], reads=READS,
            bounds={"metric rows": "%d rows (all global metrics, per-shard stats, ML, transforms, task throughput/latency/service time/processing time percentiles, error rate), one symbolic at a time" % len(SPECS),
                    "values": "unbounded reals incl. zero and negative", "presence": "symbolic on each side"},
            stubs=["numeric text of formatted numbers is a placeholder (colour codes, '+' and '%' are real)"],
            assumptions=["floats modelled as exact reals (model R)", "zero or negative baselines: relative difference not judged beyond neutrality at 0.00%"],
            real_valued=True, doc="sign, direction colour, neutral threshold, swap, self comparison, plain == rich without colours"),
    Harness("report_output", report_output, "symbolic", lambda tier: [{"spec": i} for i in (0, 30, len(SPECS) - 1)], reads=READS,
            stubs=["write_single_report / print_internal / print_header replaced by recorders"], real_valued=True,
            doc="file output = console output without colour codes"),
    Harness("disk_usage_fields", disk_usage_fields, "symbolic", lambda tier: [{"mask": m} for m in range(16)], reads=READS + [reporter.ComparisonReporter._report_disk_usage_stats_per_field],
            real_valued=True, bounds={"fields": "2 fields of one index, each present or absent per race", "sizes": "symbolic reals > 0"},
            doc="disk usage per field: one row per field present in both races, own values, direction"),
    Harness("multi_task", multi_task, "symbolic", lambda tier: [{}], reads=READS, real_valued=True, doc="tasks compared iff present in both races"),
]
