"""C09 — any failure or cancellation ends the race as failed, never as success (DESIGN §4 C09).

Deciding step: one-event fault harnesses on the real actor classes (fake actor runtime):
 (i)   every @no_retry handler: an exception injected at a solver-chosen call site inside the handler (sys.settrace) yields exactly one
       BenchmarkFailure to the sender and no other outgoing message after the fault;
 (ii)  every forwarding handler passes a failure / cancellation / poison / child exit one level up, for every status;
 (iii) a worker's wake-up with a failed or cancelled run (from C01's INV states) notifies the driver;
 (iv)  execute_single: error classes x on-error policy (harness shared with C04);
 (v)   BenchmarkCoordinator.on_benchmark_complete and racecontrol.race gate on error / cancelled.
The static parent chain worker -> driver -> race control -> caller composes them.  Closed runs with one fault are auxiliary."""
import os
import sys
import time

import thespian.actors as ta

from esrally import actor, exceptions, metrics, racecontrol, track
from esrally.driver import driver

from harness import actors, c01, c04
from harness.common import concrete
from symx import core
from symx.core import choose, fresh_bool, fresh_int, observe, shadowed
from symx.explore import Harness

PROPERTY = "C09"
EXPLANATION = ("C09: one-event fault harnesses on the real Worker/DriverActor/TrackPreparationActor/TaskExecutionActor/BenchmarkActor: the fault "
               "site (n-th collaborator call inside a handler), the actor status, the failing run and the coordinator flags are solver "
               "variables; each harness shows that a failure moves exactly one level up the static parent chain (worker -> driver -> race "
               "control -> caller) and that results are computed / stored only when neither error nor cancelled is set.")

REPO = os.path.realpath(os.environ.get("VERIF_REPO", "/repo"))


class Injected(Exception):
    pass


class FaultInjector:
    """raises Injected at the k-th call of a collaborator (function defined under esrally/ or a harness stub standing for one)"""

    def __init__(self, k=None):
        self.k = k
        self.n = 0
        self.site = None
        self.fired = False

    def relevant(self, code):
        fn = code.co_filename
        if code.co_name in ("guard", "inner", "g", "<lambda>", "<listcomp>", "<genexpr>", "__init__", "__repr__", "__str__"):
            return False
        if fn.startswith(os.path.join(REPO, "esrally")):
            return not fn.endswith(os.sep + "log.py")
        return fn.endswith("harness/actors.py") and code.co_name in ("to_externalizable", "close", "reset_relative_time", "flush", "on_benchmark_start",
                                                                      "on_benchmark_stop", "submit", "result", "exception", "done", "print", "finish")

    def trace(self, frame, event, arg):
        if event == "call" and self.relevant(frame.f_code):
            self.n += 1
            if self.k is not None and self.n == self.k and not self.fired:
                self.fired = True
                self.site = "%s:%s" % (os.path.basename(frame.f_code.co_filename), frame.f_code.co_name)
                raise Injected("injected fault at call %d (%s)" % (self.k, self.site))
        return None

    def run(self, fn):
        sys.settrace(self.trace)
        try:
            return fn()
        finally:
            sys.settrace(None)


def outgoing(s):
    return [(k, type(m).__name__, m) for k, q in sorted(s.chan.items()) for _, m in q]


# ------------------------------------------------------------------------------------------------------------------
# (i) handler scenarios: each returns (system, receiver key, message, sender address)
# ------------------------------------------------------------------------------------------------------------------
def _driver_system(shape="seq2x2"):
    return c01.build(shape)


def sc_worker_drive():
    s = c01.materialise("seq2x2", (0, False, (("inflight", 0, False, False, None), ("wait", 0, False, False, None))))
    k = s.D.workers[0].addressDetails
    src, m = s.chan[(s.da_key, k)].popleft()
    return s, k, m, src


def sc_worker_wakeup_armed():
    s = c01.materialise("seq2x2", (0, False, (("armed", 0, False, False, None), ("wait", 0, False, False, None))))
    k = s.D.workers[0].addressDetails
    s.timers.clear()
    return s, k, ta.WakeupMessage(0, None), s.addr[k]


def sc_worker_wakeup_run_done():
    s = c01.materialise("seq2x2", (0, False, (("run", 0, True, False, None), ("wait", 0, False, False, None))))
    k = s.D.workers[0].addressDetails
    s.timers.clear()
    return s, k, ta.WakeupMessage(0, None), s.addr[k]


def sc_worker_wakeup_polling():
    s = c01.materialise("seq2x2", (0, False, (("run", 0, False, False, None), ("wait", 0, False, False, None))))
    k = s.D.workers[0].addressDetails
    s.timers.clear()
    return s, k, ta.WakeupMessage(0, None), s.addr[k]


def sc_worker_complete_current_task():
    s = c01.materialise("par_named_endless", (0, True, (("wait", 0, False, False, None), ("run", 0, False, False, "behind"))))
    k = s.D.workers[1].addressDetails
    src, m = s.chan[(s.da_key, k)].popleft()
    return s, k, m, src


def sc_worker_start():
    s = actors.build_driver(c01.SHAPES["seq2x2"][0](), cores=2)
    s.fire(s.enabled()[0])  # StartBenchmark: creates workers, Bootstrap + StartWorker in flight
    k = s.D.workers[0].addressDetails
    src, m = s.chan[(s.da_key, k)].popleft()  # Bootstrap
    s.actors[k].receiveMessage(m, src)
    src, m = s.chan[(s.da_key, k)].popleft()  # StartWorker
    return s, k, m, src


def sc_worker_bootstrap():
    s = actors.build_driver(c01.SHAPES["seq2x2"][0](), cores=2)
    s.fire(s.enabled()[0])
    k = s.D.workers[0].addressDetails
    src, m = s.chan[(s.da_key, k)].popleft()
    return s, k, m, src


def _driver_jpr(st, shape="seq2x2", wid=0):
    s = c01.materialise(shape, st)
    k = s.D.workers[wid].addressDetails
    src, m = s.chan[(k, s.da_key)].popleft()
    return s, s.da_key, m, src


def sc_driver_jpr_not_last():
    return _driver_jpr((0, False, (("jpr", 0, False, False, None), ("run", 0, False, False, None))))


def sc_driver_jpr_last():
    return _driver_jpr((0, False, (("jpr", 0, False, False, None), ("wait", 0, False, False, None))))


def sc_driver_jpr_final():
    return _driver_jpr((1, False, (("jpr", 0, False, False, None), ("wait", 0, False, False, None))))


def sc_driver_jpr_completing():
    return _driver_jpr((0, False, (("jpr", 0, False, False, None), ("run", 0, False, False, None))), shape="par_named_endless")


def sc_driver_update_samples():
    s = c01.materialise("seq2x2", (0, False, (("run", 0, False, False, None), ("wait", 0, False, False, None))))
    k = s.D.workers[0].addressDetails
    return s, s.da_key, driver.UpdateSamples(0, [c01_sample()]), s.addr[k]


def sc_driver_tick():
    s = c01.materialise("seq2x2", (0, False, (("run", 0, False, False, None), ("wait", 0, False, False, None))))
    s.da.post_process_timer = driver.DriverActor.POST_PROCESS_INTERVAL_SECONDS  # the next tick post-processes
    s.D.raw_samples = [c01_sample()]
    return s, s.da_key, ta.WakeupMessage(1, None), s.addr[s.da_key]


def sc_driver_start_benchmark():
    s = actors.build_driver(c01.SHAPES["seq2x2"][0](), cores=2)
    src, m = s.chan[(s.rc_key, s.da_key)].popleft()
    return s, s.da_key, m, src


def c01_sample():
    return driver.Sample(0, 1.0, 2.0, 0.0, c01.T("x"), metrics.SampleType.Normal, {"success": True}, 0.1, 0.1, 0.1, None, 1, "docs", 1.0, 0.5)


class _Processor:
    def on_prepare_track(self, trk, data_root):
        return [(print, {})]


def _prep_system():
    actors.install_driver_stubs()
    s = actors.System()
    da = s.create(actors.Endpoint)
    tp_addr = s.create(driver.TrackPreparationActor, parent=da)
    tp = s.actors[tp_addr.addressDetails]
    tp.driver_actor = da
    tp.cfg = actors.Cfg({("system", "available.cores"): 2})
    tp.track = track.Track("t")
    te_addr = s.create(driver.TaskExecutionActor, parent=tp_addr)
    te = s.actors[te_addr.addressDetails]
    te.task_preparation_actor = tp_addr
    te.cfg = tp.cfg
    te.pool = actors.Pool(s, te_addr.addressDetails)
    tp.children = [te_addr]
    s.da_addr, s.tp, s.tp_addr, s.te, s.te_addr = da, tp, tp_addr, te, te_addr
    return s


def sc_prep_bootstrap():
    s = _prep_system()
    return s, s.tp_addr.addressDetails, driver.Bootstrap(actors.Cfg()), s.da_addr


def sc_prep_ready_for_work():
    s = _prep_system()
    s.tp.tasks = [driver.WorkerTask(print, {})]
    return s, s.tp_addr.addressDetails, driver.ReadyForWork(), s.te_addr


def sc_prep_worker_idle():
    s = _prep_system()
    s.tp.status = driver.TrackPreparationActor.Status.PROCESSOR_RUNNING
    return s, s.tp_addr.addressDetails, driver.WorkerIdle(), s.te_addr


def sc_exec_start_task_loop():
    s = _prep_system()
    return s, s.te_addr.addressDetails, driver.StartTaskLoop("t", actors.Cfg()), s.tp_addr


def sc_exec_do_task():
    s = _prep_system()
    return s, s.te_addr.addressDetails, driver.DoTask(driver.WorkerTask(print, {}), actors.Cfg()), s.tp_addr


def sc_exec_do_task_idle():
    s = _prep_system()
    return s, s.te_addr.addressDetails, driver.DoTask(None, actors.Cfg()), s.tp_addr


def _DoneFuture(error=None):
    """a REAL concurrent.futures.Future that has finished (with the task's exception, if any): whatever part of the Future
    API the handler uses, it sees the documented behaviour"""
    import concurrent.futures

    f = concurrent.futures.Future()
    if error is not None:
        f.set_exception(error)
    else:
        f.set_result(None)
    return f


# what a failing track preparation task (download, decompression, offset table) may raise
TASK_ERRORS = [lambda: RuntimeError("download failed"), lambda: TimeoutError("timed out"), lambda: OSError("disk full"),
               lambda: exceptions.DataError("corrupt"), lambda: __import__("socket").timeout("read timed out"),
               lambda: __import__("concurrent.futures").futures.TimeoutError(), lambda: __import__("concurrent.futures").futures.CancelledError()]


def sc_exec_wakeup_done():
    s = _prep_system()
    s.te.executor_future = _DoneFuture()
    return s, s.te_addr.addressDetails, ta.WakeupMessage(0, None), s.te_addr


def _rc_system(error=False, cancelled=False):
    actors.install_driver_stubs()
    s = actors.System()
    caller = s.create(actors.Endpoint)
    rc_addr = s.create(racecontrol.BenchmarkActor, parent=caller)
    rc = s.actors[rc_addr.addressDetails]
    rc.start_sender = caller
    rc.cfg = actors.Cfg()
    rc.mechanic = s.create(actors.Endpoint, parent=rc_addr)
    rc.main_driver = s.create(actors.Endpoint, parent=rc_addr)
    # built by its own constructor (its flags are its business); earlier failures / cancellations are brought about through the
    # actor's real handlers below, not by writing attributes
    co = racecontrol.BenchmarkCoordinator(rc.cfg)
    co.logger = rc.logger
    co.calls = []

    class Store:
        def bulk_add(self, m):
            co.calls.append("bulk_add")

        def flush(self, refresh=True):
            co.calls.append("flush")

        def close(self):
            co.calls.append("close")

    class Race:
        team_revision = None

        def add_results(self, r):
            co.calls.append("add_results")

    class RaceStore:
        def store_race(self, r):
            co.calls.append("store_race")

    co.metrics_store, co.race, co.race_store = Store(), Race(), RaceStore()
    co.current_track = track.Track("t")
    co.on_preparation_complete = lambda *a: co.calls.append("on_preparation_complete")
    rc.coordinator = co
    s.caller, s.rc_addr, s.rcactor, s.co = caller, rc_addr, rc, co
    s.had_error, s.had_cancel = error, cancelled
    if error:
        rc.receiveMessage(actor.BenchmarkFailure("an earlier failure", None), rc.main_driver)
    if cancelled:
        rc.receiveMessage(actor.BenchmarkCancelled(), rc.main_driver)
    if error or cancelled:
        del s.sent[:]
        for k in list(s.chan):
            del s.chan[k]
    return s


class _RcMetrics:
    def __init__(self, co):
        self.co = co

    def calculate_results(self, st, race):
        self.co.calls.append("calculate_results")
        return "results"

    def results_store(self, cfg):
        co = self.co

        class R:
            @staticmethod
            def store_results(race):
                co.calls.append("store_results")

        return R


class _Reporter:
    def __init__(self, co):
        self.co = co

    def summarize(self, results, cfg):
        self.co.calls.append("summarize")


def rc_env(s):
    return shadowed(racecontrol, (), extra={"metrics": _RcMetrics(s.co), "reporter": _Reporter(s.co)})


def sc_rc_task_finished():
    s = _rc_system()
    return s, s.rc_addr.addressDetails, driver.TaskFinished(None, 0), s.rcactor.main_driver


def sc_rc_benchmark_complete():
    s = _rc_system()
    return s, s.rc_addr.addressDetails, driver.BenchmarkComplete(None), s.rcactor.main_driver


def sc_rc_preparation_complete():
    s = _rc_system()
    return s, s.rc_addr.addressDetails, driver.PreparationComplete("default", "8.0.0", "abc"), s.rcactor.main_driver


def sc_rc_engine_stopped():
    s = _rc_system()
    return s, s.rc_addr.addressDetails, racecontrol.mechanic.EngineStopped(), s.rcactor.mechanic


SCENARIOS = {
    "Worker.Bootstrap": sc_worker_bootstrap, "Worker.StartWorker": sc_worker_start, "Worker.Drive": sc_worker_drive,
    "Worker.CompleteCurrentTask": sc_worker_complete_current_task, "Worker.Wakeup(armed)": sc_worker_wakeup_armed,
    "Worker.Wakeup(run finished)": sc_worker_wakeup_run_done, "Worker.Wakeup(polling)": sc_worker_wakeup_polling,
    "DriverActor.StartBenchmark": sc_driver_start_benchmark, "DriverActor.JoinPointReached(not last)": sc_driver_jpr_not_last,
    "DriverActor.JoinPointReached(last)": sc_driver_jpr_last, "DriverActor.JoinPointReached(final)": sc_driver_jpr_final,
    "DriverActor.JoinPointReached(completing)": sc_driver_jpr_completing, "DriverActor.UpdateSamples": sc_driver_update_samples,
    "DriverActor.Wakeup(post-process tick)": sc_driver_tick,
    "TrackPreparationActor.Bootstrap": sc_prep_bootstrap, "TrackPreparationActor.ReadyForWork": sc_prep_ready_for_work,
    "TrackPreparationActor.WorkerIdle": sc_prep_worker_idle, "TaskExecutionActor.StartTaskLoop": sc_exec_start_task_loop,
    "TaskExecutionActor.DoTask": sc_exec_do_task, "TaskExecutionActor.DoTask(no task)": sc_exec_do_task_idle,
    "TaskExecutionActor.Wakeup(done)": sc_exec_wakeup_done,
    "BenchmarkActor.TaskFinished": sc_rc_task_finished, "BenchmarkActor.BenchmarkComplete": sc_rc_benchmark_complete,
    "BenchmarkActor.PreparationComplete": sc_rc_preparation_complete, "BenchmarkActor.EngineStopped": sc_rc_engine_stopped,
}


def _deliver(s, k, m, src, inj):
    a = s.actors[k]
    env = rc_env(s) if hasattr(s, "co") else shadowed(driver, (), extra={})
    with env:
        return inj.run(lambda: a.receiveMessage(m, src))


def handler_faults(sl):
    name = sl["scenario"]
    # dry run: number of collaborator calls inside the handler
    s, k, m, src = SCENARIOS[name]()
    dry = FaultInjector()
    _deliver(s, k, m, src, dry)
    total = dry.n
    core.note("collaborator calls in the handler", total)
    if total == 0:
        fresh_int("no_call_site", 0, 0)
        observe("handler without collaborator calls: nothing to inject", True)
        return
    site = concrete(fresh_int("fault_at_call", 1, total))
    s, k, m, src = SCENARIOS[name]()
    n_before = len(s.sent)
    inj = FaultInjector(site)
    try:
        _deliver(s, k, m, src, inj)
        escaped = None
    except BaseException as e:  # noqa: BLE001 - an escaping exception would be retried / poisoned by thespian
        escaped = e
    new = [((a, b), type(mm).__name__, mm) for (a, b, mm) in s.sent[n_before:]]  # chronological
    core.note("fault site", inj.site)
    core.note("new messages", [(x[0], x[1]) for x in new])
    core.trace("site", site)
    observe("fault injected", inj.fired)
    observe("the handler's guard catches the fault (nothing escapes into thespian's retry)", escaped is None)
    failures = [x for x in new if x[1] == "BenchmarkFailure"]
    observe("exactly one BenchmarkFailure", len(failures) == 1)
    if failures:
        # ... or, when the message came from the actor itself (a wake-up), straight to where the actor forwards failures: a
        # notification to oneself queues up behind whatever is waiting in the inbox (harness tick_fault_overtaken)
        to_sender = failures[0][0] == (k, src.addressDetails)
        upstream = src.addressDetails == k and failures[0][0][0] == k and failures[0][0][1] != k
        observe("the failure goes to the sender of the message that was being handled (for a message to oneself: to the sender or onwards)", to_sender or upstream)
        observe("the failure names the cause", "injected fault" in str(failures[0][2].message) + str(failures[0][2].cause))
        idx = new.index(failures[0])
        observe("nothing else is sent after the fault", idx == len(new) - 1)
        # messages between two actors arrive in order: a failure that follows an exit request on the same channel finds nobody to relay it
        observe("the failure is addressed to an actor that is still alive (no ActorExitRequest was sent to it before, FIFO per pair)",
                not any(x[0] == failures[0][0] and x[1] == "ActorExitRequest" for x in new[:idx]))
    observe("no success-type message (BenchmarkComplete / Success / EngineStopped forwarded) is produced by a failed handler after the fault",
            not any(x[1] in ("Success",) for x in new))


# ------------------------------------------------------------------------------------------------------------------
# (ii) forwarding handlers
# ------------------------------------------------------------------------------------------------------------------
def forwarding(sl):
    kind = sl["kind"]
    # failures raised by actor.no_retry carry only a message (no cause); explicit ones carry the exception
    fail = actor.BenchmarkFailure("boom", [None, RuntimeError("cause"), ""][concrete(fresh_int("failure_cause_none_exception_empty", 0, 2))])
    if kind.startswith("worker"):
        s = c01.materialise("seq2x2", (0, False, (("run", concrete(fresh_int("row", 0, 0)), bool(fresh_bool("run_finished")), False, None), ("wait", 0, False, False, None))))
        k = s.D.workers[0].addressDetails
        w = s.actors[k]
        sender = {"worker<-own handler": s.addr[k], "worker<-driver (reply of a failed driver handler)": s.addr[s.da_key]}[kind]
        w.receiveMessage(fail, sender)
        out = [(x[0], x[1]) for x in outgoing(s)]
        observe("a worker forwards every BenchmarkFailure to the driver, whoever sent it", ((k, s.da_key), "BenchmarkFailure") in out)
    elif kind.startswith("driver"):
        s = c01.materialise("seq2x2", (concrete(fresh_int("step", 0, 1)), False, (("run", 0, bool(fresh_bool("run_finished")), False, None), ("wait", 0, False, False, None))))
        s.da.status = ["init", "exiting"][concrete(fresh_int("driver_status", 0, 1))]
        wk = s.D.workers[0].addressDetails
        # the failure being reported may be the death of the cluster: whatever still talks to the cluster fails from now on
        s.D.telemetry.cluster_reachable = bool(fresh_bool("cluster_still_reachable"))
        msg = {"driver<-BenchmarkFailure": fail, "driver<-PoisonMessage": ta.PoisonMessage(driver.Drive(0), "details"),
               "driver<-BenchmarkCancelled": actor.BenchmarkCancelled(), "driver<-ChildActorExited(worker)": ta.ChildActorExited(s.addr[wk])}[kind]
        try:
            s.da.receiveMessage(msg, s.addr[wk])
        except Exception as e:  # noqa: BLE001 - Thespian would deliver the message once more and then poison the sender (a worker, which cannot help)
            core.note("the driver's handler raised", repr(e))
        out = [(x[0], x[1]) for x in outgoing(s)]
        want = "BenchmarkCancelled" if kind.endswith("Cancelled") else "BenchmarkFailure"
        if kind.endswith("(worker)") and s.da.status == "exiting":
            observe("a worker exiting during shutdown is not a failure", ((s.da_key, s.rc_key), "BenchmarkFailure") not in out)
        else:
            observe("the driver passes it on to race control", ((s.da_key, s.rc_key), want) in out)
    elif kind.startswith("preparator"):
        s = _prep_system()
        s.tp.status = list(driver.TrackPreparationActor.Status)[concrete(fresh_int("preparator_status", 0, 2))]
        msg = fail if kind.endswith("BenchmarkFailure") else ta.PoisonMessage(driver.DoTask(None, None), "details")
        s.tp.receiveMessage(msg, s.te_addr)
        out = [(x[0], x[1]) for x in outgoing(s)]
        observe("the track preparator passes it on to the driver", ((s.tp_addr.addressDetails, s.da_addr.addressDetails), "BenchmarkFailure") in out)
    elif kind.startswith("executor"):
        s = _prep_system()
        if kind.endswith("failed task"):
            s.te.executor_future = _DoneFuture(error=TASK_ERRORS[concrete(fresh_int("kind_of_task_error", 0, len(TASK_ERRORS) - 1))]())
            s.te.receiveMessage(ta.WakeupMessage(0, None), s.te_addr)
        else:
            s.te.receiveMessage(fail, s.te_addr)
        out = [(x[0], x[1]) for x in outgoing(s)]
        observe("the task executor reports to the track preparator", ((s.te_addr.addressDetails, s.tp_addr.addressDetails), "BenchmarkFailure") in out)
        observe("and does not ask for more work", ((s.te_addr.addressDetails, s.tp_addr.addressDetails), "ReadyForWork") not in out)
    else:
        s = _rc_system(error=bool(fresh_bool("error_already_set")), cancelled=bool(fresh_bool("cancelled_already_set")))
        msg = {"racecontrol<-BenchmarkFailure": fail, "racecontrol<-PoisonMessage": ta.PoisonMessage(driver.StartBenchmark(), "details"),
               "racecontrol<-BenchmarkCancelled": actor.BenchmarkCancelled()}[kind]
        with rc_env(s):
            s.rcactor.receiveMessage(msg, s.rcactor.main_driver)
        out = [(x[0], x[1]) for x in outgoing(s)]
        want = type(msg).__name__
        observe("race control answers its caller with the failure / cancellation", ((s.rc_addr.addressDetails, s.caller.addressDetails), want) in out)
        with rc_env(s):
            s.co.on_benchmark_complete(None)
        observe("a BenchmarkComplete that still arrives after a failure or a cancellation publishes no results",
                not ({"calculate_results", "store_race", "store_results", "summarize"} & set(s.co.calls)))
        observe("never Success", not any(x[1] == "Success" for x in out))
    core.trace("kind", kind)


FORWARD_KINDS = ["worker<-own handler", "worker<-driver (reply of a failed driver handler)", "driver<-BenchmarkFailure", "driver<-PoisonMessage",
                 "driver<-BenchmarkCancelled", "driver<-ChildActorExited(worker)", "preparator<-BenchmarkFailure", "preparator<-PoisonMessage",
                 "executor<-BenchmarkFailure", "executor<-failed task", "racecontrol<-BenchmarkFailure", "racecontrol<-PoisonMessage",
                 "racecontrol<-BenchmarkCancelled"]


# ------------------------------------------------------------------------------------------------------------------
# (iii) worker wake-up with a failed / cancelled run, from INV states
# ------------------------------------------------------------------------------------------------------------------
def failed_run(sl):
    shape = sl["shape"]
    s0 = c01.build(shape)
    W, J = len(s0.D.workers), s0.D.number_of_steps
    d = concrete(fresh_int("step", 0, J - 1))
    kind = c01.kind_of(s0, d)[0]
    sent = bool(fresh_bool("complete_sent")) if kind else False
    wl = actors.workers(s0)
    ws = []
    for wid in range(W):
        if wid == 0:
            rows = len(c01.rows_of_element(wl[0][2], d))
            if rows == 0:
                return
            ws.append(("run", concrete(fresh_int("w0_row", 0, rows - 1)), True, bool(fresh_bool("w0_complete")) if kind else False,
                       "behind" if (sent and bool(fresh_bool("w0_cct"))) else None))
        else:
            ws.append(c01._worker_state(wid, d, J, len(c01.rows_of_element(wl[wid][2], d)), kind, c01.kind_of(s0, d - 1)[0] if d >= 1 else None, sent))
    st = (d, sent, tuple(ws))
    s = c01.materialise(shape, st)
    if s is None:
        return
    k = s.D.workers[0].addressDetails
    w = s.actors[k]
    fault = sl["fault"]
    if fault == "run fails":
        w.executor_future.run.error = exceptions.RallyError("Cannot run task [x]: boom")
    else:
        w.executor_future.run.finished = bool(fresh_bool("run_already_finished"))
        w.cancel.set()
    if c01.inv(s) not in (None, "phase: executor or cancel flag at a join point"):
        # judged only from INV states (the fault flags themselves are not part of INV)
        w.cancel.clear()
        if c01.inv(s) is not None:
            return
        if fault != "run fails":
            w.cancel.set()
    timer = [i for i, (a, _) in enumerate(s.timers) if a == k]
    if not timer:
        return
    s.fire(("timer", timer[0]))
    out = [(x[0], x[1]) for x in outgoing(s)]
    core.note("pre-state", st)
    core.trace("d", d)
    want = "BenchmarkFailure" if fault == "run fails" else "BenchmarkCancelled"
    observe("the worker's next wake-up reports the %s to the driver" % fault, ((k, s.da_key), want) in out)
    observe("a failed / cancelled worker does not report the join point (the race cannot complete)", ((k, s.da_key), "JoinPointReached") not in out)


# ------------------------------------------------------------------------------------------------------------------
# (v) gating
# ------------------------------------------------------------------------------------------------------------------
def adapter_error_policy(sl):
    """real AsyncIoAdapter.run for one worker that drives two clients with different tasks of a parallel element: the error policy is
    the one of each client's OWN task (global on-error x the task's ignore-response-error-level); a failing request of a strict task
    aborts the run under on-error=abort whatever its sibling tolerates"""
    import asyncio
    import threading

    from esrally.client import context as client_context

    global_abort = bool(fresh_bool("global_on_error_is_abort"))
    lenient = [bool(fresh_bool("task_%d_ignores_non_fatal_errors" % i)) for i in range(2)]
    fails = [bool(fresh_bool("request_of_task_%d_fails" % i)) for i in range(2)]
    tasks = [track.Task("t%d" % i, track.Operation("op%d" % i, "verif-op"), clients=1, warmup_iterations=0, iterations=1,
                        params={"ignore-response-error-level": "non-fatal"} if lenient[i] else {}) for i in range(2)]
    matrix = driver.Allocator([track.Parallel(tasks)]).allocations
    ca = driver.ClientAllocations()
    for k, row in enumerate(matrix):
        ca.add(k, row)

    class EsStub(client_context.RequestContextHolder):
        def __init__(self, client_id):
            self.client_id = client_id

        async def close(self):
            pass

    class Factory:
        def __init__(self, hosts, options, distribution_version=None, distribution_flavor=None):
            pass

        def create_async(self, api_key=None, client_id=None):
            return EsStub(client_id)

    class ClientNs:
        EsClientFactory = Factory

    class Source:
        infinite = True

        def partition(self, i, n):
            return self

        def params(self):
            return {}

    class TrackNs:
        @staticmethod
        def operation_parameters(t, task):
            return Source()

        def __getattr__(self, name):
            return getattr(track, name)

    class Rn:
        completed = None
        percent_completed = None

        def __init__(self, op_type):
            pass

        async def __aenter__(self):
            return self

        async def __aexit__(self, *a):
            return False

        async def __call__(self, es, params):
            es["default"].on_request_start()
            es["default"].on_request_end()
            i = es["default"].client_id
            return {"weight": 1, "unit": "ops", "success": not fails[i], "error-type": "bulk"}

    class Hosts:
        all_hosts = {"default": [{"host": "localhost", "port": 9200}]}

    from harness.common import StubCfg
    cfg = StubCfg({("driver", "profiling"): False, ("driver", "assertions"): False, ("system", "async.debug"): False, ("client", "hosts"): Hosts,
                   ("client", "options"): {"default": {}}, ("mechanic", "distribution.version"): None, ("mechanic", "distribution.flavor"): None})
    contexts = {k: type("Ctx", (), {"api_key": None})() for k in range(len(matrix))}
    allocs = ca.tasks(1)
    sampler = driver.Sampler(start_timestamp=0)
    with shadowed(driver, (), extra={"client": ClientNs, "track": TrackNs()}), shadowed(driver.runner, (), extra={"runner_for": Rn}):
        adapter = actors.REAL["AsyncIoAdapter"](cfg, None, allocs, sampler, threading.Event(), threading.Event(), "abort" if global_abort else "continue", contexts, 0)
        try:
            asyncio.run(adapter.run())
            how, err = "ret", None
        except Exception as e:  # noqa: BLE001
            how, err = "raise", e
    must_abort = global_abort and any(fails[i] and not lenient[i] for i in range(2))
    core.trace("abort", must_abort)
    core.note("policy", {"global": "abort" if global_abort else "continue", "lenient": lenient, "fails": fails, "outcome": (how, repr(err)[:80])})
    observe("the run fails iff on-error=abort and a request of a task that does not ignore non-fatal errors failed",
            (how == "raise" and isinstance(err, exceptions.RallyError)) == must_abort and (how == "ret") == (not must_abort))


def tick_fault_overtaken(sl):
    """the metrics store fails in the driver's periodic post-processing (a wake-up, i.e. a message of the driver to itself) while the
    last worker's JoinPointReached for the LAST join point is already waiting in the driver's inbox. A failure notification that
    the driver addresses to itself queues up behind it: whatever the order of the two, once the fault has happened race control must
    not get a BenchmarkComplete before the failure (it would store and print final results of a failed race)."""
    s = c01.materialise("seq2x2", (1, False, (("jpr", 0, False, False, None), ("wait", 0, False, False, None))))
    s.da.post_process_timer = driver.DriverActor.POST_PROCESS_INTERVAL_SECONDS
    s.D.raw_samples = [c01_sample()]
    real = s.D.sample_post_processor
    state = {"failed": False}

    def failing_once(samples):
        if not state["failed"]:
            state["failed"] = True
            raise exceptions.RallyError("A transport error occurred while running the operation [bulk_index] against your Elasticsearch metrics store")
        return real(samples)

    s.D.sample_post_processor = failing_once
    n0 = len(s.sent)
    s.actors[s.da_key].receiveMessage(ta.WakeupMessage(1, None), s.addr[s.da_key])
    # now deliver what is waiting for the driver, in a solver-chosen order
    for _ in range(6):
        evs = [e for e in s.enabled() if e[0] == "msg" and e[1][1] == s.da_key]
        if not evs:
            break
        s.fire(evs[choose(len(evs), "next message for the driver")])
    to_rc = [type(m).__name__ for (src, dst, m) in s.sent[n0:] if dst == s.rc_key]
    core.note("race control receives", to_rc)
    core.trace("n", len(to_rc))
    observe("the fault happened", state["failed"])
    observe("race control is told about the failure", "BenchmarkFailure" in to_rc)
    if "BenchmarkComplete" in to_rc:
        observe("a BenchmarkComplete never reaches race control before the failure notification of a fault that had already happened",
                "BenchmarkFailure" in to_rc and to_rc.index("BenchmarkFailure") < to_rc.index("BenchmarkComplete"))


def coordinator_gating(sl):
    s = _rc_system(error=bool(fresh_bool("error")), cancelled=bool(fresh_bool("cancelled")))
    with rc_env(s):
        s.co.on_benchmark_complete(None)
    core.note("calls", s.co.calls)
    core.trace("calls", len(s.co.calls))
    ok = not s.had_error and not s.had_cancel
    for c in ("calculate_results", "add_results", "store_race", "store_results", "summarize"):
        observe("%s iff neither error nor cancelled" % c, (c in s.co.calls) == ok)
    observe("metrics are taken over and the store is closed in every case", s.co.calls[0] == "bulk_add" and s.co.calls[-1] == "close")


def race_result(sl):
    results = [racecontrol.Success(), actor.BenchmarkCancelled(), actor.BenchmarkFailure("boom", "cause"), ta.PoisonMessage("x", "d"), None, "garbage"]
    i = concrete(fresh_int("answer_of_the_benchmark_actor", 0, len(results) - 1))
    told = []

    class AS:
        def createActor(self, cls, targetActorRequirements=None):
            return "benchmark-actor"

        def ask(self, a, msg):
            told.append(("ask", type(msg).__name__))
            return results[i]

        def tell(self, a, msg):
            told.append(("tell", type(msg).__name__))

    class ActorNs:
        BenchmarkCancelled = actor.BenchmarkCancelled
        BenchmarkFailure = actor.BenchmarkFailure
        RallyActor = actor.RallyActor
        no_retry = actor.no_retry

        @staticmethod
        def bootstrap_actor_system(try_join=False):
            return AS()

    with shadowed(racecontrol, (), extra={"actor": ActorNs}):
        try:
            racecontrol.race(actors.Cfg())
            how, err = "ret", None
        except Exception as e:  # noqa: BLE001
            how, err = "raise", e
    core.trace("answer", i)
    if i in (0, 1):
        observe("success / cancellation return normally", how == "ret")
    else:
        observe("a failure or any unexpected answer makes race() raise RallyError", how == "raise" and isinstance(err, exceptions.RallyError))
    observe("the benchmark actor is always told to exit", told[-1] == ("tell", "ActorExitRequest"))


# ------------------------------------------------------------------------------------------------------------------
# auxiliary: closed runs with one fault, real BenchmarkActor as race control
# ------------------------------------------------------------------------------------------------------------------
FAULTS = ["run fails", "post-processing fails", "worker dies", "user cancels"]


class FaultRun:
    def __init__(self, shape, fault, n):
        mk, cores = c01.SHAPES[shape]
        self.fault, self.n, self.count, self.injected = fault, n, 0, False
        s = actors.build_driver(mk(), cores=cores)
        # replace the plain endpoint by a real BenchmarkActor
        rcs = _rc_system()
        self.co = rcs.co
        rc_addr = s.create(racecontrol.BenchmarkActor)
        rc = s.actors[rc_addr.addressDetails]
        self.caller = s.create(actors.Endpoint)
        rc.start_sender = self.caller
        rc.cfg = actors.Cfg()
        rc.mechanic = s.create(actors.Endpoint)
        rc.main_driver = s.addr[s.da_key]
        rc.coordinator = self.co
        self.co.logger = rc.logger
        s.da.benchmark_actor = rc_addr
        # redirect the StartBenchmark that build_driver queued
        q = s.chan.pop((s.rc_key, s.da_key))
        s.chan[(rc_addr.addressDetails, s.da_key)].extend((rc_addr, m) for _, m in q)
        self.s, self.rc_addr = s, rc_addr
        if fault == "post-processing fails":
            fr = self

            def pp(samples):
                fr.count += 1
                if fr.count == fr.n and not fr.injected:
                    fr.injected = True
                    raise IOError("metrics store unavailable")

            s.D.sample_post_processor = pp

    def enabled(self):
        s = self.s
        evs = c01.enabled_events(s)
        # a worker whose cancel flag is set polls even while its run is going
        extra = []
        if not self.injected:
            if self.fault == "run fails":
                extra += [("fail-run", i) for i, r in enumerate(s.runs) if not r.finished]
            elif self.fault == "worker dies":
                # a worker that has already reported the last join point has nothing left to lose: its death is not a fault of the race
                extra += [("kill", k) for _, k, w in actors.workers(s) if k not in s.dead and w.client_allocations is not None
                          and not (w.at_joinpoint() and w.client_allocations.tasks(w.current_task_index)[0].task.id == s.D.number_of_steps
                                   and not w.start_driving)]
            elif self.fault == "user cancels":
                extra += [("cancel", k) for _, k, w in actors.workers(s) if w.executor_future is not None and not w.executor_future.done()]
        return evs + extra

    def fire(self, ev):
        s = self.s
        with rc_env_for(self.co):
            if ev[0] == "fail-run":
                self.count += 1
                if self.count == self.n:
                    self.injected = True
                    s.runs[ev[1]].finish(error=exceptions.RallyError("Cannot run task: request failed (on-error=abort)"))
                    s.trace.append("run %d fails" % ev[1])
                else:
                    s.runs[ev[1]].finish()
                    s.trace.append("run %d finishes" % ev[1])
            elif ev[0] == "kill":
                self.injected = True
                s.trace.append("worker %s dies" % ev[1])
                s.kill(ev[1])
            elif ev[0] == "cancel":
                self.injected = True
                s.trace.append("user cancels (worker %s sees the flag)" % ev[1])
                s.actors[ev[1]].cancel.set()
            else:
                s.fire(ev)

    def verdict(self):
        got = [type(m).__name__ for m in self.s.actors[self.caller.addressDetails].got]
        if not self.injected:
            return None  # fault-free run (C01)
        if "Success" in got:
            return "race reported as success after a fault"
        for c in ("calculate_results", "store_race", "summarize"):
            if c in self.co.calls:
                return "%s although the race failed / was cancelled" % c
        want = "BenchmarkCancelled" if self.fault == "user cancels" else "BenchmarkFailure"
        if want not in got:
            return "hang: no event enabled and the caller never got a %s (got %s)" % (want, got)
        return None


def rc_env_for(co):
    return shadowed(racecontrol, (), extra={"metrics": _RcMetrics(co), "reporter": _Reporter(co)})


def explore_faults(shape, fault, n, deadline, max_states=60000):
    visited = set()
    stack = [[]]
    transitions = 0
    violation = None
    exhaustive = True

    def replay(path):
        f = FaultRun(shape, fault, n)
        for i in path:
            f.fire(f.enabled()[i])
        return f

    while stack:
        path = stack.pop()
        f = replay(path)
        evs = f.enabled()
        if not evs:
            v = f.verdict()
            if v and violation is None:
                violation = (v, path, list(f.s.trace))
            continue
        for i in range(len(evs)):
            f2 = replay(path + [i])
            transitions += 1
            fp = hash((c01.fingerprint(f2.s), f2.injected, f2.count, tuple(f2.co.calls), tuple(sorted(f2.s.dead)),
                       tuple(type(m).__name__ for m in f2.s.actors[f2.caller.addressDetails].got)))
            if fp in visited:
                continue
            visited.add(fp)
            v = f2.verdict() if "Success" in [type(m).__name__ for m in f2.s.actors[f2.caller.addressDetails].got] else None
            if v and violation is None:
                violation = (v, path + [i], list(f2.s.trace))
            stack.append(path + [i])
        if time.time() > deadline or len(visited) > max_states:
            exhaustive = False
            break
    return {"states": len(visited), "transitions": transitions, "violation": violation, "exhaustive": exhaustive}


def closed_fault_runs(tier, deadline):
    t0 = time.time()
    out = {"name": "closed_fault_runs", "kind": "auxiliary explicit-state exploration of the real actors (incl. BenchmarkActor) with one injected fault and state hashing",
           "states": 0, "transitions": 0, "evaluations": 0, "distinct_nontrivial": 0, "exhaustive": True, "violations": [], "errors": [], "runs": {}}
    combos = [(sh, f, n) for sh in ("seq2x2", "par_named_endless") for f in FAULTS for n in ((1, 2) if f in ("run fails", "post-processing fails") else (1,))]
    per = max(3.0, (deadline - t0 - 10) / len(combos))
    for sh, f, n in combos:
        r = explore_faults(sh, f, n, min(deadline, time.time() + per))
        out["states"] += r["states"]
        out["transitions"] += r["transitions"]
        out["runs"]["%s/%s/%d" % (sh, f, n)] = {"states": r["states"], "exhaustive": r["exhaustive"]}
        if r["violation"]:
            text, path, trace = r["violation"]
            out["violations"].append({"inputs": {"shape": sh, "fault": f, "n": n, "schedule": path}, "failed": [text], "slice": {"shape": sh, "fault": f},
                                      "trace": trace[-30:]})
    out["evaluations"] = out["transitions"]
    out["distinct_nontrivial"] = out["states"]
    out["wall_s"] = round(time.time() - t0, 1)
    return out


def _replay_fault(entry):
    i = entry["inputs"]
    f = FaultRun(i["shape"], i["fault"], i["n"])
    for j in i["schedule"]:
        evs = f.enabled()
        if j >= len(evs):
            return True, "schedule no longer applies"
        f.fire(evs[j])
    v = f.verdict() if not f.enabled() or "Success" in [type(m).__name__ for m in f.s.actors[f.caller.addressDetails].got] else None
    return v is None, "%s / %s:\n  %s\n  -> %s" % (i["shape"], i["fault"], "\n  ".join(f.s.trace[-30:]), v or "no violation")


AUX = [closed_fault_runs]
AUX_REPLAY = {"closed_fault_runs": _replay_fault}

READS = [actor.no_retry, driver.Worker.receiveMsg_WakeupMessage, driver.Worker.receiveMsg_BenchmarkFailure, driver.Worker.receiveMsg_ActorExitRequest,
         driver.Worker.drive, driver.DriverActor.receiveMsg_BenchmarkFailure, driver.DriverActor.receiveMsg_PoisonMessage,
         driver.DriverActor.receiveMsg_BenchmarkCancelled, driver.DriverActor.receiveMsg_ChildActorExited, driver.DriverActor.receiveMsg_JoinPointReached,
         driver.DriverActor.receiveMsg_UpdateSamples, driver.DriverActor.receiveMsg_WakeupMessage, driver.TrackPreparationActor.receiveMsg_BenchmarkFailure,
         driver.TrackPreparationActor.receiveMsg_PoisonMessage, driver.TaskExecutionActor.receiveMsg_WakeupMessage,
         driver.TaskExecutionActor.receiveMsg_BenchmarkFailure, driver.execute_single, track.Task.error_behavior,
         racecontrol.BenchmarkActor.receiveMsg_BenchmarkFailure, racecontrol.BenchmarkActor.receiveMsg_PoisonMessage,
         racecontrol.BenchmarkActor.receiveMsg_BenchmarkCancelled, racecontrol.BenchmarkActor.receiveMsg_BenchmarkComplete,
         racecontrol.BenchmarkCoordinator.on_benchmark_complete, racecontrol.race]
STUBS = c01.STUBS + ["fault injection: an exception raised (sys.settrace) at the n-th call of a function defined under esrally/ or of a collaborator stub inside the handler",
                     "BenchmarkCoordinator built without setup(); calculate_results/store_race/summarize are recorders", "actor system ask/tell in racecontrol.race"]

HARNESSES = [
    Harness("handler_faults", handler_faults, "symbolic", lambda tier: [{"scenario": n} for n in SCENARIOS], reads=READS, stubs=STUBS,
            bounds={"handlers": sorted(SCENARIOS), "fault site": "every collaborator call inside the handler (solver-chosen index)", "faults": "one per run"},
            doc="(i) a fault anywhere inside a guarded handler becomes exactly one BenchmarkFailure to the sender"),
    Harness("forwarding", forwarding, "symbolic", lambda tier: [{"kind": k} for k in FORWARD_KINDS], reads=READS, stubs=STUBS,
            bounds={"handlers x statuses": FORWARD_KINDS}, doc="(ii) every forwarding handler passes the failure one level up"),
    Harness("failed_run", failed_run, "symbolic", lambda tier: [{"shape": sh, "fault": f} for sh in ("seq2x2", "par_named_endless", "par_capped", "three_elements")
                                                                  for f in ("run fails", "user cancels")], reads=READS, stubs=STUBS,
            assumptions=["INV of C01 on the pre-state"], doc="(iii) wake-up of a worker whose run failed or was cancelled, from every INV state"),
    Harness("execute_single_policy", c04.abort_policy, "symbolic", lambda tier: [{"throttled": t} for t in (True, False)], reads=READS,
            stubs=c04.STUBS, real_valued=True, doc="(iv) request errors under on-error=abort and fatal connection errors end the run with an error (shared with C04)"),
    Harness("adapter_error_policy", adapter_error_policy, "bounded-exhaustive", lambda tier: [{}], reads=READS + [actors.REAL["AsyncIoAdapter"].run, track.Task.error_behavior],
            stubs=["EsClientFactory, track.operation_parameters, runner registry (stub runner with a solver-chosen unsuccessful result per task)"],
            bounds={"tasks": "2 single-client tasks of one parallel element driven by one worker", "policy": "global abort/continue x per-task ignore-response-error-level"},
            doc="per-task error policy through the real AsyncIoAdapter"),
    Harness("tick_fault_overtaken", tick_fault_overtaken, "bounded-exhaustive", lambda tier: [{}], reads=READS, stubs=STUBS,
            bounds={"state": "last step, the last JoinPointReached in flight", "order": "every order of the messages waiting for the driver after the failing tick"},
            doc="a failure in the periodic post-processing cannot be overtaken by BenchmarkComplete"),
    Harness("coordinator_gating", coordinator_gating, "symbolic", lambda tier: [{}], reads=READS, stubs=STUBS, doc="(v) no results on error or cancel"),
    Harness("race_result", race_result, "symbolic", lambda tier: [{}], reads=READS, stubs=STUBS, doc="(v) race() raises for a failure result"),
]
BUDGET = {"quick": 170, "thorough": 1200}
