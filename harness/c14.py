"""C14 — corpus preparation ends with complete, verified data or an explicit error (DESIGN §4 C14).

Symbolic file system: path -> size (symbolic int) or absent.  HTTP, archive decoding and the external decompressors are stubs with
symbolic outcomes; the real loader/net/io control code runs on top."""
import os as real_os
import subprocess
import urllib.error

import urllib3.exceptions

from esrally import exceptions, track
from esrally.track import loader
from esrally.utils import io as rio
from esrally.utils import net

from harness import offsets
from harness.common import StubCfg, concrete
from symx import core
from symx.core import fresh_bool, fresh_int, observe, s_and, shadowed
from symx.explore import Harness

PROPERTY = "C14"
EXPLANATION = ("C14: the real DocumentSetPreparator/Downloader/Decompressor, net.download/download_http, io.decompress dispatch and the "
               "offset-table code run over a symbolic file system (existence and sizes are solver variables) with symbolic outcomes of "
               "every download attempt, decompression and external tool, and with a crash injected at every point of an offset-table "
               "build; z3 decides that preparation either ends in the verified state or raises an explicit error and that a download "
               "never leaves a partial file under the final name.")


class SymFS:
    """path -> size (python int / symbolic int); absent = not a key"""

    def __init__(self):
        self.files = {}
        self.removed = []
        self.renamed = []

    def os_ns(self):
        fs = self

        class P:
            @staticmethod
            def isfile(p):
                return p in fs.files

            exists = isfile

            @staticmethod
            def getsize(p):
                if p not in fs.files:
                    raise FileNotFoundError(p)
                return fs.files[p]

            basename = staticmethod(real_os.path.basename)
            dirname = staticmethod(real_os.path.dirname)
            join = staticmethod(real_os.path.join)
            splitext = staticmethod(real_os.path.splitext)

        class O:
            path = P

            @staticmethod
            def remove(p):
                if p not in fs.files:
                    raise FileNotFoundError(p)
                fs.removed.append(p)
                del fs.files[p]

            @staticmethod
            def rename(a, b):
                fs.renamed.append((a, b))
                fs.files[b] = fs.files.pop(a)

            replace = rename

        return O


# ------------------------------------------------------------------------------------------------------------------ L2
OK, PROTOCOL, READ_TIMEOUT, HTTP_ERROR, URL_ERROR, OS_ERROR, INTERRUPT = range(7)
KIND_NAMES = ["body received", "ProtocolError (dropped connection)", "ReadTimeoutError", "HTTPError", "URLError", "OSError (disk)", "KeyboardInterrupt"]


def _lazy_kind(name, n):
    k = fresh_int(name, 0, n - 1)
    for c in range(n - 1):
        if k == c:
            return c
    return n - 1


def download(sl):
    fs = SymFS()
    final = "/data/corpus/documents.json.bz2"
    tmp = final + ".tmp"
    before_exists = bool(fresh_bool("final_exists_before"))
    before_size = fresh_int("final_size_before", 0) if before_exists else None
    if before_exists:
        fs.files[final] = before_size
    if bool(fresh_bool("stale_tmp_from_a_crash")):
        fs.files[tmp] = fresh_int("stale_tmp_size", 0)
    expected = fresh_int("expected_size", 0) if bool(fresh_bool("expected_size_known")) else None
    attempts = []
    sleeps = []
    prefix = sl.get("prefix", 0)
    shared = {}

    def _download_http(url, local_path, expected_size_in_bytes=None, progress_indicator=None):
        i = len(attempts)
        if i < prefix:
            if "k" not in shared:
                shared["k"] = PROTOCOL if bool(fresh_bool("prefix_faults_are_protocol_errors")) else READ_TIMEOUT
            kind = shared["k"]
        elif i >= prefix + sl["symbolic"]:
            kind = OK
        else:
            kind = _lazy_kind("outcome%d" % i, len(KIND_NAMES))
        attempts.append(kind)
        # the real function opens the target for writing first: a (partial) file exists whatever happens next
        fs.files[local_path] = fresh_int("bytes_written%d" % i, 0)
        if kind == OK:
            if expected_size_in_bytes is None and bool(fresh_bool("content_length_sent%d" % i)):
                return fresh_int("content_length%d" % i, 0)
            return expected_size_in_bytes
        if kind == PROTOCOL:
            raise urllib3.exceptions.ProtocolError("Connection broken")
        if kind == READ_TIMEOUT:
            raise urllib3.exceptions.ReadTimeoutError(None, url, "read timed out")
        if kind == HTTP_ERROR:
            raise urllib.error.HTTPError(url, 503, "", None, None)
        if kind == URL_ERROR:
            raise urllib.error.URLError("no route")
        if kind == OS_ERROR:
            raise OSError("No space left on device")
        raise KeyboardInterrupt()

    def download_http(url, local_path, expected_size_in_bytes=None, progress_indicator=None):
        return REAL_DOWNLOAD_HTTP(url, local_path, expected_size_in_bytes, progress_indicator, sleep=sleeps.append)

    with shadowed(net, (), extra={"os": fs.os_ns(), "_download_http": _download_http, "download_http": download_http}):
        REAL_DOWNLOAD_HTTP = net.__dict__["download_http"] if False else _REAL["download_http"]
        try:
            net.download("https://example.org/corpus/documents.json.bz2", final, expected)
            how, err = "ret", None
        except BaseException as e:  # noqa: BLE001 - every way out is judged
            if type(e).__name__ in ("PathAbort",):
                raise
            how, err = "raise", e
    core.note("attempts", [KIND_NAMES[k] for k in attempts])
    core.note("outcome", (how, repr(err)[:100]))
    core.trace("attempts", len(attempts))
    observe("at most 11 attempts", len(attempts) <= 11)
    retried = [k for k in attempts[:-1]]
    observe("only dropped connections and read timeouts are retried", all(k in (PROTOCOL, READ_TIMEOUT) for k in retried))
    observe("5 s pause before every retry", sleeps == [5] * (len(attempts) - 1))
    observe("no temporary file is left behind", tmp not in fs.files)
    if how == "ret":
        observe("on return the file exists under the final name", final in fs.files)
        if expected is not None and final in fs.files:
            observe("on return the file has the expected size", fs.files[final] == expected)
        observe("a successful download ended with a received body", attempts[-1] == OK)
    else:
        observe("a failed download leaves the final name exactly as it was (no partial file)",
                ((final in fs.files) == before_exists) and (not before_exists or fs.files[final] is before_size))
        if attempts and attempts[-1] in (PROTOCOL, READ_TIMEOUT):
            observe("retryable faults propagate only after the 11th attempt", len(attempts) == 11)
        if attempts and attempts[-1] == OK:
            observe("a received body is rejected only for a size mismatch, with DataError", isinstance(err, exceptions.DataError))


class HardKill(BaseException):
    """the process is killed while a transfer is writing (no handler of the code under test runs)"""


def download_bucket(sl):
    """net.download from s3:// / gs:// buckets: the blob store client writes to whatever path it is given; the transfer may complete, fail
    with an error, or the process may be killed after part of the data has been written"""
    fs = SymFS()
    final = "/data/corpus/documents.json.bz2"
    before_exists = bool(fresh_bool("final_exists_before"))
    before_size = fresh_int("final_size_before", 0) if before_exists else None
    if before_exists:
        fs.files[final] = before_size
    expected = fresh_int("expected_size", 0) if bool(fresh_bool("expected_size_known")) else None
    scheme = sl["scheme"]
    outcome = ["complete", "client error", "killed while writing"][concrete(fresh_int("transfer_outcome", 0, 2))]
    written = []

    def blob_client(bucket, bucket_path, local_path, expected_size_in_bytes=None, progress_indicator=None):
        written.append(local_path)
        fs.files[local_path] = fresh_int("bytes_written", 0)
        if outcome == "client error":
            raise RuntimeError("AccessDenied")
        if outcome == "killed while writing":
            raise HardKill()

    with shadowed(net, (), extra={"os": fs.os_ns(), "_download_from_s3_bucket": blob_client, "_download_from_gcs_bucket": blob_client}):
        try:
            net.download("%s://bucket/corpus/documents.json.bz2" % scheme, final, expected)
            how, err = "ret", None
        except HardKill as e:
            how, err = "killed", e
        except BaseException as e:  # noqa: BLE001
            if type(e).__name__ in ("PathAbort",):
                raise
            how, err = "raise", e
    core.note("outcome", (outcome, how, repr(err)[:80]))
    core.trace("how", how)
    observe("the transfer is attempted once", len(written) == 1)
    if how == "ret":
        observe("on return the file exists under the final name", final in fs.files)
        if expected is not None and final in fs.files:
            observe("on return the file has the expected size", fs.files[final] == expected)
    else:
        observe("a failed or killed download never leaves a partial file under the final name (the final name is exactly as it was)",
                ((final in fs.files) == before_exists) and (not before_exists or fs.files[final] is before_size))
    if how == "raise":
        observe("no temporary file is left behind by a handled failure", final + ".tmp" not in fs.files)


_REAL = {"download_http": net.download_http}


def download_wire(sl):
    """the real net._download_http over a stub connection pool and an in-memory file: status handling, body written in order, size reported,
    and the local copy carries the time of THIS download (offset tables are judged by modification times, see table_validity)"""
    NOW = 1_000_000  # the download happens now; the server published the file long ago
    status = fresh_int("http_status", 200, 599)
    n_chunks = concrete(fresh_int("chunks", 0, 3))
    sizes = [concrete(fresh_int("chunk%d_size" % i, 1, 2)) for i in range(n_chunks)]
    chunks = [bytes([65 + i]) * sz for i, sz in enumerate(sizes)]
    cl_sent = bool(fresh_bool("content_length_sent"))
    expected_known = bool(fresh_bool("expected_size_known"))
    expected = fresh_int("expected_size", 0) if expected_known else None
    dropped_after = concrete(fresh_int("connection_dropped_after_chunk", 0, n_chunks)) if bool(fresh_bool("connection_dropped")) else None
    headers = {"Last-Modified": "Wed, 21 Oct 2015 07:28:00 GMT", "ETag": "abc"}
    if cl_sent:
        headers["Content-Length"] = str(sum(sizes))
    files, mtimes = {}, {}

    class Resp:
        def __init__(self):
            self.status = status
            self.headers = headers

        def getheader(self, name, default=None):
            return headers.get(name, default)

        def stream(self, n):
            for i, c in enumerate(chunks):
                if dropped_after is not None and i == dropped_after:
                    raise urllib3.exceptions.ProtocolError("Connection broken: IncompleteRead")
                yield c
            if dropped_after is not None and dropped_after == n_chunks:
                raise urllib3.exceptions.ProtocolError("Connection broken: IncompleteRead")

        def __enter__(self):
            return self

        def __exit__(self, *a):
            return False

    class Out:
        def __init__(self, path):
            self.path = path
            files[path] = b""
            mtimes[path] = NOW

        def write(self, b):
            files[self.path] += b
            mtimes[self.path] = NOW

        def __enter__(self):
            return self

        def __exit__(self, *a):
            return False

    class Os:
        path = real_os.path

        @staticmethod
        def utime(path, times=None, **kw):
            mtimes[path] = NOW if times is None else times[1]

    local = "/data/corpus/documents.json.tmp"
    with shadowed(net, ("int",), extra={"_request": lambda *a, **kw: Resp(), "open": lambda p, mode="r", **kw: Out(p), "os": Os}):
        try:
            got = net._download_http("https://example.org/corpus/documents.json", local, expected)
            how, err = "ret", None
        except Exception as e:  # noqa: BLE001
            how, err, got = "raise", e, None
    core.note("status / outcome", (core.jsonable(status) if not core.is_sym(status) else "<sym>", how, repr(err)[:80]))
    core.trace("how", how)
    bad = bool(status > 299)
    if bad:
        observe("an HTTP error status is an HTTPError, not a download", how == "raise" and isinstance(err, urllib.error.HTTPError))
        return
    if dropped_after is not None:
        observe("a dropped connection surfaces as the retryable ProtocolError", how == "raise" and isinstance(err, urllib3.exceptions.ProtocolError))
        return
    observe("a complete body is a successful download", how == "ret")
    if how == "ret":
        observe("the body is written in order", files.get(local) == b"".join(chunks))
        want = expected if expected_known else (sum(sizes) if cl_sent else None)
        observe("the size to verify is the declared size, else the Content-Length, else unknown", (got is want) if (expected_known or want is None) else bool(got == want))
        observe("the local copy carries the time of this download (never the server's older time stamp: a stale offset table must look older)",
                mtimes.get(local) == NOW)



# ------------------------------------------------------------------------------------------------------------------ L1
class Net:
    """net.download with the postcondition established by harness `download` (or weaker: arbitrary size on return)"""

    def __init__(self, fs, log):
        self.fs = fs
        self.log = log

    class Progress:
        def __init__(self, *a, **kw):
            pass

        def finish(self):
            pass

    def download(self, url, local_path, expected_size_in_bytes=None, progress_indicator=None):
        i = len([x for x in self.log if x[0] == "download"])
        self.log.append(("download", local_path))
        kind = _lazy_kind("download_outcome%d" % i, 4)
        if kind == 0:
            # harness `download`: on return the final name exists with the expected size if one is known
            self.fs.files[local_path] = expected_size_in_bytes if expected_size_in_bytes is not None else fresh_int("downloaded_size%d" % i, 0)
            return
        if kind == 1:
            raise urllib.error.HTTPError(url, 404, "not found", None, None)
        if kind == 2:
            raise urllib.error.URLError("no route")
        raise exceptions.DataError("Download of [%s] is corrupt." % local_path)


def prepare_loop(sl):
    fs = SymFS()
    log = []
    root = "/data/corpus"
    compressed = sl["compressed"]
    doc, arch = "documents.json", "documents.json.bz2"
    doc_path, arch_path = real_os.path.join(root, doc), real_os.path.join(root, arch)
    usize = fresh_int("declared_uncompressed_size", 1) if bool(fresh_bool("uncompressed_size_declared")) else None
    csize = (fresh_int("declared_compressed_size", 1) if bool(fresh_bool("compressed_size_declared")) else None) if compressed else None
    if bool(fresh_bool("document_file_present")):
        fs.files[doc_path] = fresh_int("document_file_size", 0)
    if compressed and bool(fresh_bool("archive_present")):
        fs.files[arch_path] = fresh_int("archive_size", 0)
    base_url = "https://example.org/corpus" if bool(fresh_bool("base_url_given")) else None
    offline = bool(fresh_bool("offline"))
    lines_declared = 1000
    ds = track.Documents("bulk", document_file=doc, document_archive=arch if compressed else None, base_url=base_url,
                         number_of_documents=lines_declared, compressed_size_in_bytes=csize, uncompressed_size_in_bytes=usize, target_index="idx")

    class Io:
        @staticmethod
        def ensure_dir(d):
            pass

        dirname = staticmethod(real_os.path.dirname)

        @staticmethod
        def decompress(archive, target_dir):
            i = len([x for x in log if x[0] == "decompress"])
            log.append(("decompress", archive))
            kind = _lazy_kind("decompress_outcome%d" % i, 3)
            if kind == 0:
                fs.files[real_os.path.join(target_dir, doc)] = fresh_int("extracted_size%d" % i, 0)
            elif kind == 1:
                raise RuntimeError("Could not decompress provided archive")
            # kind 2: archive does not contain the document file

        @staticmethod
        def prepare_file_offset_table(path):
            log.append(("offset-table", path, fs.files.get(path)))
            k = _lazy_kind("offset_table_outcome", 3)
            n = None if k == 0 else (lines_declared if k == 1 else fresh_int("lines_read", 0))  # an empty file has 0 lines
            log.append(("lines", n))
            return n

        @staticmethod
        def remove_file_offset_table(path):
            log.append(("remove-offset-table", path))

    prep = loader.DocumentSetPreparator("unittest-track", loader.Downloader(offline=offline, test_mode=bool(fresh_bool("test_mode"))), loader.Decompressor())
    with shadowed(loader, ("round", "int"), extra={"os": fs.os_ns(), "net": Net(fs, log), "io": Io, "console": offsets._Console}):
        try:
            prep.prepare_document_set(ds, root)
            how, err = "ret", None
        except Exception as e:  # noqa: BLE001 - outcome under test
            how, err = "raise", e
    core.note("steps", [x[:2] for x in log])
    core.note("outcome", (how, repr(err)[:120]))
    core.trace("steps", len(log))
    observe("preparation terminates within 4 download/decompress steps", len([x for x in log if x[0] in ("download", "decompress")]) <= 4)
    if how == "ret":
        observe("on return the document file exists", doc_path in fs.files)
        if usize is not None and doc_path in fs.files:
            observe("on return the document file has the declared size", fs.files[doc_path] == usize)
        tables = [x for x in log if x[0] == "offset-table"]
        observe("the offset table is built exactly once, as the last step, for the verified document file",
                len(tables) == 1 and [x[0] for x in log if x[0] != "lines"][-1] == "offset-table" and tables[0][1] == doc_path and tables[0][2] is fs.files.get(doc_path))
    else:
        observe("failure is an explicit Rally error (data / system setup / assertion), never a silent partial state",
                isinstance(err, (exceptions.DataError, exceptions.SystemSetupError, exceptions.RallyAssertionError, RuntimeError)))
        if log and log[-1][0] == "remove-offset-table":
            observe("a table with the wrong number of lines is removed and reported", isinstance(err, exceptions.DataError))
    counted = [x[1] for x in log if x[0] == "lines" and x[1] is not None]
    if counted:
        wrong = bool(counted[-1] != lines_declared)
        observe("a freshly built table whose line count differs from the declared number of documents is an explicit data error",
                (how == "raise" and isinstance(err, exceptions.DataError)) == wrong)
        # a table left behind is still 'valid' (newer than the data file): the next run would skip the count and accept the file
        observe("and that table is removed again, so that a later run cannot silently accept the file", (log[-1][0] == "remove-offset-table") == wrong)
    if offline:
        observe("offline mode never downloads", not [x for x in log if x[0] == "download"])


def table_follows_data_file(sl):
    """the offset table that preparation leaves behind was built from the document file that is there NOW. The document file may be
    re-created by preparation itself (extracted from the archive - tar restores the archive's, possibly old, modification time - or
    downloaded); an offset table of the previous file is around. Modification times are symbolic."""
    fs = SymFS()
    log = []
    root = "/data/corpus"
    doc, arch = "documents.json", "documents.json.tar.gz"
    doc_path, arch_path = real_os.path.join(root, doc), real_os.path.join(root, arch)
    usize = fresh_int("declared_uncompressed_size", 1)
    state = {"gen": 0, "dm": None, "table": None}
    if bool(fresh_bool("document_file_present")):
        fs.files[doc_path] = fresh_int("document_file_size", 0)
        state["dm"] = core.fresh_real("mtime_of_the_present_document_file", 0)
    if bool(fresh_bool("archive_present")):
        fs.files[arch_path] = fresh_int("archive_size", 0)
    if bool(fresh_bool("offset_table_present")):
        tm = core.fresh_real("mtime_of_the_present_offset_table", 0)
        if doc_path in fs.files and bool(fresh_bool("table_was_built_from_the_present_file")):
            core.assume(tm >= state["dm"])  # it was written after the file it was built from
            state["table"] = {"from": 0, "tm": tm}
        else:
            if doc_path in fs.files:
                core.assume(tm < state["dm"])  # detectably stale to begin with; only Rally's own steps are judged
            state["table"] = {"from": -1, "tm": tm}
    now = [core.fresh_real("now", 0)]
    for t in [state["dm"]] + ([state["table"]["tm"]] if state["table"] else []):
        if t is not None:
            core.assume(now[0] > t)
    ds = track.Documents("bulk", document_file=doc, document_archive=arch, base_url="https://example.org/corpus", number_of_documents=1000,
                         compressed_size_in_bytes=None, uncompressed_size_in_bytes=usize, target_index="idx")

    def tick():
        d = core.fresh_real("time_passes_%d" % len(log), 0)
        core.assume(d > 0)
        now[0] = now[0] + d
        return now[0]

    class Io:
        @staticmethod
        def ensure_dir(d):
            pass

        dirname = staticmethod(real_os.path.dirname)

        @staticmethod
        def exists(p):
            return p in fs.files or (p == doc_path + ".offset" and state["table"] is not None)

        @staticmethod
        def decompress(archive, target_dir):
            log.append(("decompress", archive))
            tick()
            fs.files[doc_path] = usize
            state["gen"] += 1
            # the extracted file carries whatever modification time the archive recorded for it
            state["dm"] = core.fresh_real("mtime_restored_by_the_archive_%d" % len(log), 0)
            core.assume(state["dm"] <= now[0])
            if len([x for x in log if x[0] == "decompress"]) == 1 and bool(fresh_bool("first_extraction_fails_after_the_document_file_was_written")):
                # e.g. a later member of the archive is damaged, or the extraction is interrupted
                raise RuntimeError("Could not decompress provided archive")

        @staticmethod
        def prepare_file_offset_table(path):
            log.append(("offset-table", path))
            t = state["table"]
            if t is not None and bool(t["tm"] >= state["dm"]):
                return None  # FileOffsetTable.is_valid (harness table_validity): not rebuilt
            state["table"] = {"from": state["gen"], "tm": tick()}
            return 1000

        @staticmethod
        def remove_file_offset_table(path):
            log.append(("remove-offset-table", path))
            if state["table"] is None:
                raise FileNotFoundError(path + ".offset")
            state["table"] = None

    class NetOk:
        Progress = Net.Progress

        @staticmethod
        def download(url, local_path, expected_size_in_bytes=None, progress_indicator=None):
            log.append(("download", local_path))
            fs.files[local_path] = expected_size_in_bytes if expected_size_in_bytes is not None else fresh_int("downloaded_size%d" % len(log), 0)
            if local_path == doc_path:
                state["gen"] += 1
                state["dm"] = tick()

    class OsNs(fs.os_ns()):
        pass

    OsNs.path.exists = staticmethod(Io.exists)
    prep = loader.DocumentSetPreparator("unittest-track", loader.Downloader(offline=False, test_mode=False), loader.Decompressor())
    with shadowed(loader, ("round", "int"), extra={"os": OsNs, "net": NetOk, "io": Io, "console": offsets._Console}):
        for _run in range(2):  # a failed preparation is simply run again
            try:
                prep.prepare_document_set(ds, root)
                how, err = "ret", None
                break
            except Exception as e:  # noqa: BLE001
                how, err = "raise", e
    core.note("steps", [x[:2] for x in log])
    core.note("outcome", (how, repr(err)[:100]))
    core.trace("steps", len(log))
    if how == "ret":
        t = state["table"]
        observe("on return an offset table exists", t is not None)
        if t is not None:
            observe("and it was built from the document file that is there now (a table of a previous file is never reused, whatever the "
                    "modification times say)", t["from"] == state["gen"])
    else:
        observe("failure is an explicit error", isinstance(err, (exceptions.DataError, exceptions.SystemSetupError, exceptions.RallyAssertionError, RuntimeError)))


def prepare_docs_roots(sl):
    """DefaultTrackPreparator.prepare_docs with a track given by path (two candidate data roots: next to track.json, then the corpus
    cache) followed by set_absolute_data_path: the file the race will READ is the one that was verified"""
    fs = SymFS()
    log = []
    track_dir, cache = "/tracks/mytrack", "/cache"
    doc = "documents.json"
    bundled_path, cached_path = real_os.path.join(track_dir, doc), real_os.path.join(cache, "corpus", doc)
    fs.files[real_os.path.join(track_dir, "track.json")] = 10
    usize = fresh_int("declared_uncompressed_size", 1)
    if bool(fresh_bool("file_next_to_the_track_present")):
        fs.files[bundled_path] = fresh_int("size_of_file_next_to_the_track", 0)
    if bool(fresh_bool("file_in_corpus_cache_present")):
        fs.files[cached_path] = fresh_int("size_of_file_in_corpus_cache", 0)
    ds = track.Documents("bulk", document_file=doc, document_archive=None, base_url="https://example.org/corpus", number_of_documents=1000,
                         compressed_size_in_bytes=None, uncompressed_size_in_bytes=usize, target_index="idx")
    corpus = track.DocumentCorpus("corpus", documents=[ds])
    trk = track.Track("mytrack", corpora=[corpus])
    cfg = StubCfg({("benchmarks", "local.dataset.cache"): cache, ("track", "track.path"): track_dir})
    tables = []

    class Io:
        @staticmethod
        def ensure_dir(d):
            pass

        dirname = staticmethod(real_os.path.dirname)
        basename = staticmethod(real_os.path.basename)
        splitext = staticmethod(real_os.path.splitext)

        @staticmethod
        def has_extension(p, ext):
            return p.endswith(ext)

        @staticmethod
        def prepare_file_offset_table(path):
            tables.append((path, fs.files.get(path)))
            log.append(("offset-table", path))
            return 1000

        @staticmethod
        def remove_file_offset_table(path):
            log.append(("remove-offset-table", path))

    class OsNs(fs.os_ns()):
        pass

    OsNs.path.isdir = staticmethod(lambda p: p in (track_dir, cache))
    OsNs.path.exists = staticmethod(lambda p: p in fs.files or p in (track_dir, cache))
    prep = loader.DocumentSetPreparator("mytrack", loader.Downloader(offline=False, test_mode=False), loader.Decompressor())
    with shadowed(loader, ("round", "int"), extra={"os": OsNs, "net": Net(fs, log), "io": Io, "console": offsets._Console}):
        try:
            loader.DefaultTrackPreparator.prepare_docs(cfg, trk, corpus, prep)
            how, err = "ret", None
        except Exception as e:  # noqa: BLE001
            how, err = "raise", e
        if how == "ret":
            loader.set_absolute_data_path(cfg, trk)
    core.note("steps", [x[:2] for x in log])
    core.note("outcome", (how, repr(err)[:120], ds.document_file))
    core.trace("steps", len(log))
    if how == "ret":
        used = ds.document_file
        observe("after preparation the document file resolves to an existing file", used in fs.files)
        if used in fs.files:
            observe("the file the race will read has the declared size", fs.files[used] == usize)
            observe("and it is the file whose offset table was prepared last", len(tables) >= 1 and tables[-1][0] == used and tables[-1][1] is fs.files[used])
    else:
        observe("failure is an explicit data / set-up error", isinstance(err, (exceptions.DataError, exceptions.SystemSetupError)))


def used_corpora_union(sl):
    """loader.used_corpora with the real bulk parameter sources: every corpus (and document set) that any bulk task of the selected challenge
    targets is prepared - also when several tasks use inline operations of the same (default) name"""
    from esrally.track import params as tparams

    def docs(name, idx):
        return track.Documents("bulk", document_file="%s.json" % name, number_of_documents=10, target_index=idx)

    corpus_a = track.DocumentCorpus("A", documents=[docs("a1", "idx1"), docs("a2", "idx2")])
    corpus_b = track.DocumentCorpus("B", documents=[docs("b1", "idx1")])
    corpus_c = track.DocumentCorpus("C", documents=[docs("c1", "idx3")])
    choices = [["A"], ["B"], ["A", "B"], ["C"]]
    n_tasks = sl["tasks"]
    same_name = bool(fresh_bool("inline_operations_share_the_default_name"))
    picks = [choices[concrete(fresh_int("corpora_of_task_%d" % i, 0, len(choices) - 1))] for i in range(n_tasks)]
    idx_filter = [bool(fresh_bool("task_%d_only_targets_idx1" % i)) for i in range(n_tasks)]
    tasks = []
    for i, pick in enumerate(picks):
        prm = {"bulk-size": 5, "corpora": list(pick)}
        if idx_filter[i]:
            prm["indices"] = ["idx1"]
        op = track.Operation("bulk" if same_name else "bulk-%d" % i, "bulk", params=prm)
        tasks.append(track.Task("task-%d" % i, op))
    schedule = [tasks[0]] + ([track.Parallel(tasks[1:])] if len(tasks) > 1 else [])
    other = track.Challenge("other", schedule=[track.Task("t", track.Operation("other-bulk", "bulk", params={"bulk-size": 5, "corpora": ["C"]}))])
    ch = track.Challenge("selected", schedule=schedule, default=True, selected=True)
    trk = track.Track("t", corpora=[corpus_a, corpus_b, corpus_c], challenges=[other, ch], indices=[track.Index("idx1"), track.Index("idx2"), track.Index("idx3")])
    try:
        got = list(loader.used_corpora(trk))
    except Exception as e:  # noqa: BLE001 - e.g. a filter that leaves nothing is the parameter source's own error, not this harness's subject
        core.note("used_corpora raised", repr(e))
        core.trace("raised", True)
        observe("only an explicit error (a bulk operation whose filters leave no documents) may stop the computation", isinstance(e, exceptions.RallyError))
        return
    core.trace("corpora", len(got))
    need = {}
    for pick, only1 in zip(picks, idx_filter):
        for cname in pick:
            corp = {"A": corpus_a, "B": corpus_b, "C": corpus_c}[cname]
            for d in corp.documents:
                if not only1 or d.target_index == "idx1":
                    need.setdefault(cname, set()).add(d.document_file)
    have = {c.name: {d.document_file for d in c.documents} for c in got}
    core.note("needed", {k: sorted(v) for k, v in need.items()})
    core.note("prepared", {k: sorted(v) for k, v in have.items()})
    observe("every document file a task of the selected challenge needs is among the corpora to prepare",
            all(cname in have and files <= have[cname] for cname, files in need.items()))
    observe("corpora only used by other challenges are not required (no unrelated downloads)", set(have) <= set(need))


def bundled(sl):
    """prepare_bundled_document_set: files next to the track"""
    fs = SymFS()
    log = []
    root = "/track"
    doc_path, arch_path = root + "/documents.json", root + "/documents.json.bz2"
    usize = fresh_int("declared_uncompressed_size", 1) if bool(fresh_bool("uncompressed_size_declared")) else None
    csize = fresh_int("declared_compressed_size", 1) if bool(fresh_bool("compressed_size_declared")) else None
    if bool(fresh_bool("document_file_present")):
        fs.files[doc_path] = fresh_int("document_file_size", 0)
    if bool(fresh_bool("archive_present")):
        fs.files[arch_path] = fresh_int("archive_size", 0)
    ds = track.Documents("bulk", document_file="documents.json", document_archive="documents.json.bz2", number_of_documents=10,
                         compressed_size_in_bytes=csize, uncompressed_size_in_bytes=usize, target_index="idx")

    class Io:
        dirname = staticmethod(real_os.path.dirname)

        @staticmethod
        def decompress(archive, target_dir):
            log.append(("decompress",))
            if bool(fresh_bool("decompress_creates_file")):
                fs.files[doc_path] = fresh_int("extracted_size", 0)

        @staticmethod
        def prepare_file_offset_table(path):
            log.append(("offset-table", path))
            return None

        @staticmethod
        def remove_file_offset_table(path):
            log.append(("remove-offset-table", path))
            raise FileNotFoundError(path + ".offset")  # no table is around in this harness

    prep = loader.DocumentSetPreparator("t", None, loader.Decompressor())
    with shadowed(loader, ("round", "int"), extra={"os": fs.os_ns(), "io": Io, "console": offsets._Console}):
        try:
            r = prep.prepare_bundled_document_set(ds, root)
            how, err = "ret", None
        except Exception as e:  # noqa: BLE001
            r, how, err = None, "raise", e
    core.trace("steps", len(log))
    if how == "ret" and r is True:
        observe("True => document file present with the declared size and an offset table step", doc_path in fs.files and log[-1][0] == "offset-table")
        if usize is not None:
            observe("True => declared size", fs.files[doc_path] == usize)
    elif how == "ret":
        observe("False only if neither file is usable", doc_path not in fs.files)
    else:
        observe("wrong sizes are explicit data errors", isinstance(err, exceptions.DataError))


# ------------------------------------------------------------------------------------------------------------------ L4
EXTS = [(".bz2", "pbzip2", "bz2"), (".gz", "pigz", "gzip"), (".zst", "pzstd", "zst"), (".zip", None, "zip"), (".tar", None, "tar"),
        (".tar.gz", None, "tar"), (".tgz", None, "tar"), (".tar.bz2", None, "tar"), (".rar", None, None)]


def decompress_dispatch(sl):
    ext, tool, lib = EXTS[sl["ext"]]
    archive = "/data/corpus/documents.json" + ext
    out = {}
    used = []
    tool_present = bool(fresh_bool("external_tool_installed")) if tool else False
    tool_ok = bool(fresh_bool("external_tool_succeeds")) if tool_present else False
    lib_ok = bool(fresh_bool("archive_readable_by_library"))

    class OutFile:
        def __init__(self, path):
            self.path = path
            out[path] = "empty"

        def write(self, data):
            out[self.path] = data if isinstance(data, str) else data.decode()

        def __enter__(self):
            return self

        def __exit__(self, *a):
            return False

    def fake_open(path, mode="r"):
        return OutFile(path)

    class Sub:
        PIPE = subprocess.PIPE
        CalledProcessError = subprocess.CalledProcessError

        @staticmethod
        def run(args, stdout=None, stderr=None, check=False):
            used.append(("tool", args[0]))
            if tool_ok:
                stdout.write("full")
                return None
            stdout.write("partial")  # a failing tool may already have written part of the output
            raise subprocess.CalledProcessError(1, args, stderr=b"corrupt")

    class LibFile:
        def __init__(self, name):
            used.append(("lib", name))
            self.chunks = [b"full"] if lib_ok else None

        def read(self, n):
            if self.chunks is None:
                raise OSError("Invalid data stream")
            return self.chunks.pop(0) if self.chunks else b""

        def close(self):
            pass

    class Archive:
        def __init__(self, kind, name):
            used.append(("lib", kind))
            self.filename = self.name = name

        def extractall(self, path=None):
            if not lib_ok:
                raise OSError("bad archive")
            out[real_os.path.join(path, "documents.json")] = "full"

        def close(self):
            pass

    class Bz2:
        open = staticmethod(lambda name: LibFile("bz2"))

    class Gzip:
        open = staticmethod(lambda name: LibFile("gzip"))

    class Zip:
        ZipFile = staticmethod(lambda name: Archive("zip", name))

    class Tar:
        open = staticmethod(lambda name: Archive("tar", name))
        TarFile = Archive

    with shadowed(rio, (), extra={"open": fake_open, "subprocess": Sub, "is_executable": lambda b: tool_present, "bz2": Bz2, "gzip": Gzip,
                                   "ZstAdapter": lambda name: LibFile("zst"), "zipfile": Zip, "tarfile": Tar, "ensure_dir": lambda d: None,
                                   "isinstance": lambda o, c: (o.name is not None and used[-1][1] == ("zip" if c is Zip.ZipFile else "tar"))
                                   if isinstance(o, Archive) else isinstance(o, c)}):
        try:
            rio.decompress(archive, "/data/corpus")
            how, err = "ret", None
        except Exception as e:  # noqa: BLE001
            how, err = "raise", e
    target = "/data/corpus/documents.json"
    core.note("decoders used", used)
    core.note("outcome", (how, repr(err)[:100], out.get(target)))
    core.trace("used", len(used))
    if lib is None:
        observe("unsupported extension is an explicit error", how == "raise" and isinstance(err, RuntimeError))
        return
    if how == "ret":
        observe("after a successful decompression the document file holds the complete content (never the output of a failed tool)",
                out.get(target) == "full")
        observe("the decoder matches the archive format", all(u[1] in (tool, lib) for u in used))
    else:
        observe("decompression only fails if no decoder could read the archive", not lib_ok and not tool_ok)
    if tool_present and not tool_ok:
        observe("a failing external tool falls back to the library", ("lib", lib) in used)
    if not tool_present or tool_ok:
        observe("no second decoder after a success / without a tool", len(used) == 1)


# ------------------------------------------------------------------------------------------------------------------
READS = [loader.DocumentSetPreparator.prepare_document_set, loader.DocumentSetPreparator.prepare_bundled_document_set,
         loader.DocumentSetPreparator.create_file_offset_table, loader.Downloader.download, loader.Decompressor.decompress, net.download,
         net.download_http, rio.decompress, rio._do_decompress_manually, rio._do_decompress_manually_external, rio._do_decompress_manually_with_lib,
         rio._do_decompress, rio.prepare_file_offset_table, rio.FileOffsetTable, rio.skip_lines]
FS_STUB = ["file system: os.path.isfile/getsize/exists/getmtime, os.remove/rename/replace and open() inside the module under test operate on an in-memory model"]

HARNESSES = [
    Harness("download", download, "symbolic",
            lambda tier: [{"symbolic": n, "_w": n} for n in ((1, 2) if tier == "quick" else (1, 2, 3))] + [{"prefix": k, "symbolic": 1, "_w": 1} for k in range(1, 11)],
            reads=READS, stubs=FS_STUB + ["net._download_http: symbolic outcome per attempt (body of arbitrary size, dropped connection, read timeout, HTTP error, URL error, disk error, interrupt); "
                                          "it creates the temporary file first like the real one", "sleep recorder"],
            bounds={"attempt outcomes": "all sequences of <=2 (3) symbolic outcomes; 1..10 retryable faults (shared class) followed by a symbolic outcome",
                    "sizes": "unbounded integers", "initial state": "final name absent/present, stale .tmp absent/present, expected size known/unknown"},
            doc="download never leaves a partial file under the final name; retry budget; size verification"),
    Harness("download_wire", download_wire, "symbolic", lambda tier: [{}], reads=READS + [net._download_http],
            stubs=["net._request returns a stub response (symbolic status, headers incl. Last-Modified, body in <=3 chunks, connection may drop after any chunk)",
                   "open/os inside esrally.utils.net over an in-memory file with a modification time"],
            bounds={"status": "200..599 symbolic", "chunks": "0..3 of 1..2 bytes", "Content-Length": "sent or not", "expected size": "known (unbounded) or not"},
            doc="one HTTP transfer: status, body, reported size, modification time of the local copy"),
    Harness("download_bucket", download_bucket, "symbolic", lambda tier: [{"scheme": "s3"}, {"scheme": "gs"}], reads=READS + [net.download_from_bucket],
            stubs=FS_STUB + ["blob store clients (_download_from_s3_bucket / _download_from_gcs_bucket) write a symbolic number of bytes to the path they are given"],
            bounds={"outcome": "complete / client error / process killed while writing", "sizes": "symbolic"}, doc="bucket downloads never expose a partial file under the final name"),
    Harness("prepare_loop", prepare_loop, "symbolic", lambda tier: [{"compressed": c} for c in (True, False)], reads=READS,
            stubs=FS_STUB + ["net.download: returns with the final file present (expected size if known, arbitrary otherwise) or raises HTTPError/URLError/DataError",
                             "io.decompress: creates the document file with an arbitrary size, raises, or creates nothing", "io.prepare_file_offset_table: returns None, the declared or another line count"],
            bounds={"initial state": "document file / archive absent or present with arbitrary size", "declared sizes": "each present or absent, unbounded",
                    "flags": "base URL, offline, test mode"},
            doc="state loop: use, decompress or download; verified size; offset table last"),
    Harness("table_follows_data_file", table_follows_data_file, "symbolic", lambda tier: [{}], reads=READS, real_valued=True,
            stubs=FS_STUB + ["io.decompress re-creates the document file with an arbitrary modification time <= now (what tar does)", "net.download succeeds",
                             "io.prepare_file_offset_table applies the validity rule of harness table_validity to symbolic modification times"],
            assumptions=["an offset table that is stale before preparation starts is detectably stale (older than the present file): only Rally's own steps are judged",
                         "the wall clock does not go back during preparation"],
            bounds={"initial files": "document file / archive / offset table present or not", "modification times": "symbolic reals"},
            doc="the offset table left behind belongs to the current document file"),
    Harness("prepare_docs_roots", prepare_docs_roots, "symbolic", lambda tier: [{}], reads=READS + [loader.DefaultTrackPreparator.prepare_docs, loader.set_absolute_data_path, loader.data_dir],
            stubs=FS_STUB + ["net.download (postcondition of harness `download`)", "io.prepare_file_offset_table recorder"],
            bounds={"candidate roots": "track directory then corpus cache, file present or absent in each with a symbolic size", "declared size": "symbolic"},
            doc="track given by path: the file resolved for reading is the verified one"),
    Harness("used_corpora_union", used_corpora_union, "bounded-exhaustive", lambda tier: [{"tasks": 2}, {"tasks": 3}], reads=READS + [loader.used_corpora],
            bounds={"bulk tasks": "2..3 (one sequential, the rest in a parallel element), corpora per task from A / B / A+B / C, optional index filter",
                    "operation names": "all inline operations share the default name, or distinct names"},
            doc="which corpora and document sets preparation covers"),
    Harness("bundled", bundled, "symbolic", lambda tier: [{}], reads=READS, stubs=FS_STUB, doc="bundled document sets"),
    Harness("decompress_dispatch", decompress_dispatch, "symbolic", lambda tier: [{"ext": i} for i in range(len(EXTS))], reads=READS,
            stubs=["external decompressors (subprocess.run): succeed or fail after partial output", "bz2/gzip/zstd/zip/tar readers: readable or corrupt archive", "open()"],
            bounds={"formats": [e[0] for e in EXTS]}, doc="format dispatch and fallback from the external tool to the library"),
    Harness("table_build_and_seek", offsets.table_build_and_seek, "bounded-exhaustive",
            lambda tier: [{"initial": s} for s in ("none", "stale", "garbage-newer-tmp")], reads=READS, stubs=FS_STUB,
            bounds={"data file": "120 000 lines of 10 characters; 0..2 / 0..3 / 0..1 extra bytes (multi-byte content) on one line before each checkpoint",
                    "targets": offsets.TARGETS},
            doc="a built table positions readers at the same byte as sequential skipping"),
    Harness("table_crash_points", offsets.table_crash_points, "bounded-exhaustive",
            lambda tier: [{"initial": s} for s in ("none", "stale")], reads=READS, stubs=FS_STUB + ["crash = BaseException raised at the k-th file system event of the build"],
            bounds={"crash point": "every write to the table, its creation and the rename", "targets": offsets.CRASH_TARGETS,
                    "data file": "120 000 lines; 0/1 and 0/3 extra bytes on a line before each checkpoint"},
            doc="a build interrupted anywhere never leaves a table that is used and wrong; the next preparation repairs it"),
    Harness("table_validity", offsets.table_validity, "symbolic", lambda tier: [{}], reads=READS, stubs=FS_STUB, real_valued=True,
            bounds={"modification times": "unbounded symbolic reals >= 0"}, doc="offset table validity for arbitrary modification times"),
    Harness("find_closest", offsets.find_closest, "symbolic", lambda tier: [{"entries": n} for n in (0, 1, 2, 4)], reads=READS, stubs=FS_STUB,
            bounds={"table entries": "0..4 with symbolic increasing byte offsets", "target line": "unbounded integer"},
            doc="find_closest_offset on unbounded targets"),
]
