"""Plumbing probe for C19/P1: real BulkIndex.simple_stats vs detailed_stats vs a full-parse oracle, brute force over small item lists,
and real parse() vs json.loads on search-like responses with permuted key order."""
import sys, itertools, json, logging, io as _io
sys.path.insert(0, __import__("os").environ.get("VERIF_REPO", "/repo")); logging.disable(logging.CRITICAL)
from esrally.driver import runner
B = runner.BulkIndex()
n = bad = 0
ITEM = [(200, None, False), (201, 0, False), (201, 1, False), (429, None, True), (400, 0, True), (500, None, False)]
for k in (0, 1, 2, 3):
    for items in itertools.product(ITEM, repeat=k):
        docs = []
        for st, shards_failed, has_err in items:
            d = {"_index": "i", "status": st}
            if shards_failed is not None: d["_shards"] = {"total": 2, "successful": 2 - shards_failed, "failed": shards_failed}
            if has_err: d["error"] = {"type": "t", "reason": "r%d" % st}
            docs.append({"index": d})
        failed = sum(1 for st, sf, _ in items if st > 299 or (sf or 0) > 0)
        resp = {"took": 5, "errors": failed > 0, "items": docs}
        raw = _io.BytesIO(json.dumps(resp).encode())
        s = B.simple_stats(k, "docs", raw)
        dt = B.detailed_stats({"action-metadata-present": True, "body": b"", "bulk-size": k, "unit": "docs"}, resp)
        n += 1
        exp = (failed == 0, k - failed, failed)
        if (s["success"], s["success-count"], s["error-count"]) != exp or (dt["success"], dt["success-count"], dt["error-count"]) != exp:
            bad += 1; print("MISMATCH", items, s, dt)
print("bulk responses", n, "bad", bad)
# parse(): key order permutations of a search response
n = bad = 0
base = [("took", 3), ("timed_out", False), ("_scroll_id", "abc"), ("hits", None), ("pit_id", "p")]
for perm in itertools.permutations(base):
    for total_kind in ("obj", "num"):
        for nhits in (0, 2):
            for hits_order in (0, 1):
                hits = [("total", {"value": 7, "relation": "gte"} if total_kind == "obj" else 7), ("hits", [{"_id": str(i), "sort": [i]} for i in range(nhits)])]
                if hits_order: hits.reverse()
                doc = {k: (dict(hits) if k == "hits" else v) for k, v in perm}
                raw = _io.BytesIO(json.dumps(doc).encode())
                got = runner.parse(raw, ["_scroll_id", "hits.total", "hits.total.value", "hits.total.relation", "timed_out", "took", "pit_id"], ["hits.hits"])
                n += 1
                exp_total = 7
                ok = got.get("took") == 3 and got.get("timed_out") is False and got.get("_scroll_id") == "abc" and got.get("pit_id") == "p" \
                     and got.get("hits.total.value", got.get("hits.total")) == exp_total and got.get("hits.hits") == (nhits == 0) \
                     and (total_kind == "num" or got.get("hits.total.relation") == "gte")
                if not ok: bad += 1; print("PARSE", json.dumps(doc)[:120], got) if bad < 5 else None
print("search responses", n, "bad", bad)
