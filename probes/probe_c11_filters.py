"""Plumbing probe for C11: real TaskFilterTrackProcessor vs the set-comprehension oracle, brute force over small schedules and filter lists."""
import sys, itertools, logging, collections
sys.path.insert(0, __import__("os").environ.get("VERIF_REPO", "/repo")); logging.disable(logging.CRITICAL)
from esrally import track, exceptions
from esrally.track import loader
from esrally.driver import driver
class Cfg:
    def __init__(s, inc=None, exc=None): s.inc = inc; s.exc = exc
    def opts(s, sec, key, mandatory=True, default_value=None): return {"include.tasks": s.inc, "exclude.tasks": s.exc}.get(key, default_value)
OPS = {"search": track.Operation("s", "search"), "bulk": track.Operation("b", "bulk")}
LEAVES = [("a", "search", ["x"]), ("b", "bulk", ["x", "y"]), ("c", "search", []), ("d", "bulk", ["y"])]
FILTERS = ["a", "b", "c", "zzz", "type:search", "type:bulk", "tag:x", "tag:y", "tag:none"]
def matches(leaf, f):
    name, typ, tags = leaf
    if f.startswith("type:"): return typ == f[5:]
    if f.startswith("tag:"): return f[4:] in tags
    return name == f
def shapes():
    # partitions of the 4 leaves (in order) into elements; each element sequential (single) or parallel
    for cuts in itertools.product([0, 1], repeat=3):
        groups = [[LEAVES[0]]]
        for leaf, c in zip(LEAVES[1:], cuts):
            if c: groups.append([leaf])
            else: groups[-1].append(leaf)
        for par in itertools.product([0, 1], repeat=len(groups)):
            if all(p or len(g) == 1 for g, p in zip(groups, par)): yield [(g, p) for g, p in zip(groups, par)]
n = 0; bad = collections.Counter(); ex = {}
for shape in shapes():
    for k in (1, 2):
        for fl in itertools.product(FILTERS, repeat=k):
            for mode in ("include", "exclude"):
                sched = []; objs = {}
                for g, p in shape:
                    ts = [track.Task(nm, OPS[ty], tags=list(tg)) for nm, ty, tg in g]
                    for t in ts: objs[t.name] = t
                    sched.append(track.Parallel(ts) if p else ts[0])
                trk = track.Track("t", challenges=[track.Challenge("c", default=True, schedule=sched)])
                loader.TaskFilterTrackProcessor(Cfg(inc=list(fl)) if mode == "include" else Cfg(exc=list(fl))).on_after_load_track(trk)
                out = trk.challenges[0].schedule
                got = [t for e in out for t in e]
                keep = lambda leaf: any(matches(leaf, f) for f in fl) if mode == "include" else not any(matches(leaf, f) for f in fl)
                exp = [objs[l[0]] for l in LEAVES if keep(l)]
                n += 1; r = None
                if [id(t) for t in got] != [id(t) for t in exp]: r = "survivors differ"
                elif any(isinstance(e, track.Parallel) and len(e.tasks) == 0 for e in out): r = "empty parallel"
                else:
                    al = driver.Allocator(out)
                    if len(al.tasks_per_joinpoint) != len(al.join_points) - 1: r = "steps != progress entries"
                if r: bad[(mode, r)] += 1; ex.setdefault((mode, r), (shape, fl))
print("cases", n, "violations", dict(bad))
for k, v in ex.items(): print("  e.g.", k, [([l[0] for l in g], "par" if p else "seq") for g, p in v[0]], v[1])
