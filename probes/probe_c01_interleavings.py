"""Measure the number of maximal interleavings of the real Driver/Worker closed system (stutter-reduced), by re-execution DFS."""
import sys, os, time
sys.path.insert(0, os.path.dirname(__file__))
import probe_c01_fake_actor_system as fs
from esrally import track
from esrally.driver import driver
op = track.Operation("s", "search")

class Sys2(fs.System):
    def __init__(self):
        super().__init__(); global SYS; SYS = self
    def enabled(self):
        ev = super().enabled()
        out = []
        for e in ev:
            if e[0] == "timer":
                a = self.actors[self.timers[e[1]][0]]
                if isinstance(a, driver.Worker):
                    fut = a.executor_future
                    # stutter reduction: a poll wake-up that finds a running executor only re-arms itself
                    if not a.start_driving and fut is not None and not fut.done(): continue
            out.append(e)
        return out
fs.System = Sys2

def explore(sched, limit_paths=2000000, max_events=80, tmax=120):
    prefix = []; paths = 0; hangs = 0; t0 = time.time(); maxlen = 0
    while True:
        pos = [0]
        def order(evs):
            i = pos[0]; pos[0] += 1
            if i < len(prefix):
                return prefix[i][0]
            prefix.append([0, len(evs)]); return 0
        got, n = fs.run(sched, order=order, max_events=max_events)
        paths += 1; maxlen = max(maxlen, n)
        if got.count("BenchmarkComplete") != 1: hangs += 1
        del prefix[pos[0]:]
        while prefix and prefix[-1][0] + 1 >= prefix[-1][1]: prefix.pop()
        if not prefix: return paths, hangs, maxlen, time.time() - t0, True
        prefix[-1][0] += 1
        if paths >= limit_paths or time.time() - t0 > tmax: return paths, hangs, maxlen, time.time() - t0, False

for name, sched in [
    ("1 task x 2 clients", [track.Task("x", op, iterations=1, clients=2)]),
    ("2 tasks x 2 clients", [track.Task("x", op, iterations=1, clients=2), track.Task("y", op, iterations=1, clients=2)]),
    ("parallel A* + B(endless)", [track.Parallel([track.Task("A", op, iterations=1, completes_parent=True), track.Task("B", op)])]),
]:
    print(name, explore(sched))
