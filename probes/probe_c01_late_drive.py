"""C01: CompleteCurrentTask that overtakes the worker's own wake-up (Drive already received) is ignored -> endless task never ends."""
import sys, os
sys.path.insert(0, os.path.dirname(__file__))
import probe_c01_fake_actor_system as fs
from esrally import track
from esrally.driver import driver
op = track.Operation("s", "search")
A = track.Task("A", op, iterations=1, completes_parent=True)
B = track.Task("B", op)  # endless: ends only via completed-by
sched = [track.Parallel([A, B])]

def make_order():
    state = {"w2": None}
    def order(evs):
        # starve worker 2 (highest actor id) of timers; deliver its messages only when nothing else is enabled
        def target(e):
            if e[0] == "msg": return e[1][1]
            if e[0] == "timer": return SYS.timers[e[1]][0]
            return -1
        w2 = max(SYS.actors)
        others = [i for i, e in enumerate(evs) if target(e) != w2]
        if others:
            for i in others:
                if evs[i][0] != "timer": return i
            return others[0]
        for i, e in enumerate(evs):      # only W2 events left: messages first (Drive, then CompleteCurrentTask), timers last
            if e[0] == "msg": return i
        return 0
    return order
# expose the system to the order function
_orig_System = fs.System
class Sys2(_orig_System):
    def __init__(self):
        super().__init__(); global SYS; SYS = self
fs.System = Sys2
print("late Drive to worker 2:", fs.run(sched, order=make_order(), max_events=80))
print("fair order            :", fs.run(sched, order=fs.fair, max_events=80))
w2 = SYS.actors[max(SYS.actors)]
print("(state after the fair run is SYS of the last run; re-running adversarial)")
fs.run(sched, order=make_order(), max_events=80)
w2 = SYS.actors[max(SYS.actors)]
print("worker2: index", w2.current_task_index, "complete", w2.complete.is_set(), "runs", [(r.finished, r.can_finish()) for r in SYS.runs])
