"""Plumbing probe for C04/C09: real execute_single over outcome classes x on_error policy."""
import sys, asyncio, logging, io as _io
sys.path.insert(0, __import__("os").environ.get("VERIF_REPO", "/repo")); logging.disable(logging.CRITICAL)
import elasticsearch, elastic_transport
from esrally.driver import driver
from esrally import exceptions
class Meta:
    def __init__(s, st): s.status = st; s.headers = {}; s.http_version = "1.1"; s.duration = 0; s.node = None
OUT = {
  "dict": lambda: {"weight": 3, "unit": "docs", "success": True},
  "dict-fail": lambda: {"weight": 3, "unit": "docs", "success": False, "error-type": "bulk"},
  "tuple": lambda: (2, "ops"), "none": lambda: None,
  "timeout": lambda: elasticsearch.exceptions.ConnectionTimeout("t"),
  "conn": lambda: elasticsearch.exceptions.ConnectionError("c"),
  "tls": lambda: elastic_transport.TlsError("tls"),
  "api404": lambda: elasticsearch.NotFoundError("nf", Meta(404), {"error": "x"}),
  "api-bytes": lambda: elasticsearch.ApiError("e", Meta(413), b"too large"),
  "api-bytesio": lambda: elasticsearch.ApiError("e", Meta(413), _io.BytesIO(b"")),
  "keyerror": lambda: KeyError("index"),
  "other": lambda: ValueError("boom"),
}
class Runner:
    def __init__(s, o): s.o = o
    async def __aenter__(s): return s
    async def __aexit__(s, *a): return False
    async def __call__(s, es, params):
        v = OUT[s.o]()
        if isinstance(v, BaseException): raise v
        return v
for o in OUT:
    row = []
    for pol in ("continue", "abort"):
        try:
            ops, unit, meta = asyncio.run(driver.execute_single(Runner(o), None, {}, pol)); row.append((ops, unit, meta.get("success"), meta.get("error-type")))
        except Exception as e: row.append(type(e).__name__)
    print(f"{o:12s} continue={row[0]!s:45s} abort={row[1]}")
