"""Plumbing probe for C02: real Allocator / calculate_worker_assignments, brute force over small shapes (no solver yet)."""
import sys, itertools, logging, collections
sys.path.insert(0, __import__("os").environ.get("VERIF_REPO", "/repo")); logging.disable(logging.CRITICAL)
from esrally import track
from esrally.driver import driver
op = track.Operation("o", "search")
def check(sched):
    al = driver.Allocator(sched); m = al.allocations; C = al.clients
    if C != max([1] + [e.clients for e in sched]): return "clients"
    if len(m) != C or len({len(r) for r in m}) != 1: return "ragged"
    L = len(m[0]); jp_cols = []
    for i in range(L):
        col = [m[c][i] for c in range(C)]
        isjp = [isinstance(x, driver.JoinPoint) for x in col]
        if any(isjp):
            if not all(isjp) or len({x.id for x in col}) != 1: return "join point misaligned"
            jp_cols.append(i)
    if [m[0][i].id for i in jp_cols] != list(range(len(sched) + 1)): return "join point ids"
    for e, elem in enumerate(sched):
        lo, hi = jp_cols[e], jp_cols[e + 1]
        seen = collections.defaultdict(list)
        for c in range(C):
            for i in range(lo + 1, hi):
                a = m[c][i]
                if a is not None:
                    if a.task not in list(elem): return "task in wrong element"
                    seen[a.task.name].append(a.client_index_in_task)
                    if a.global_client_index % C != c: return "physical index"
        for t in elem:
            if sorted(seen[t.name]) != list(range(t.clients)): return f"client indices of {t.name}: {sorted(seen[t.name])}"
    tj = al.tasks_per_joinpoint
    if len(tj) != len(al.join_points) - 1: return "steps != progress entries"
    for e, elem in enumerate(sched):
        if {t.name for t in tj[e]} != {t.name for t in elem}: return "progress entry tasks"
    return None
n = 0; bad = collections.Counter(); ex = {}
names = iter(range(10**9))
def elements():
    for c in (1, 2, 3): yield ("T", c)
    for k in (0, 1, 2, 3):
        for cl in itertools.product((1, 2, 3), repeat=k):
            for cap in (None, 1, 2, 4):
                yield ("P", cl, cap)
E = list(elements())
for L in (1, 2):
    for shape in itertools.product(E, repeat=L):
        sched = []
        for el in shape:
            if el[0] == "T": sched.append(track.Task(f"t{next(names)}", op, clients=el[1]))
            else: sched.append(track.Parallel([track.Task(f"t{next(names)}", op, clients=c) for c in el[1]], el[2]))
        n += 1; r = check(sched)
        if r: bad[r] += 1; ex.setdefault(r, shape)
print("schedules", n, "violations", dict(bad)); [print("  e.g.", k, v) for k, v in ex.items()]
# worker assignments
n = bad2 = 0
for hosts in itertools.chain.from_iterable(itertools.product(range(1, 5), repeat=h) for h in (1, 2, 3)):
    for clients in range(0, 17):
        a = driver.calculate_worker_assignments([{"host": f"h{i}", "cores": c} for i, c in enumerate(hosts)], clients)
        flat = [c for h in a for w in h["workers"] for c in w]
        ok = flat == list(range(clients)) and all(len([w for w in h["workers"] if w]) <= c for h, c in zip(a, hosts)) \
             and all(max(len(w) for w in h["workers"]) - min(len(w) for w in h["workers"]) <= 1 for h in a)
        n += 1; bad2 += not ok
print("assignments", n, "bad", bad2)
