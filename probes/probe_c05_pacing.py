"""Probe for C05 pacing: real UnitAwareScheduler + DeterministicScheduler + ScheduleHandle.ramp_up_wait_time on symbolic reals (model R)."""
import sys, z3, os, logging
sys.path.insert(0, __import__("os").environ.get("VERIF_REPO", "/repo")); sys.path.insert(0, os.path.dirname(__file__)); logging.disable(logging.CRITICAL)
import symx_prototype as symx
from symx_prototype import SInt, SBool, SReal
from esrally.driver import driver, scheduler
from esrally import track
class T:   # stands for track.Task: only the attributes the schedulers read
    def __init__(s, value, unit, clients, ramp=None): s.target_throughput = track.Throughput(value, unit); s.clients = clients; s.ramp_up_time_period = ramp
    def __str__(s): return "t"
def mk(): return [SReal(z3.Real("T")), SInt(z3.Int("C")), SInt(z3.Int("w1")), SInt(z3.Int("w2")), SReal(z3.Real("t0")), SBool(z3.Bool("docs"))]
def pre(Tv, C, w1, w2, t0, docs): return bool(Tv > 0) and bool(C >= 1) and bool(w1 >= 0) and bool(w2 >= 0) and bool(t0 >= 0)
def prop(Tv, C, w1, w2, t0, docs):
    unit = "docs" if bool(docs) else "ops"
    s = scheduler.UnitAwareScheduler(T(Tv, f"{unit}/s", C), scheduler.DeterministicScheduler)
    if not s.next(t0) == 0: return False                                   # unthrottled until the first response
    s.after_request(0, w1, unit, {})
    t1 = s.next(t0)
    if w1 > 0:
        if not t1 - t0 == w1 * C / Tv: return False
    else:
        if not t1 == 0: return False
    first = s.scheduler
    s.after_request(0, w2, unit, {})
    t2 = s.next(t1)
    eff = w2 if (w2 > 0) else w1
    if (w2 > 0 and w1 > 0 and w2 == w1) or (not w2 > 0):
        if s.scheduler is not first: return False                          # unchanged weight / zero weight keeps the scheduler
    if eff > 0:
        if not t2 - t1 == eff * C / Tv: return False
        if not t2 >= t1: return False
    return True
r = symx.explore(prop, mk, pre=pre, timeout=120); print("pacing:", r[0], r[2], "paths", round(r[3], 2), "s", r[1] if r[1] is not None else "")
# ramp-up
class TA:
    def __init__(s, task, i, n): s.task = task; s.global_client_index = i; s.total_clients = n; s.task.operation = type("O", (), {"type": "search"})()
def mk2(): return [SReal(z3.Real("ramp")), SInt(z3.Int("i")), SInt(z3.Int("n"))]
def pre2(r, i, n): return bool(r >= 0) and bool(i >= 0) and bool(i < n)
def prop2(r, i, n):
    h = driver.ScheduleHandle(TA(T(1.0, "ops/s", 1, ramp=r), i, n), None, None, None, None)
    w = h.ramp_up_wait_time
    return bool(w == r * i / n) and bool(w >= 0) and bool(w <= r)
r = symx.explore(prop2, mk2, pre=pre2, timeout=60); print("ramp-up:", r[0], r[2], "paths", round(r[3], 2), "s", r[1] if r[1] is not None else "")
