"""Plumbing probe for C15/V3: real RallyRepository.update with a stub git module."""
import sys, itertools, logging
sys.path.insert(0, __import__("os").environ.get("VERIF_REPO", "/repo")); logging.disable(logging.CRITICAL)
from esrally.utils import repo, versions
from esrally import exceptions
class Git:
    def __init__(s, remote_branches, local_branches, tags, current="master"):
        s.rb, s.lb, s.tg, s.cur, s.log = remote_branches, local_branches, tags, current, []
    def is_working_copy(s, d): return True
    def fetch(s, src, remote): s.log.append("fetch")
    def branches(s, d, remote=True): return list(s.rb if remote else s.lb)
    def tags(s, d): return list(s.tg)
    def checkout(s, d, branch): s.log.append(("checkout", branch)); s.cur = branch
    def rebase(s, d, remote, branch): s.log.append(("rebase", branch))
    def head_revision(s, d): return "rev-" + s.cur
    def current_branch(s, d): return s.cur
repo.io.exists = lambda p: True; repo.console.warn = lambda *a, **k: None
U = ["master", "7", "7.0", "7.2", "8"]
n = bad = 0
for version in ("7.1.0", "7.2.3", "9.0.0", "6.0.0"):
    for remote in (True, False):
        for k in range(0, 4):
            for lb in itertools.combinations(U, k):
                for tags in ([], ["v7.1.0", "v7.1"], ["v6"]):
                    g = Git(list(lb), list(lb), tags); repo.git = g
                    r = repo.RallyRepository("http://x" if remote else None, "/root", "r", "tracks", offline=False)
                    exp = versions.best_match(list(lb), version)
                    try: r.update(version); err = None
                    except exceptions.SystemSetupError as e: err = e
                    n += 1
                    co = [x[1] for x in g.log if isinstance(x, tuple) and x[0] == "checkout"]
                    if exp:
                        ok = err is None and (co[-1:] == [exp] or (not remote and g.cur == exp))
                    else:
                        tag = next((f"v{v}" for v in versions.variants_of(version) if f"v{v}" in tags), None)
                        ok = (err is None and co[-1:] == [tag]) if tag else (err is not None and not co)
                    if not ok: bad += 1; print("MISMATCH", version, remote, lb, tags, co, err, exp) if bad < 6 else None
print("cases", n, "bad", bad)
