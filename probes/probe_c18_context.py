"""Probe for C18: real RequestContextManager/Holder with real asyncio tasks, symbolic clock, symbolic exit order."""
import sys, z3, os, logging, asyncio
sys.path.insert(0, __import__("os").environ.get("VERIF_REPO", "/repo")); sys.path.insert(0, os.path.dirname(__file__)); logging.disable(logging.CRITICAL)
import symx_prototype as symx
from symx_prototype import SInt, SBool
from esrally.client import context

class Clock:
    def __init__(self): self.now = SInt(z3.IntVal(0)); self.n = 0
    def perf_counter(self):
        self.n += 1; d = SInt(z3.Int(f"dt{self.n}")); symx.assume_fresh(d.z >= 0); self.now = self.now + d; return self.now
def choice(name, n):
    if n == 1: return 0
    v = SInt(z3.Int(name)); symx.assume_fresh(z3.And(v.z >= 0, v.z < n)); return v.__index__()
def smin(xs):
    m = xs[0]
    for x in xs[1:]: m = x if x < m else m
    return m
def smax(xs):
    m = xs[0]
    for x in xs[1:]: m = x if x > m else m
    return m

K = int(sys.argv[1]) if len(sys.argv) > 1 else 2
def prop():
    clk = Clock(); context.time = clk
    H = context.RequestContextHolder()
    wire = []; kids = []
    async def child(i, gate_req, gate_exit):
        with H.new_request_context() as c:
            await gate_req.wait()
            H.on_request_start(); s = clk.now
            H.on_request_end(); e = clk.now
            wire.append((s, e))
            await gate_exit.wait()
        kids.append((c.request_start, c.request_end, s, e))
    async def main():
        with H.new_request_context() as outer:
            gates = [(asyncio.Event(), asyncio.Event()) for _ in range(K)]
            tasks = [asyncio.create_task(child(i, *gates[i])) for i in range(K)]
            await asyncio.sleep(0)
            # symbolic interleaving: each step opens one not-yet-open gate
            pending = [(i, 0) for i in range(K)]          # (child, next gate index)
            step = 0
            while pending:
                j = choice(f"pick{step}", len(pending)); step += 1
                i, g = pending.pop(j)
                gates[i][g].set()
                for _ in range(3): await asyncio.sleep(0)
                if g == 0: pending.append((i, 1))
            await asyncio.gather(*tasks)
        return outer.request_start, outer.request_end
    os_, oe = asyncio.run(main())
    for (cs, ce, s, e) in kids:
        if not (cs == s and ce == e): return False
    return bool(os_ == smin([s for s, _ in wire])) and bool(oe == smax([e for _, e in wire]))
r = symx.explore(prop, lambda: [], timeout=200)
print("C18 concurrent children K=%d:" % K, r[0], r[2], "paths", round(r[3], 1), "s", r[1] if r[1] is not None else "")
