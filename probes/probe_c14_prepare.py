"""Probe for C14 (L1 + L2): real DocumentSetPreparator / Downloader / Decompressor / net.download over a symbolic file system."""
import sys, z3, os, logging, urllib.error
sys.path.insert(0, __import__("os").environ.get("VERIF_REPO", "/repo")); sys.path.insert(0, os.path.dirname(__file__)); logging.disable(logging.CRITICAL)
import symx_prototype as symx
from symx_prototype import SInt, SBool
from esrally import track, exceptions
from esrally.track import loader
from esrally.utils import net, io
import urllib3

class FS:
    """path -> size (SInt/int) ; absent = not a file"""
    def __init__(self): self.files = {}
    # os.path
    def isfile(self, p): return p in self.files
    def exists(self, p): return p in self.files
    def getsize(self, p): return self.files[p]
    def basename(self, p): return os.path.basename(p)
    def dirname(self, p): return os.path.dirname(p)
    def join(self, *a): return os.path.join(*a)
    # os
    def remove(self, p): del self.files[p]
    def rename(self, a, b): self.files[b] = self.files.pop(a)
def osmod(fs):
    m = type("os", (), {})(); m.path = fs; m.remove = fs.remove; m.rename = fs.rename; return m
class NoProgress:
    def __init__(self, *a, **k): pass
    def __call__(self, *a): pass
    def finish(self): pass

N = [0]
MAXRETRY = 2
symx.SNum.__format__ = lambda s, spec: '<num>'
symx.SNum.__str__ = lambda s: '<num>'
symx.SNum.__round__ = lambda s, n=None: symx.SInt(z3.ToInt(s.z + z3.Q(1, 2))) if s.z.sort() != z3.IntSort() else s
def fresh_int(name):
    N[0] += 1; v = SInt(z3.Int(f"{name}{N[0]}")); symx.assume_fresh(v.z >= 0); return v
def fresh_choice(name, n):
    N[0] += 1; v = SInt(z3.Int(f"{name}{N[0]}")); symx.assume_fresh(z3.And(v.z >= 0, v.z < n)); return int.__index__(0) if n == 1 else v.__index__()

# ---------------- L2: net.download ----------------
def l2_prop(expected_known, exp, pre_final, pre_tmp):
    N[0] = 0
    fs = FS(); net.os = osmod(fs)
    if bool(pre_final): fs.files["/d/f"] = 111
    if bool(pre_tmp): fs.files["/d/f.tmp"] = 222
    before = fs.files.get("/d/f")
    attempts = [0]; sleeps = []
    def fake_download_http(url, local_path, expected_size_in_bytes=None, progress_indicator=None):
        attempts[0] += 1
        k = fresh_choice("out", 5 if attempts[0] <= MAXRETRY else 3)
        if attempts[0] > MAXRETRY and k >= 1: k += 2   # after MAXRETRY retryable faults only terminal outcomes
        n = fresh_int("n")
        if k == 0: fs.files[local_path] = n; return expected_size_in_bytes if expected_size_in_bytes is not None else n   # Content-Length
        fs.files[local_path] = n      # partial body written before the fault
        if k == 1: raise urllib3.exceptions.ProtocolError("p")
        if k == 2: raise urllib3.exceptions.ReadTimeoutError(None, "u", "t")
        if k == 3: raise urllib.error.HTTPError("u", 500, "", None, None)
        raise OSError("disk")
    net._download_http = fake_download_http
    orig = net.download_http
    net.download_http = lambda url, lp, e=None, p=None: orig(url, lp, e, p, sleep=lambda t: sleeps.append(t))
    exc = None
    try:
        net.download("http://h/f", "/d/f", exp if bool(expected_known) else None)
    except Exception as e: exc = e
    finally: net.download_http = orig
    if attempts[0] > 11: return False
    if "/d/f.tmp" in fs.files: return False                       # never leaves the temporary file
    if exc is None:
        if "/d/f" not in fs.files: return False
        if bool(expected_known) and not fs.files["/d/f"] == exp: return False
        return True
    # failed: final name untouched
    return fs.files.get("/d/f") is before or fs.files.get("/d/f") == before
def mk2(): return [SBool(z3.Bool("known")), SInt(z3.Int("exp")), SBool(z3.Bool("pre_final")), SBool(z3.Bool("pre_tmp"))]
def pre2(k, e, a, b): return bool(e >= 0)
import builtins
def restricted(maxfail):
    # bound: at most `maxfail` retryable faults before a terminal outcome (full horizon = 11 attempts needs the state-injection trick)
    def prop(*a):
        return l2_prop(*a)
    return prop
r = symx.explore(l2_prop, mk2, pre=pre2, timeout=100)
print("L2 net.download:", r[0], r[2], "paths", round(r[3], 1), "s", r[1] if r[1] is not None else "")

# ---------------- L1: DocumentSetPreparator.prepare_document_set ----------------
def l1_prop(doc_there, doc_size, arc_there, arc_size, has_arc, usz_known, usz, csz_known, csz, has_url, offline):
    N[0] = 0
    fs = FS(); loader.os = osmod(fs); loader.os.path = fs
    has_arc = bool(has_arc)
    DOC, ARC = "/data/docs.json", "/data/docs.json.bz2"
    if bool(doc_there): fs.files[DOC] = doc_size
    if has_arc and bool(arc_there): fs.files[ARC] = arc_size
    usz_v = usz if bool(usz_known) else None; csz_v = csz if bool(csz_known) else None
    ds = track.Documents("bulk", document_file="docs.json", document_archive="docs.json.bz2" if has_arc else None,
                         base_url="http://h" if bool(has_url) else None, number_of_documents=10,
                         compressed_size_in_bytes=csz_v, uncompressed_size_in_bytes=usz_v)
    calls = {"dl": 0, "dec": 0, "off": 0}
    def fake_net_download(url, target, size, progress_indicator=None):
        calls["dl"] += 1
        if calls["dl"] > 3: raise RuntimeError("too many downloads")
        k = fresh_choice("dl", 3)
        if k == 0:                                   # postcondition of net.download (L2): file present, size == expected if known
            fs.files[target] = size if size is not None else fresh_int("sz")
        elif k == 1: raise urllib.error.HTTPError(url, 404, "nf", None, None)
        else: raise urllib.error.URLError("net down")
    def fake_decompress(archive, target_dir):
        calls["dec"] += 1
        if calls["dec"] > 3: raise RuntimeError("too many decompressions")
        k = fresh_choice("dec", 3)
        if k == 0: fs.files[DOC] = fresh_int("out")  # arbitrary output size
        elif k == 1: raise RuntimeError("corrupt archive")
        # k == 2: tool "succeeds" but creates nothing
    loader.net.download = fake_net_download; loader.net.Progress = NoProgress
    loader.io.decompress = fake_decompress; loader.io.ensure_dir = lambda d: None
    loader.io.prepare_file_offset_table = lambda p: (calls.__setitem__("off", calls["off"] + 1), None)[1]
    loader.console.info = lambda *a, **k: None; loader.console.println = lambda *a, **k: None
    prep = loader.DocumentSetPreparator("t", loader.Downloader(offline=bool(offline), test_mode=False), loader.Decompressor())
    exc = None
    try: prep.prepare_document_set(ds, "/data")
    except (exceptions.RallyError, RuntimeError, urllib.error.URLError) as e: exc = e
    if exc is not None:
        return not str(exc).startswith("too many")          # explicit error is fine; a livelock is not
    if DOC not in fs.files: return False
    if usz_v is not None and not fs.files[DOC] == usz_v: return False
    return calls["off"] == 1
def mk1():
    B = lambda n: SBool(z3.Bool(n)); I = lambda n: SInt(z3.Int(n))
    return [B("doc_there"), I("doc_size"), B("arc_there"), I("arc_size"), B("has_arc"), B("usz_known"), I("usz"), B("csz_known"), I("csz"), B("has_url"), B("offline")]
def pre1(dt, dsz, at, asz, ha, uk, u, ck, c, hu, off):
    return bool(dsz >= 0) and bool(asz >= 0) and bool(u >= 0) and bool(c >= 0)
r = symx.explore(l1_prop, mk1, pre=pre1, timeout=250)
print("L1 prepare_document_set:", r[0], r[2], "paths", round(r[3], 1), "s", r[1] if r[1] is not None else "")
