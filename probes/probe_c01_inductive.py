"""C01 feasibility: is the candidate invariant INV inductive? Enumerate abstract global states (over-approximation),
materialise each on the REAL Driver/Worker objects, keep those satisfying INV, fire every enabled event once on the real
handlers and check INV afterwards.  (In the final machinery the enumeration is done by symx over symbolic state variables.)"""
import sys, os, itertools, collections, time
sys.path.insert(0, os.path.dirname(__file__))
import probe_c01_fake_actor_system as fs
import thespian.actors as ta
from esrally import track
from esrally.driver import driver
op = track.Operation("s", "search")

def build(sched, cores=2):
    """real start_benchmark + StartWorker on the fake runtime; returns system with all workers at join point 0 (JPR in flight)"""
    s = fs.System(); rc = s.create(fs.RaceControl); da_addr = s.create(driver.DriverActor); da = s.actors[da_addr.addressDetails]
    d = driver.Driver(da, fs.Cfg()); da.driver = d; da.benchmark_actor = rc
    class MS:
        opened = True
        def to_externalizable(self, clear=False): return None
        def close(self): self.opened = False
        def reset_relative_time(self): pass
        def flush(self, refresh=True): pass
    class Tel:
        def on_benchmark_start(self): pass
        def on_benchmark_stop(self): pass
    d.metrics_store = MS(); d.telemetry = Tel(); d.quiet = True; d.sample_post_processor = lambda x: None
    d.track = track.Track("t"); d.challenge = track.Challenge("c", schedule=sched)
    d.load_driver_hosts = [{"host": "localhost", "cores": cores}]
    class CO: all_client_options = {"default": {}}
    d.config.opts = lambda sec, key, mandatory=True, default_value=None: CO() if (sec, key) == ("client", "options") else fs.Cfg.opts(d.config, sec, key, mandatory, default_value)
    s.chan[(rc.addressDetails, da_addr.addressDetails)].append((rc, driver.StartBenchmark()))
    while True:   # deliver everything except JoinPointReached and timers
        evs = [e for e in s.enabled() if e[0] == "msg" and not isinstance(s.chan[e[1]][0][1], driver.JoinPointReached)]
        if not evs: break
        s.fire(evs[0])
    s.timers.clear()
    s.da = da; s.D = d; s.da_id = da_addr.addressDetails; s.rc = s.actors[rc.addressDetails]
    return s

def jp_rows(w):
    return [i for i in range(len(w.client_allocations.allocations[0]["tasks"])) if w.client_allocations.tasks(i) and w.client_allocations.is_joinpoint(i)]
def rows_of_element(w, j):
    rows = jp_rows(w); return [i for i in range(rows[j] + 1, rows[j + 1]) if w.client_allocations.tasks(i)]
def endless(t): return t.iterations is None and t.time_period is None

def materialise(sched, st):
    """st = (d, sent, per-worker tuples (phase, row_pos, run_done, complete, cct))"""
    s = build(sched); D = s.D; d, sent, ws = st
    for k in list(s.chan): s.chan[k].clear()
    D.current_step = d; D.complete_current_task_sent = sent; D.workers_completed_current_step = {}
    for wid, (addr, (phase, rp, run_done, complete, cct)) in enumerate(zip(D.workers, ws)):
        k = addr.addressDetails; w = s.actors[k]; rows = jp_rows(w)
        to_w = s.chan[(s.da_id, k)]; to_d = s.chan[(k, s.da_id)]
        w.executor_future = None; w.start_driving = False; w.complete.clear(); w.cancel.clear(); w.sampler = None
        if phase in ("inflight", "armed"):
            idx = rows[d]
            if cct == "ahead": to_w.append((s.da.myAddress, driver.CompleteCurrentTask()))
            if phase == "inflight": to_w.append((s.da.myAddress, driver.Drive(0.0)))
            else: w.start_driving = True; s.timers.append((k, ta.WakeupMessage(0, None)))
            if cct == "behind": to_w.append((s.da.myAddress, driver.CompleteCurrentTask()))
        elif phase == "run":
            er = rows_of_element(w, d)
            if rp >= len(er): return None
            idx = er[rp]
            ex = driver.AsyncIoAdapter(None, None, w.client_allocations.tasks(idx), None, w.cancel, w.complete, None, None, wid)
            run = fs.Run(ex); s.runs.append(run); w.executor_future = fs.Fut(run); run.finished = run_done
            w.sampler = driver.Sampler(0)
            s.timers.append((k, ta.WakeupMessage(0, None)))
            if cct == "behind": to_w.append((s.da.myAddress, driver.CompleteCurrentTask()))
            if cct == "ahead": return None
        else:
            idx = rows[d + 1]
            if phase == "jpr": to_d.append((addr, driver.JoinPointReached(wid, w.client_allocations.tasks(idx))))
            else: D.workers_completed_current_step[wid] = (0.0, 0.0)
            if cct == "behind": to_w.append((s.da.myAddress, driver.CompleteCurrentTask()))
            if cct == "ahead": return None
        if complete: w.complete.set()
        w.current_task_index = idx; w.next_task_index = idx + 1
    D.currently_completed = len(D.workers_completed_current_step)
    return s

def kind_of(D, s, j):
    """completed-by kind of element j from the closing join point"""
    w = s.actors[D.workers[0].addressDetails]; jp = w.client_allocations.tasks(jp_rows(w)[j + 1])[0].task
    if jp.any_task_completes_parent: return "any", jp
    if jp.preceding_task_completes_parent: return "named", jp
    return None, jp

def inv(s):
    D = s.D; d = D.current_step; J = D.number_of_steps
    if D.currently_completed != len(D.workers_completed_current_step): return "count"
    if d == J: return None if all(s.actors[a.addressDetails].at_joinpoint() for a in D.workers) else "final"
    if not (-1 <= d < J): return "range"
    if len(D.workers_completed_current_step) >= len(D.workers): return "barrier not released"
    kind, jp = kind_of(D, s, d) if d >= 0 else (None, None)
    prev_kind = kind_of(D, s, d - 1)[0] if d >= 1 else None
    phases = {}
    for wid, addr in enumerate(D.workers):
        k = addr.addressDetails; w = s.actors[k]
        to_w = [type(m).__name__ for _, m in s.chan.get((s.da_id, k), [])]
        to_d = [type(m).__name__ for _, m in s.chan.get((k, s.da_id), [])]
        wake = sum(1 for a, _ in s.timers if a == k)
        if to_w.count("Drive") > 1 or to_d.count("JoinPointReached") > 1: return "dup"
        ncct = to_w.count("CompleteCurrentTask")
        ahead = "Drive" in to_w and "CompleteCurrentTask" in to_w[:to_w.index("Drive")]
        behind = ncct - (1 if ahead else 0)
        if ncct > 2 or behind > 1: return "too many CCT"
        if ahead and prev_kind is None: return "stale CCT without completed-by"
        if w.at_joinpoint():
            q = w.client_allocations.tasks(w.current_task_index)[0].task.id
            if w.executor_future is not None or w.cancel.is_set(): return "jp: executor/cancel"
            if "JoinPointReached" in to_d:
                ph = "jpr"; ok = q == d + 1 and wid not in D.workers_completed_current_step and not wake and not w.start_driving and "Drive" not in to_w and not w.complete.is_set()
            elif wid in D.workers_completed_current_step:
                ph = "wait"; ok = q == d + 1 and not wake and not w.start_driving and "Drive" not in to_w and not w.complete.is_set()
            elif w.start_driving:
                ph = "armed"; ok = q == d and wake == 1 and "Drive" not in to_w and d >= 0
            elif "Drive" in to_w:
                ph = "inflight"; ok = q == d and not wake and not w.complete.is_set() and d >= 0
            else: return f"idle at join point {q} (d={d})"
            if not ok: return f"{ph}: q={q} d={d} wake={wake}"
            if ahead and ph != "inflight": return "stale CCT after Drive consumed"
        else:
            ph = "run"
            er = rows_of_element(w, d) if d >= 0 else []
            if w.current_task_index not in er: return f"run: row not in element {d}"
            if wake != 1: return f"progress: {wake} wake-ups while running"
            if w.executor_future is None: return "run: no executor"
            if ahead or "Drive" in to_w: return "run: Drive/stale CCT in flight"
        if behind and not (D.complete_current_task_sent): return "CCT in flight but not sent"
        phases[wid] = (ph, w, behind)
    if d < 0: return None
    waiting = {wid for wid, (ph, _, _) in phases.items() if ph == "wait"}
    arrived = {wid for wid, (ph, _, _) in phases.items() if ph in ("wait", "jpr")}
    comp_workers = {D.clients_per_worker[c] for c in jp.clients_executing_completing_task} if kind == "named" else set()
    if kind is None and D.complete_current_task_sent: return "sent without completed-by"
    if D.complete_current_task_sent:
        if kind == "named" and not comp_workers <= waiting: return "sent before completing clients arrived"
        if kind == "any" and not waiting: return "sent before any arrival"
    else:
        if kind == "named" and comp_workers <= waiting and waiting: return "not sent although completing clients arrived"
        if kind == "any" and waiting: return "not sent although someone arrived"
    for wid, (ph, w, behind) in phases.items():
        if ph in ("inflight", "armed", "run"):
            # remaining rows of element d for this worker
            er = rows_of_element(w, d)
            rest = [i for i in er if ph != "run" or i >= w.current_task_index]
            tasks = [a.task.task for i in rest for a in w.client_allocations.tasks(i)]
            has_endless = any(endless(t) for t in tasks)
            if w.complete.is_set():
                own_done = ph == "run" and w.executor_future.run.finished and any(t.completes_parent or t.any_completes_parent for t in [a.task.task for a in w.client_allocations.tasks(w.current_task_index)])
                earlier_rows_completing = ph == "run" and any((a.task.task.completes_parent or a.task.task.any_completes_parent) for i in er if i < w.current_task_index for a in w.client_allocations.tasks(i))
                if kind is None: return "complete set in plain element"
                if not (D.complete_current_task_sent or own_done or earlier_rows_completing): return f"complete set without cause ({ph})"
            else:
                if ph == "run" and w.executor_future.run.finished and any(t.completes_parent or t.any_completes_parent for t in [a.task.task for a in w.client_allocations.tasks(w.current_task_index)]):
                    return "completing run finished but complete not set"
                if D.complete_current_task_sent and has_endless and not behind: return f"3: obligation lost ({ph})"
            if has_endless and kind is None: return "endless task outside completed-by element"
    return None

def check(name, sched):
    s0 = build(sched); W = len(s0.D.workers); J = s0.D.number_of_steps
    per_worker = list(itertools.product(["inflight", "armed", "run", "jpr", "wait"], [0, 1], [False, True], [False, True], [None, "ahead", "behind"]))
    n_abs = n_inv = n_steps = 0; bad = collections.Counter(); wit = {}; t0 = time.time()
    for d in range(0, J):
        for sent in (False, True):
            for ws in itertools.product(per_worker, repeat=W):
                n_abs += 1
                st = (d, sent, ws)
                s = materialise(sched, st)
                if s is None or inv(s) is not None: continue
                n_inv += 1
                nev = len([e for e in s.enabled()])
                for i in range(nev):
                    s = materialise(sched, st); evs = s.enabled()
                    # a running run may only finish if the contract allows it
                    ev = evs[i]
                    try: s.fire(ev)
                    except Exception as e:
                        bad["exception " + type(e).__name__] += 1; wit.setdefault("exception " + type(e).__name__, (st, ev)); continue
                    n_steps += 1
                    r = inv(s)
                    if r: bad[r] += 1; wit.setdefault(r, (st, ev))
    print(f"{name}: W={W} J={J} abstract {n_abs}, INV states {n_inv}, steps {n_steps}, violations {dict(bad)}, {time.time()-t0:.1f}s")
    for r, (st, ev) in list(wit.items())[:4]: print("   CTI:", r, "| pre", st, "| event", ev)

A = lambda: track.Task("A", op, iterations=1, completes_parent=True)
check("x(2); y(2)", [track.Task("x", op, iterations=1, clients=2), track.Task("y", op, iterations=1, clients=2)])
check("parallel[A*,B∞]; z(2)", [track.Parallel([A(), track.Task("B", op)]), track.Task("z", op, iterations=1, clients=2)])
if os.environ.get("MORE"):
    check("capped parallel[A*,B] clients=1; z", [track.Parallel([A(), track.Task("B", op, iterations=1)], clients=1), track.Task("z", op, iterations=1)])
    check("parallel any [C(any), D∞(any)]", [track.Parallel([track.Task("C", op, iterations=1, any_completes_parent=True), track.Task("D", op, any_completes_parent=True)])])
    check("capped parallel 3 tasks on 2 clients [A*, B∞, C]", [track.Parallel([A(), track.Task("B", op), track.Task("C", op, iterations=1)], clients=2)])
