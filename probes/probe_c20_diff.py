"""Probe for C20: real ComparisonReporter._line/_diff on symbolic reals (model R), numeric text replaced by a placeholder."""
import sys, z3, os, logging
sys.path.insert(0, __import__("os").environ.get("VERIF_REPO", "/repo")); sys.path.insert(0, os.path.dirname(__file__)); logging.disable(logging.CRITICAL)
import symx_prototype as symx
from symx_prototype import SReal, SBool, SInt
from esrally import reporter
from esrally.utils import console, convert
symx.SNum.__format__ = lambda s, spec: "<num>"
symx.SNum.__abs__ = lambda s: symx.num(z3.If(s.z >= 0, s.z, -s.z))
console.format = console.RichFormat
R = reporter.ComparisonReporter.__new__(reporter.ComparisonReporter)
GREEN, RED = console.format.green("x")[:-len(console.format.neutral("x")[-0:]) or None], None
def colour(s):
    if s.startswith("\x1b["):
        code = s[2:s.index("m")]
        return {"32;1": "green", "31;1": "red", "39;1": "neutral"}.get(code, code)
    return "plain"
print("colour codes:", repr(console.format.green("x")), repr(console.format.red("x")), repr(console.format.neutral("x")))

def mk(): return [SReal(z3.Real("b")), SReal(z3.Real("c")), SBool(z3.Bool("inc"))]
def prop(b, c, inc):
    inc = bool(inc)
    R.plain = False
    row = R._line("m", b, c, "t", "ms", treat_increase_as_improvement=inc)
    swp = R._line("m", c, b, "t", "ms", treat_increase_as_improvement=inc)
    slf = R._line("m", b, b, "t", "ms", treat_increase_as_improvement=inc)
    R.plain = True
    pl = R._line("m", b, c, "t", "ms", treat_increase_as_improvement=inc)
    d = c - b
    col, scol = colour(row[4]), colour(swp[4])
    th = 1e-5
    if d >= th: exp = "green" if inc else "red"
    elif d <= -th: exp = "red" if inc else "green"
    else: exp = "neutral"
    if col != exp: return False
    if ("+" in row[4]) != bool(d >= th): return False
    # prints as zero => neutral
    if abs(d) < 0.5e-5 and col != "neutral": return False
    # swap flips colour (or both neutral)
    flip = {"green": "red", "red": "green", "neutral": "neutral"}
    if scol != flip[col]: return False
    if colour(slf[4]) != "neutral" or colour(slf[6]) != "neutral": return False
    # plain == rich without colour codes
    import re
    strip = lambda x: re.sub(r"\x1b\[[0-9;]*m", "", x) if isinstance(x, str) else x
    if [strip(x) for x in row] != pl and not all((a is b_) or (strip(a) == b_) for a, b_ in zip(row, pl)): return False
    # percentage column agrees with Diff when baseline > 0
    if b > 0:
        pc = colour(row[6])
        if pc != "neutral" and col != "neutral" and pc != col: return False
    return True
r = symx.explore(prop, mk, timeout=120); print(r[0], r[2], "paths", round(r[3], 2), "s", r[1] if r[1] is not None else "")
print("native:", prop(2.0e-5, 3.0e-5, True), prop(1.0, 2.0, True), prop(2.0, 1.0, False), prop(0.0, 0.0, False))
R.plain = False
print(R._line("m", 2.0e-5, 3.0e-5, "t", "ms", treat_increase_as_improvement=True))
R.plain = True
print(R._line("m", 2.0e-5, 3.0e-5, "t", "ms", treat_increase_as_improvement=True))
