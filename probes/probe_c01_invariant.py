"""C01: check the candidate inductive invariant INV on every reachable state of small closed systems (real Driver/Worker),
explicit exploration with state hashing. Shows (a) INV is not too strong on fault-free schedules, (b) which clause the two
known defects break."""
import sys, os, time, threading, queue, collections
sys.path.insert(0, os.path.dirname(__file__))
import probe_c01_fake_actor_system as fs
import thespian.actors as ta
from esrally import track
from esrally.driver import driver
op = track.Operation("s", "search")

class Sys2(fs.System):
    def __init__(self):
        super().__init__(); global SYS; SYS = self
    def enabled(self):
        out = []
        for e in super().enabled():
            if e[0] == "timer":
                a = self.actors[self.timers[e[1]][0]]
                if isinstance(a, driver.DriverActor): continue
                if isinstance(a, driver.Worker):
                    fut = a.executor_future
                    if not a.start_driving and fut is not None and not fut.done(): continue   # stutter
            out.append(e)
        return out
fs.System = Sys2

SKIP = {"logger", "_myRef", "pool", "config", "track", "driver_actor", "progress_reporter", "metrics_store", "telemetry",
        "sample_post_processor", "es_client_factory", "challenge", "sys", "ex"}
def canon(o, depth=0, seen=None):
    seen = seen if seen is not None else set()
    if o is None or isinstance(o, (bool, int, str, bytes)): return o
    if isinstance(o, float): return "f"      # timestamps are irrelevant to control state
    if isinstance(o, threading.Event): return ("Ev", o.is_set())
    if isinstance(o, ta.ActorAddress): return ("A", o.addressDetails)
    if isinstance(o, (list, tuple, collections.deque)): return tuple(canon(x, depth + 1, seen) for x in o)
    if isinstance(o, dict): return tuple(sorted((repr(canon(k, depth + 1, seen)), canon(v, depth + 1, seen)) for k, v in o.items()))
    if isinstance(o, (driver.JoinPoint,)): return ("JP", o.id)
    if isinstance(o, (track.Task, track.Parallel, track.Operation, driver.TaskAllocation, driver.ClientAllocations, driver.Sampler)): return type(o).__name__ + str(getattr(o, "name", ""))
    if id(o) in seen or depth > 6: return "~"
    seen.add(id(o))
    if isinstance(o, fs.Fut): return ("Fut", SYS.runs.index(o.run))
    if hasattr(o, "__dict__"):
        return (type(o).__name__,) + tuple((k, canon(v, depth + 1, seen)) for k, v in sorted(vars(o).items()) if k not in SKIP)
    return type(o).__name__
def fingerprint(s):
    acts = tuple((k, canon(a)) for k, a in sorted(s.actors.items()))
    drv = [a.driver for a in s.actors.values() if isinstance(a, driver.DriverActor)][0]
    d = tuple((k, canon(v)) for k, v in sorted(vars(drv).items()) if k in ("currently_completed", "workers_completed_current_step", "current_step", "complete_current_task_sent", "number_of_steps"))
    ch = tuple((k, tuple(type(m).__name__ for _, m in q)) for k, q in sorted(s.chan.items()) if q)
    tm = tuple(sorted((a, str(m.payload)) for a, m in s.timers))
    rn = tuple((r.finished, r.error is not None) for r in s.runs)
    return hash((acts, d, ch, tm, rn))

def element_of(w, idx):
    # number of join-point rows strictly before idx, minus one
    n = 0
    for i in range(idx):
        if w.client_allocations.is_joinpoint(i) and w.client_allocations.tasks(i): n += 1
    return n - 1

def inv(s):
    da = [a for a in s.actors.values() if isinstance(a, driver.DriverActor)][0]; D = da.driver
    da_id = [k for k, a in s.actors.items() if a is da][0]
    d = D.current_step; J = D.number_of_steps
    if D.currently_completed != len(D.workers_completed_current_step): return "1: count"
    if not (-1 <= d <= J): return "1: range"
    for wid, addr in enumerate(D.workers):
        k = addr.addressDetails; w = s.actors[k]
        if w.client_allocations is None: continue   # boot: StartWorker still in flight
        to_w = [type(m).__name__ for _, m in s.chan.get((da_id, k), [])]
        to_d = [type(m).__name__ for _, m in s.chan.get((k, da_id), [])]
        wake = sum(1 for a, _ in s.timers if a == k)
        if to_w.count("Drive") > 1 or to_d.count("JoinPointReached") > 1: return "2: duplicates"
        if w.at_joinpoint():
            q = w.client_allocations.tasks(w.current_task_index)[0].task.id
            if w.executor_future is not None: return "phase: executor at join point"
            if "JoinPointReached" in to_d:
                ph = "jpr"
                if q != d + 1 or wid in D.workers_completed_current_step or wake or w.start_driving: return f"1: jpr q={q} d={d} wake={wake}"
            elif wid in D.workers_completed_current_step:
                ph = "wait"
                if q != d + 1 or wake or w.start_driving or "Drive" in to_w: return f"1: wait q={q} d={d}"
            elif w.start_driving:
                ph = "armed"
                if q != d or wake != 1: return f"1: armed q={q} d={d} wake={wake}"
            elif "Drive" in to_w:
                ph = "inflight"
                if q != d or wake: return f"1: inflight q={q} d={d}"
            else:
                if d == J and q == J: ph = "final"
                else: return f"phase: idle at join point q={q} d={d} (no Drive, no JPR, not counted)"
            if w.complete.is_set() or w.cancel.is_set(): return "phase: flags at join point"
        else:
            ph = "run"; j = element_of(w, w.current_task_index)
            if j != d: return f"1: run element {j} while d={d}"
            # progress clause
            if wake != 1: return f"progress: running worker with {wake} wake-ups (executor {w.executor_future is not None})"
            if w.executor_future is None: return "phase: run without executor"
        # completion obligation (clause 3) for workers that still have work in element d
        if ph in ("inflight", "armed", "run") and D.complete_current_task_sent:
            if not (w.complete.is_set() or "CompleteCurrentTask" in to_w):
                # allowed only if the worker has no endless work left: approximate by 'its current/next run can finish'
                fut = w.executor_future
                if fut is None or not (fut.run.finished or fut.run.can_finish()):
                    # look ahead: does the worker still have an endless task in element d?
                    rows = []
                    i = w.current_task_index + (0 if ph == "run" else 1)
                    while not w.client_allocations.is_joinpoint(i) or not w.client_allocations.tasks(i):
                        rows += [a.task.task for a in w.client_allocations.tasks(i)]; i += 1
                    if any(t.iterations is None and t.time_period is None and not t.completes_parent for t in rows) or (fut is not None and not fut.run.can_finish()):
                        return f"3: obligation lost ({ph})"
    return None

def explore(sched, tmax=120, max_depth=120):
    # iterative re-execution DFS with visited-state pruning
    visited = set(); bad = collections.Counter(); deadlocks = 0; states = 0; t0 = time.time(); witness = {}
    prefix = []
    while True:
        s = None; pos = 0
        # run one path following prefix, extending greedily with choice 0 until pruned
        def order(evs):
            nonlocal pos
            i = pos; pos += 1
            if i < len(prefix): return prefix[i][0]
            prefix.append([0, len(evs)]); return 0
        # custom run loop to observe states (copy of fs.run set-up)
        got = run_observed(sched, order, visited, bad, witness, max_depth, prefix)
        states = len(visited)
        if got == "deadlock": deadlocks += 1
        del prefix[pos:]
        while prefix and prefix[-1][0] + 1 >= prefix[-1][1]: prefix.pop()
        if not prefix: return states, dict(bad), deadlocks, round(time.time() - t0, 1), True, witness
        prefix[-1][0] += 1
        if time.time() - t0 > tmax: return states, dict(bad), deadlocks, round(time.time() - t0, 1), False, witness

def run_observed(sched, order, visited, bad, witness, max_depth, prefix):
    # reuse fs.run's construction by monkeypatching its loop: we re-implement the loop here
    import types
    res = {}
    def order_wrap(evs):
        s = SYS
        return order(evs)
    # we need access to the system after each event: wrap fire
    orig_fire = fs.System.fire
    trace_len = [0]
    class Stop(Exception): pass
    def fire(self, ev):
        orig_fire(self, ev); trace_len[0] += 1
        if trace_len[0] >= len(prefix):      # only states beyond the replayed prefix are new
            fp = fingerprint(self)
            if fp in visited: raise Stop()
            visited.add(fp)
            r = inv(self)
            if r:
                bad[r] += 1; witness.setdefault(r, list(p[0] for p in prefix))
    fs.System.fire = fire
    try:
        got, n = fs.run(sched, order=order_wrap, max_events=max_depth)
        if "BenchmarkComplete" not in got and n < max_depth - 1: return "deadlock"
        return "ok"
    except Stop:
        return "pruned"
    finally:
        fs.System.fire = orig_fire

A = lambda: track.Task("A", op, iterations=1, completes_parent=True)
for name, sched in [
    ("1 task x 2 clients", [track.Task("x", op, iterations=1, clients=2)]),
    ("3 tasks x 2 clients", [track.Task("x", op, iterations=1, clients=2), track.Task("y", op, iterations=1, clients=2), track.Task("z", op, iterations=1)]),
    ("parallel A* + B(endless), then z", [track.Parallel([A(), track.Task("B", op)]), track.Task("z", op, iterations=1, clients=2)]),
    ("parallel capped clients=1 [A*, B]", [track.Parallel([A(), track.Task("B", op, iterations=1)], clients=1)]),
]:
    r = explore(sched)
    print(name, "| states", r[0], "| INV violations", r[1], "| deadlock paths", r[2], "|", r[3], "s | exhausted", r[4])
