import sys, z3, time
sys.path.insert(0, __import__("os").environ.get("VERIF_REPO", "/repo")); sys.path.insert(0, __import__("os").path.dirname(__file__))
import symx_prototype as symx
from symx_prototype import SInt, SBool, SReal
from esrally import metrics
symx.shadow(metrics)
P = metrics.InMemoryMetricsStore.percentile_value
for n in range(1, 7):
    def mk():
        return [[SReal(z3.Real(f"v{i}")) for i in range(n)], SReal(z3.Real("p")), SReal(z3.Real("q"))]
    def pre(vals, p, q):
        for i in range(n - 1):
            if not vals[i] <= vals[i + 1]: return False
        return bool(p >= 0) and bool(p <= q) and bool(q <= 100)
    def prop(vals, p, q):
        r = P(vals, p); r2 = P(vals, q)
        return bool(vals[0] <= r) and bool(r <= vals[-1]) and bool(r <= r2)
    t0 = time.time()
    res = symx.explore(prop, mk, pre=pre, timeout=120)
    print(n, res[0], res[2], "paths", round(res[3], 2), "s", res[1] if res[1] is not None else "")
