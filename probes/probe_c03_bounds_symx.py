"""Probe for C03/A1: the REAL params.bounds executed on symbolic values with the float error model E
(every float op result r becomes r*(1+d), |d| <= 2^-53, one d per distinct (op, operands)); z3 decides the obligations."""
import sys, z3, os, logging, time
sys.path.insert(0, __import__("os").environ.get("VERIF_REPO", "/repo")); sys.path.insert(0, os.path.dirname(__file__)); logging.disable(logging.CRITICAL)
import symx_prototype as symx
from symx_prototype import SInt, SBool, SReal
from esrally.track import params
U = z3.Q(1, 2 ** 53)
DELTAS = {}
def delta(op, a, b):
    key = (op, a.sexpr(), b.sexpr())
    if key not in DELTAS:
        d = z3.Real(f"d{len(DELTAS)}"); DELTAS[key] = d; symx.assume_fresh(z3.And(d >= -U, d <= U))
    return DELTAS[key]
class SFloatE(SReal):
    """float under the relative-error model"""
    def _bin(s, o, op, f, rev=False):
        a, b = (symx.zv(o), s.z) if rev else (s.z, symx.zv(o))
        a, b = symx.R(a), symx.R(b)
        return SFloatE(f(a, b) * (1 + delta(op, a, b)))
    def __mul__(s, o): return s._bin(o, "*", lambda a, b: a * b)
    def __rmul__(s, o): return s._bin(o, "*", lambda a, b: a * b, rev=True)
    def __add__(s, o): return s._bin(o, "+", lambda a, b: a + b)
    def __sub__(s, o): return s._bin(o, "-", lambda a, b: a - b)
    def __round__(s, n=None):
        f = z3.ToInt(s.z); fr = s.z - z3.ToReal(f)
        return SInt(z3.If(fr < z3.Q(1, 2), f, z3.If(fr > z3.Q(1, 2), f + 1, z3.If(f % 2 == 0, f, f + 1))))
def int_truediv(s, o):
    a, b = symx.R(symx.zv(s)), symx.R(symx.zv(o))
    return SFloatE(a / b * (1 + delta("/", a, b)))
SInt.__truediv__ = int_truediv

def run(name, prop, extra_pre=lambda *a: True):
    def mk():
        DELTAS.clear()
        return [SInt(z3.Int("T")), SInt(z3.Int("n")), SInt(z3.Int("s")), SInt(z3.Int("e")), SBool(z3.Bool("meta"))]
    def pre(T, n, s, e, meta):
        return bool(T >= 0) and bool(T <= 10 ** 12) and bool(n >= 1) and bool(n <= 10 ** 6) and bool(s >= 0) and bool(s <= e) and bool(e < n) and extra_pre(T, n, s, e, meta)
    t0 = time.time(); r = symx.explore(prop, mk, pre=pre, timeout=120)
    print(f"{name}: {r[0]}, {r[2]} paths, {time.time()-t0:.2f}s", r[1] if r[1] is not None else "")

def first_starts_at_zero(T, n, s, e, meta):
    off, docs, lines = params.bounds(T, 0, e, n, bool(meta)); return bool(off == 0)
def last_ends_at_total(T, n, s, e, meta):
    k = 2 if bool(meta) else 1
    off, docs, lines = params.bounds(T, s, n - 1, n, bool(meta)); return bool(off + lines == T * k)
def nonneg_and_lines(T, n, s, e, meta):
    k = 2 if bool(meta) else 1
    off, docs, lines = params.bounds(T, s, e, n, bool(meta)); return bool(docs >= 0) and bool(lines == docs * k) and bool(off >= 0)
def adjacent(T, n, s, e, meta):
    k = 2 if bool(meta) else 1
    o1, d1, l1 = params.bounds(T, s, e, n, bool(meta))
    o2, d2, l2 = params.bounds(T, e + 1, n - 1, n, bool(meta))
    return bool(o1 + l1 == o2)
run("first range starts at line 0", first_starts_at_zero)
run("last range ends at the last line", last_ends_at_total)
run("docs >= 0, lines == docs*k", nonneg_and_lines)
run("end of [s,e] == start of [e+1,..]", adjacent, extra_pre=lambda T, n, s, e, m: bool(e + 1 < n))

# detection power: two mutants of bounds() (source-level edits of the real function)
import inspect, textwrap
src = inspect.getsource(params.bounds)
for label, old, new in [("end without +1", "(end_client_index + 1)", "(end_client_index)"),
                        ("start truncated instead of rounded", "start_offset_docs = round(", "start_offset_docs = int(")]:
    ns = dict(vars(params)); ns["int"] = symx.sx_int
    exec(src.replace(old, new), ns)
    real = params.bounds; params.bounds = ns["bounds"]
    print("mutant:", label)
    run("  last range ends at the last line", last_ends_at_total)
    run("  end of [s,e] == start of [e+1,..]", adjacent, extra_pre=lambda T, n, s, e, m: bool(e + 1 < n))
    params.bounds = real
