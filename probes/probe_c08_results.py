"""Plumbing probe for C08: real GlobalStatsCalculator on a real InMemoryMetricsStore, JSON round trip through Race/GlobalStats."""
import sys, os, json, datetime, logging, itertools, random, statistics
sys.path.insert(0, __import__("os").environ.get("VERIF_REPO", "/repo")); logging.disable(logging.CRITICAL)
from esrally import metrics, track
class MCfg:
    def opts(self, s, k, default_value=None, mandatory=True):
        return {("system", "env.name"): "env", ("track", "params"): {}, ("race", "user.tags"): {}}.get((s, k), default_value)
def store():
    st = metrics.InMemoryMetricsStore(MCfg()); st.open(race_id="r", race_timestamp=datetime.datetime(2026, 1, 1), track_name="t", challenge_name="c", car_name="car"); return st
op = track.Operation("search-op", "search")
t1, t2 = track.Task("q1", op), track.Task("q2", op)
ch = track.Challenge("c", schedule=[t1, track.Parallel([t2])])
trk = track.Track("t", challenges=[ch])
rnd = random.Random(int(os.environ.get("VERIF_SEED", "1")))
bad = 0; n = 0
for trial in range(200):
    st = store(); truth = {"q1": {"lat": [], "succ": []}, "q2": {"lat": [], "succ": []}}
    for task in ("q1", "q2"):
        for i in range(rnd.choice([0, 1, 2, 9, 10, 11, 101])):
            stype = rnd.choice([metrics.SampleType.Warmup, metrics.SampleType.Normal])
            v = rnd.choice([0.0, 1.5, 2.0, 7.25, 100.0]); ok = rnd.random() < 0.7
            for name in ("latency", "service_time", "processing_time"):
                st.put_value_cluster_level(name, v, "ms", task=task, operation="search-op", operation_type="search", sample_type=stype, absolute_time=1.0, relative_time=float(i), meta_data={"success": ok})
            if stype == metrics.SampleType.Normal: truth[task]["lat"].append(v); truth[task]["succ"].append(ok)
        for i in range(rnd.choice([0, 1, 3])):
            st.put_value_cluster_level("throughput", rnd.choice([0.0, 5.0, 9.0]), "ops/s", task=task, operation="search-op", operation_type="search", sample_type=metrics.SampleType.Normal, absolute_time=1.0, relative_time=float(i))
    res = metrics.GlobalStatsCalculator(st, trk, ch)()
    back = metrics.GlobalStats(json.loads(json.dumps(res.as_dict())))
    n += 1
    for task in ("q1", "q2"):
        m = res.metrics(task); lat = sorted(truth[task]["lat"])
        if json.loads(json.dumps(m)) != back.metrics(task): bad += 1; print("ROUNDTRIP", task)
        if lat:
            exp_keys = {metrics.encode_float_key(p) for p in metrics.percentiles_for_sample_size(len(lat))} | {"mean", "unit"}
            if set(m["latency"]) != exp_keys: bad += 1; print("PERCENTILE SET", len(lat), set(m["latency"]))
            if m["latency"]["100_0"] != lat[-1] or abs(m["latency"]["mean"] - statistics.mean(lat)) > 1e-9: bad += 1; print("MAX/MEAN", task)
            if len(lat) > 1 and abs(m["latency"]["50_0"] - statistics.median(lat)) > 1e-9: bad += 1; print("MEDIAN", task, m["latency"]["50_0"], statistics.median(lat))
            er = truth[task]["succ"].count(False) / len(lat)
            if abs(m["error_rate"] - er) > 1e-12: bad += 1; print("ERROR RATE", task, m["error_rate"], er)
        else:
            if m["latency"] != {} or m["error_rate"] != 0.0: bad += 1; print("EMPTY", task, m)
    if json.loads(json.dumps(res.as_flat_list())) != back.as_flat_list(): bad += 1; print("FLAT LIST")
print("trials", n, "bad", bad)
# zero-throughput candidate
st = store()
for i in range(3):
    st.put_value_cluster_level("throughput", 0.0, "ops/s", task="q1", operation="search-op", operation_type="search", sample_type=metrics.SampleType.Normal, absolute_time=1.0, relative_time=float(i))
print("all-zero throughput summary:", metrics.GlobalStatsCalculator(st, trk, ch)().metrics("q1")["throughput"])
st = store()
for i, v in enumerate([0.0, 0.0, 5.0]):
    st.put_value_cluster_level("throughput", v, "ops/s", task="q1", operation="search-op", operation_type="search", sample_type=metrics.SampleType.Normal, absolute_time=1.0, relative_time=float(i))
print("throughput [0,0,5] summary:", metrics.GlobalStatsCalculator(st, trk, ch)().metrics("q1")["throughput"])
