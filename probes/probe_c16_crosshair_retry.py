import asyncio, socket
from typing import List
import elasticsearch, elastic_transport
from esrally.driver import runner

class _Meta:
    status = 408
    def __init__(self, s): self.status = s; self.headers = {}; self.http_version="1.1"; self.duration=0; self.node=None

def _mk(kind: int):
    if kind == 2: return elasticsearch.exceptions.ConnectionTimeout("t")
    if kind == 3: return elasticsearch.exceptions.ConnectionError("c")
    if kind == 4: return socket.timeout()
    if kind == 5: return elasticsearch.ApiError("x", _Meta(408), None)
    if kind == 6: return elasticsearch.ApiError("x", _Meta(500), None)
    if kind == 7: return elastic_transport.SerializationError("s")
    return None

class Delegate:
    def __init__(self, outcomes):
        self.outcomes = outcomes; self.calls = 0
    async def __call__(self, es, params):
        k = self.outcomes[self.calls]; self.calls += 1
        if k == 0: return {"success": True, "n": self.calls}
        if k == 1: return {"success": False, "n": self.calls}
        if k == 8: return (1, "ops")
        raise _mk(k)
    async def __aenter__(self): return self
    async def __aexit__(self, *a): return False

def run(outcomes: List[int], retries: int, on_timeout: bool, on_error: bool) -> bool:
    """
    pre: len(outcomes) == 4
    pre: all(0 <= o <= 8 and o != 7 for o in outcomes)
    pre: 0 <= retries <= 3
    post: _
    """
    sleeps = []
    async def fake_sleep(t): sleeps.append(t)
    orig = asyncio.sleep
    asyncio.sleep = fake_sleep
    try:
        d = Delegate(outcomes)
        r = runner.Retry(d)
        params = {"retries": retries, "retry-on-timeout": on_timeout, "retry-on-error": on_error, "retry-wait-period": 7}
        coro = r(None, params)
        res = exc = None
        try:
            coro.send(None)
            return False  # suspended: unexpected
        except StopIteration as s:
            res = s.value
        except Exception as e:
            exc = e
        # at most retries+1 attempts
        if d.calls > retries + 1: return False
        # sleeps between attempts
        if len(sleeps) != d.calls - 1: return False
        return True
    finally:
        asyncio.sleep = orig
