import sys, z3, os
sys.path.insert(0, __import__("os").environ.get("VERIF_REPO", "/repo")); sys.path.insert(0, os.path.dirname(__file__))
import logging; logging.disable(logging.CRITICAL)
import symx_prototype as symx
from symx_prototype import SInt
import elasticsearch, elasticsearch.helpers, elastic_transport
from esrally import metrics, exceptions

class Meta:
    def __init__(s, st): s.status = st; s.headers = {}; s.http_version = "1.1"; s.duration = 0; s.node = None
class Node: host = "h"; port = 9200
class Client:
    class transport:
        class node_pool:
            @staticmethod
            def get(): return Node()
metrics.config.ConfigFile = lambda: type("C", (), {"location": "x"})()

L = int(sys.argv[1]) if len(sys.argv) > 1 else 3
def mk(): return [[SInt(z3.Int(f"o{i}")) for i in range(L)], [SInt(z3.Int(f"st{i}")) for i in range(L)]]
def pre(outs, sts):
    for o in outs:
        if not (0 <= o and o <= 8): return False
    for s in sts:
        if not (s == 429 or s == 502 or s == 400 or s == 404): return False
    return True
def prop(outs, sts):
    sleeps = []; calls = [0]
    metrics.time = type("T", (), {"sleep": staticmethod(lambda t: sleeps.append(t))})
    def target(**kw):
        i = calls[0]; calls[0] += 1
        if i >= L: return "ok"
        o = outs[i]; st = sts[i]
        if o == 0: return "ok"
        if o == 1: raise elasticsearch.exceptions.ConnectionTimeout("t")
        if o == 2: raise elasticsearch.exceptions.ConnectionError("c")
        if o == 3: raise elasticsearch.ApiError("e", Meta(int(st)), None)
        if o == 4: raise elasticsearch.exceptions.AuthenticationException("e", Meta(401), None)
        if o == 5: raise elasticsearch.exceptions.AuthorizationException("e", Meta(403), None)
        if o == 6: raise elasticsearch.helpers.BulkIndexError("b", [{"index": {"status": int(st), "error": {"type": "x"}}}])
        if o == 7: raise elastic_transport.SerializationError("s")
        raise elastic_transport.TransportError("t")
    target.__name__ = "target"
    c = metrics.EsClient(Client())
    res = exc = None
    try: res = c.guarded(target)
    except Exception as e: exc = e
    # oracle
    def retryable(o, st): return o in (1, 2) or (o in (3, 6) and st in (429, 502))
    n = 0
    for i in range(L):
        n = i + 1
        o, st = int(outs[i]), int(sts[i])
        if o == 0: return res == "ok" and exc is None and calls[0] == n and len(sleeps) == n - 1
        if not retryable(o, st):
            return calls[0] == n and isinstance(exc, exceptions.RallyError) and len(sleeps) == n - 1
    # all L retryable, then success
    return res == "ok" and calls[0] == L + 1 and len(sleeps) == L and all(sleeps[i] < sleeps[i + 1] for i in range(L - 1))
r = symx.explore(prop, mk, pre=pre, timeout=300)
print(L, r[0], r[2], "paths", round(r[3], 2), "s", r[1] if r[1] is not None else "")
