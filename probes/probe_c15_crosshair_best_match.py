from typing import List, Tuple, Optional
from esrally.utils import versions

def name(b: Tuple[int, int, int, int]) -> str:
    kind, M, m, p = b
    if kind == 0: return "master"
    if kind == 1: return f"{M}"
    if kind == 2: return f"{M}.{m}"
    return f"{M}.{m}.{p}"

def bm(branches: List[Tuple[int, int, int, int]], M: int, m: int, p: int) -> bool:
    """
    pre: len(branches) <= 3
    pre: all(0 <= k <= 3 and 6 <= a <= 8 and 0 <= b <= 3 and 0 <= c <= 1 for (k, a, b, c) in branches)
    pre: 6 <= M <= 8 and 0 <= m <= 3 and 0 <= p <= 1
    post: _
    """
    names = [name(b) for b in branches]
    got = versions.best_match(names, f"{M}.{m}.{p}")
    # oracle: documented precedence
    exp = None
    if f"{M}.{m}.{p}" in names: exp = f"{M}.{m}.{p}"
    elif f"{M}.{m}" in names: exp = f"{M}.{m}"
    else:
        prior = [b for (k, a, b, c) in branches if k == 2 and a == M and b <= m]
        if prior: exp = f"{M}.{max(prior)}"
        elif f"{M}" in names: exp = f"{M}"
        else:
            majors = [a for (k, a, b, c) in branches if k != 0]
            if all(M > a for a in majors): exp = "master"
    return got == exp
