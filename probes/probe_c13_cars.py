"""Plumbing probe for C13: real team.load_car over an in-memory team (brute force over presence flags; no solver yet)."""
import sys, itertools, logging, os
sys.path.insert(0, __import__("os").environ.get("VERIF_REPO", "/repo")); logging.disable(logging.CRITICAL)
from esrally.mechanic import team
TEAM = {}
class FakeCfg(dict):
    def sections(self): return list(self.keys())
team.CarLoader._config_loader = lambda self, f: FakeCfg(TEAM[f])
team.io.exists = lambda f: f in TEAM
team.BootstrapHookHandler = lambda comp: type("H", (), {"can_load": lambda s: False})()
team._path_for = lambda root, kind: os.path.join(root, kind)
n = bad = 0
for flags in itertools.product([False, True], repeat=6):   # base1, car1, base2, car2 define x ; param given ; car2 is a mixin w/o base
    b1, c1, b2, c2, par, mixin = flags
    TEAM.clear()
    def car(name, base, defines, val):
        d = {"meta": {}, "config": {"base": base} if base else {}, "variables": ({"x": val} if defines else {})}
        TEAM[f"/t/cars/{name}.ini"] = d
    car("c1", "B1", c1, "car1"); car("c2", "" if mixin else "B2", c2, "car2")
    TEAM["/t/cars/B1/config.ini"] = {"variables": {"x": "base1"} if b1 else {}}
    TEAM["/t/cars/B2/config.ini"] = {"variables": {"x": "base2"} if b2 else {}}
    got = team.load_car("/t", ["c1", "c2"], {"x": "param"} if par else None).variables.get("x")
    exp = "param" if par else "car2" if c2 else "car1" if c1 else ("base2" if (b2 and not mixin) else "base1" if b1 else None)
    n += 1
    if got != exp: bad += 1; print(flags, got, exp)
print("cases", n, "bad", bad, "config_paths:", team.load_car("/t", ["c1", "c2", "c1"], None).config_paths)
