"""Probe for C15/V1: real latest_bounded_minor / _latest_major on structured branch names, unbounded symbolic integers."""
import sys, z3, os, logging
sys.path.insert(0, __import__("os").environ.get("VERIF_REPO", "/repo")); sys.path.insert(0, os.path.dirname(__file__)); logging.disable(logging.CRITICAL)
import symx_prototype as symx
from symx_prototype import SInt, SBool
from esrally.utils import versions

symx.SNum.__abs__ = lambda s: symx.num(z3.If(s.z >= 0, s.z, -s.z))
class Name:
    """a branch name: kind 0 = not a version ('master', 'foo'), 1 = M, 2 = M.m, 3 = M.m.p, 4 = M.m.p-s"""
    def __init__(self, kind, M, m, p): self.kind, self.M, self.m, self.p = kind, M, m, p
versions.is_version_identifier = lambda a, strict=True: a.kind != 0 and (not strict or a.kind >= 3)
def components(a, strict=True):
    return (a.M, a.m if a.kind >= 2 else None, a.p if a.kind >= 3 else None, "sfx" if a.kind == 4 else None)
versions.components = components
class Target: pass

NB = int(sys.argv[1]) if len(sys.argv) > 1 else 3
def mk():
    out = []
    for i in range(NB):
        out += [SInt(z3.Int(f"k{i}")), SInt(z3.Int(f"M{i}")), SInt(z3.Int(f"m{i}")), SInt(z3.Int(f"p{i}"))]
    return out + [SInt(z3.Int("TM")), SInt(z3.Int("Tm"))]
def pre(*a):
    for i in range(NB):
        k, M, m, p = a[4 * i:4 * i + 4]
        if not (0 <= k and k <= 4 and M >= 0 and m >= 0 and p >= 0): return False
    return bool(a[-2] >= 0) and bool(a[-1] >= 0)
def prop(*a):
    names = [Name(int.__index__(a[4 * i].__index__()), a[4 * i + 1], a[4 * i + 2], a[4 * i + 3]) for i in range(NB)]
    t = Target(); t.major, t.minor = a[-2], a[-1]
    got = versions.latest_bounded_minor(names, t)
    # oracle: greatest minor among M.m names of the same major with m <= target minor
    best = None
    for n in names:
        if n.kind == 2 and n.M == t.major and n.m <= t.minor:
            if best is None or n.m > best: best = n.m
    ok1 = (got is None and best is None) or (got is not None and best is not None and bool(got == best))
    lm = versions._latest_major(names)
    mx = -1
    for n in names:
        if n.kind != 0 and n.M > mx: mx = n.M
    return ok1 and bool(lm == mx)
r = symx.explore(prop, mk, pre=pre, timeout=200)
print("V1 NB=%d:" % NB, r[0], r[2], "paths", round(r[3], 1), "s", r[1] if r[1] is not None else "")
