"""Plumbing probe for C12: real MechanicActor / Dispatcher / NodeMechanicActor on a fake actor runtime."""
import sys, collections, logging
sys.path.insert(0, __import__("os").environ.get("VERIF_REPO", "/repo")); logging.disable(logging.CRITICAL)
import thespian.actors as ta
from esrally import actor, log, metrics, config
from esrally.mechanic import mechanic
log.post_configure_actor_logging = lambda: None
mechanic.net.resolve = lambda h: h
mechanic.load_team = lambda cfg, external: (None, [])
mechanic.console.info = lambda *a, **k: None
mechanic.config.auto_load_local_config = lambda cfg, additional_sections=None: cfg
mechanic.paths.rally_root = lambda: "/r"
CALLS = []
class FakeMech:
    def __init__(self, ip, fail): self.ip = ip; self.fail = fail
    def start_engine(self):
        CALLS.append(("start", self.ip))
        if self.fail: raise RuntimeError("boom")
    def stop_engine(self): CALLS.append(("stop", self.ip))
    def flush_metrics(self): pass
    def reset_relative_time(self): pass
FAIL = set()
mechanic.create = lambda cfg, ms, ip, port, *a, **k: FakeMech(ip, ip in FAIL)
class MS:
    def __init__(self, cfg): pass
    def open(self, ctx=None): pass
mechanic.metrics.metrics_store_class = lambda cfg: MS

class Hosts:
    def __init__(self, h): self.default = h
class Cfg:
    def __init__(self, hosts): self.hosts = hosts
    def opts(self, s, k, mandatory=True, default_value=None):
        if (s, k) == ("client", "hosts"): return Hosts(self.hosts)
        return default_value
    def add(self, *a): pass

class Ref:
    def __init__(self, sys_, addr): self.sys = sys_; self.address = addr
    def actor_send(self, target, msg): self.sys.chan[(self.address.addressDetails, target.addressDetails)].append((self.address, msg))
    def wakeupAfter(self, period, payload): pass
    def createActor(self, cls, req, gn, sh): return self.sys.create(cls)
    def notifyOnSystemRegistrationChanges(self, addr, on): self.sys.registered = addr if on else None
class RC(ta.ActorTypeDispatcher):
    def __init__(self): self.got = []
    def receiveMessage(self, m, s): self.got.append(type(m).__name__ + (":" + str(getattr(m, "message", ""))[:60] if isinstance(m, actor.BenchmarkFailure) else ""))
class System:
    def __init__(self): self.n = 0; self.actors = {}; self.addr = {}; self.chan = collections.defaultdict(collections.deque); self.registered = None; self.errors = []
    def create(self, cls):
        self.n += 1; addr = ta.ActorAddress(self.n); a = cls(); a._myRef = Ref(self, addr)
        self.actors[self.n] = a; self.addr[self.n] = addr; return addr
    def run(self):
        progress = True
        while progress:
            progress = False
            for k in list(self.chan):
                while self.chan[k]:
                    src, m = self.chan[k].popleft(); progress = True
                    if k[1] not in self.actors: self.errors.append('to-system: ' + type(m).__name__); continue
                    try: self.actors[k[1]].receiveMessage(m, src)
                    except Exception as e:
                        # thespian: retry once, then poison message to sender
                        try: self.actors[k[1]].receiveMessage(m, src)
                        except Exception as e2:
                            self.errors.append(f"{type(self.actors[k[1]]).__name__}: {type(e2).__name__}: {e2}")
                            self.chan[(k[1], k[0])].append((self.addr[k[1]], ta.PoisonMessage(m, str(e2))))

def scenario(hosts, remote_events, fail=()):
    global FAIL; FAIL = set(fail); CALLS.clear()
    s = System(); rc = s.create(RC); m = s.create(mechanic.MechanicActor)
    s.chan[(rc.addressDetails, m.addressDetails)].append((rc, mechanic.StartEngine(Cfg(hosts), None, False, True, False, False)))
    s.run()
    for ip, added in remote_events:
        if s.registered is not None:
            d = s.registered.addressDetails
            s.chan[(0, d)].append((ta.ActorAddress(0), ta.ActorSystemConventionUpdate(ta.ActorAddress(900), {"ip": ip}, added)))
            s.run()
    started = list(s.actors[rc.addressDetails].got)
    s.chan[(rc.addressDetails, m.addressDetails)].append((rc, mechanic.StopEngine())); s.run()
    return started, s.actors[rc.addressDetails].got[len(started):], list(CALLS), s.errors

print("local only      :", scenario([{"host": "127.0.0.1", "port": 9200}], []))
print("local+remote ok :", scenario([{"host": "127.0.0.1", "port": 9200}, {"host": "10.0.0.2", "port": 9200}], [("10.0.0.2", True)]))
print("remote leaves   :", scenario([{"host": "127.0.0.1", "port": 9200}, {"host": "10.0.0.2", "port": 9200}], [("10.0.0.2", False)]))
print("start failure   :", scenario([{"host": "127.0.0.1", "port": 9200}, {"host": "10.0.0.2", "port": 9200}], [("10.0.0.2", True)], fail=["10.0.0.2"]))
