"""Probe for C05: real ScheduleHandle.__call__ with real IterationBased / TimePeriodBased under a symbolic clock."""
import sys, z3, os, logging
sys.path.insert(0, __import__("os").environ.get("VERIF_REPO", "/repo")); sys.path.insert(0, os.path.dirname(__file__)); logging.disable(logging.CRITICAL)
import symx_prototype as symx
from symx_prototype import SInt, SBool, SReal
from esrally.driver import driver, scheduler
from esrally import track, metrics
symx.shadow(driver)
W, N = metrics.SampleType.Warmup, metrics.SampleType.Normal

class Clock:
    def __init__(self): self.now = SInt(z3.IntVal(0)); self.n = 0
    def perf_counter(self):
        self.n += 1; d = SInt(z3.Int(f"dt{self.n}")); symx.assume_fresh(d.z >= 0); self.now = self.now + d; return self.now
class P:
    infinite = True
    def params(self): return {}
class TA:
    def __init__(self, task): self.task = task; self.global_client_index = 0; self.total_clients = 1; self.client_index_in_task = 0

def drain(agen, limit):
    out = []
    it = agen.__aiter__()
    for _ in range(limit + 1):
        co = it.__anext__()
        try: co.send(None); raise RuntimeError("suspended")
        except StopIteration as s: out.append(s.value)
        except StopAsyncIteration: return out
    return None  # did not terminate within limit

# iteration based: warmup w, iterations n (small, symbolic)
def mk_it(): return [SInt(z3.Int("w")), SInt(z3.Int("n"))]
def pre_it(w, n): return bool(w >= 0) and bool(w <= 3) and bool(n >= 1) and bool(n <= 3)
def prop_it(w, n):
    task = track.Task("t", track.Operation("o", "search"), warmup_iterations=w, iterations=n)
    lc = driver.IterationBased(w, n)
    h = driver.ScheduleHandle(TA(task), scheduler.Unthrottled(), lc, object(), P())
    h.start()
    out = drain(h(), 7)
    if out is None: return False
    if not len(out) == w + n: return False
    prog = 0
    for i, (sched, st, pc, r, p) in enumerate(out):
        if bool(i < w) != (st == W): return False
        if not (pc >= prog and pc <= 1): return False
        prog = pc
    return bool(out[-1][2] == 1)
r = symx.explore(prop_it, mk_it, pre=pre_it, timeout=60); print("iteration-based:", r[0], r[2], "paths", round(r[3], 2), "s", r[1] or "")

# time based: warmup wt >= 0, period tp >= 1 (unbounded), clock arbitrary; bound: at most 4 clock reads after start
def mk_t(): return [SInt(z3.Int("wt")), SInt(z3.Int("tp"))]
def pre_t(wt, tp): return bool(wt >= 0) and bool(tp >= 1)
def prop_t(wt, tp):
    clk = Clock(); driver.time = clk
    lc = driver.TimePeriodBased(wt, tp)
    task = track.Task("t", track.Operation("o", "search"), warmup_time_period=wt, time_period=tp)
    h = driver.ScheduleHandle(TA(task), scheduler.Unthrottled(), lc, object(), P())
    h.start(); start = lc._start
    out = drain(h(), 4)
    if out is None: return True   # still running after 4 requests: outside the bound
    # terminated: last clock read is at/after the deadline, all earlier reads (at which tuples were produced) before it
    if not clk.now >= start + wt + tp: return False
    seen_normal = False; prog = -1
    for (sched, st, pc, r, p) in out:
        if st == N: seen_normal = True
        elif seen_normal: return False
        if not (pc >= prog and pc >= 0 and pc < 1): return False
        prog = pc
    return True
r = symx.explore(prop_t, mk_t, pre=pre_t, timeout=120); print("time-based:", r[0], r[2], "paths", round(r[3], 2), "s", r[1] or "")
