"""Plumbing probe for C07: samples through the real Sampler -> Worker.send_samples -> Driver.update_samples/post_process_samples ->
SamplePostprocessor -> InMemoryMetricsStore -> to_externalizable(clear) -> bulk_add, on the fake actor runtime (all schedules, state hashing off)."""
import sys, os, collections, itertools, time, datetime, logging
sys.path.insert(0, os.path.dirname(__file__)); logging.disable(logging.CRITICAL)
import probe_c01_fake_actor_system as fs
import probe_c01_inductive as ind
import thespian.actors as ta
from esrally import track, metrics
from esrally.driver import driver
op = track.Operation("s", "search")

class MCfg:
    def opts(self, s, k, default_value=None, mandatory=True):
        return {("system", "env.name"): "env", ("track", "params"): {}, ("race", "user.tags"): {}}.get((s, k), default_value)
def store():
    st = metrics.InMemoryMetricsStore(MCfg()); st.open(race_id="r", race_timestamp=datetime.datetime(2026, 1, 1), track_name="t", challenge_name="c", car_name="car"); return st

IDS = itertools.count(1)
class SysS(fs.System):
    """runs emit one sample per client when they finish, plus optionally one 'early' sample (separate event)"""
    def enabled(self):
        ev = []
        for e in super().enabled():
            if e[0] == "timer":
                a = self.actors[self.timers[e[1]][0]]
                if isinstance(a, driver.Worker):
                    fut = a.executor_future
                    pending = a.sampler is not None and a.sampler.q.qsize() > 0
                    if not a.start_driving and fut is not None and not fut.done() and not pending: continue
            ev.append(e)
        ev += [("emit", i) for i, r in enumerate(self.runs) if not r.finished and not getattr(r, "early", False)]
        # driver post-processing tick (stands for the 30 s timer)
        if self.D.raw_samples: ev.append(("tick", 0))
        return ev
    def emit(self, r):
        w = r.worker
        for ca in r.ex.task_allocations:
            i = next(IDS); self.emitted.append((i, ca.task.task.name, ca.client_id))
            w.sampler.add(ca.task.task, ca.client_id, metrics.SampleType.Normal, {"success": True}, 0.0, 0.0, float(i), float(i), float(i), None, 1, "ops", 1.0, 0.5)
    def fire(self, ev):
        if ev[0] == "emit": r = self.runs[ev[1]]; r.early = True; self.emit(r)
        elif ev[0] == "tick": self.D.post_process_samples()
        elif ev[0] == "fin": self.emit(self.runs[ev[1]]); super().fire(ev)
        else: super().fire(ev)

class RC(ta.ActorTypeDispatcher):
    def __init__(self): self.store = store(); self.got = []
    def receiveMessage(self, m, s):
        self.got.append(type(m).__name__)
        if hasattr(m, "metrics"): self.store.bulk_add(m.metrics)

def run(sched, order, max_events=120):
    s = SysS(); s.emitted = []
    rc = s.create(RC); da_addr = s.create(driver.DriverActor); da = s.actors[da_addr.addressDetails]
    d = driver.Driver(da, fs.Cfg()); da.driver = d; da.benchmark_actor = rc; s.D = d
    class Tel:
        def on_benchmark_start(self): pass
        def on_benchmark_stop(self): pass
    d.metrics_store = store(); d.telemetry = Tel(); d.quiet = True
    d.sample_post_processor = driver.SamplePostprocessor(d.metrics_store, 1, {}, {})
    d.track = track.Track("t"); d.challenge = track.Challenge("c", schedule=sched); d.load_driver_hosts = [{"host": "localhost", "cores": 2}]
    class CO: all_client_options = {"default": {}}
    d.config.opts = lambda sec, key, mandatory=True, default_value=None: CO() if (sec, key) == ("client", "options") else fs.Cfg.opts(d.config, sec, key, mandatory, default_value)
    # remember which worker owns a run
    orig_submit = fs.Pool.submit
    def submit(self, ex):
        f = orig_submit(self, ex); f.run.worker = [a for a in s.actors.values() if isinstance(a, driver.Worker) and a.pool is self][0]; return f
    fs.Pool.submit = submit
    try:
        s.chan[(rc.addressDetails, da_addr.addressDetails)].append((rc, driver.StartBenchmark()))
        for i in range(max_events):
            evs = [e for e in s.enabled() if not (e[0] == "timer" and s.timers[e[1]][0] == da_addr.addressDetails)]
            if not evs: break
            s.fire(evs[order(evs)])
    finally: fs.Pool.submit = orig_submit
    rcv = s.actors[rc.addressDetails]
    return s, rcv

def verdict(s, rcv):
    if rcv.got.count("BenchmarkComplete") != 1: return "no completion"
    docs = rcv.store.docs
    for (i, task, client) in s.emitted:
        for name in ("latency", "service_time", "processing_time"):
            n = sum(1 for d in docs if d["name"] == name and d["value"] == i * 1000.0 and d["task"] == task and d["meta"]["client_id"] == client)
            if n != 1: return f"sample {i}: {n} {name} records"
    n_req = sum(1 for d in docs if d["name"] in ("latency", "service_time", "processing_time"))
    if n_req != 3 * len(s.emitted): return f"{n_req} request records for {len(s.emitted)} samples"
    return None

def explore(sched, tmax=60):
    prefix = []; paths = 0; bad = collections.Counter(); t0 = time.time()
    while True:
        pos = [0]
        def order(evs):
            i = pos[0]; pos[0] += 1
            if i < len(prefix): return prefix[i][0]
            prefix.append([0, len(evs)]); return 0
        s, rcv = run(sched, order); paths += 1
        v = verdict(s, rcv)
        if v: bad[v] += 1
        del prefix[pos[0]:]
        while prefix and prefix[-1][0] + 1 >= prefix[-1][1]: prefix.pop()
        if not prefix: return paths, dict(bad), round(time.time() - t0, 1), True
        prefix[-1][0] += 1
        if time.time() - t0 > tmax: return paths, dict(bad), round(time.time() - t0, 1), False
print("1 task x 1 client:", explore([track.Task("x", op, iterations=1)]))
print("2 tasks x 1 client:", explore([track.Task("x", op, iterations=1), track.Task("y", op, iterations=1)]))
print("1 task x 2 clients (time-capped):", explore([track.Task("x", op, iterations=1, clients=2)], tmax=60))
