"""Plumbing probe for C20: real ComparisonReporter._metrics_table on GlobalStats pairs (concrete values), direction / swap / self / plain-vs-rich."""
import sys, re, itertools, logging, random, os
sys.path.insert(0, __import__("os").environ.get("VERIF_REPO", "/repo")); logging.disable(logging.CRITICAL)
from esrally import reporter, metrics
from esrally.utils import console
console.format = console.RichFormat
rnd = random.Random(int(os.environ.get("VERIF_SEED", "3")))
def stats(vals):
    g = metrics.GlobalStats()
    v = iter(vals)
    pct = lambda: {"50_0": next(v), "100_0": next(v), "mean": next(v), "unit": "ms"}
    for t in ("q1", "q2"):
        g.add_op_metrics(t, "op", {"min": next(v), "mean": next(v), "median": next(v), "max": next(v), "unit": "ops/s"}, pct(), pct(), pct(), next(v), next(v), None)
    for attr in ["total_time", "indexing_throttle_time", "merge_time", "merge_count", "refresh_time", "refresh_count", "flush_time", "flush_count", "merge_throttle_time",
                 "young_gc_time", "young_gc_count", "old_gc_time", "old_gc_count", "zgc_cycles_gc_time", "zgc_cycles_gc_count", "zgc_pauses_gc_time", "zgc_pauses_gc_count",
                 "memory_segments", "memory_doc_values", "memory_terms", "memory_norms", "memory_points", "memory_stored_fields", "dataset_size", "store_size", "translog_size", "segment_count",
                 "ingest_pipeline_cluster_count", "ingest_pipeline_cluster_time", "ingest_pipeline_cluster_failed"]:
        setattr(g, attr, next(v))
    for attr in ["total_time_per_shard", "merge_time_per_shard"]:
        setattr(g, attr, {"min": next(v), "median": next(v), "max": next(v), "unit": "ms"})
    g.total_transform_throughput = [{"id": "tf", "mean": next(v), "unit": "docs/s"}]; g.total_transform_processing_times = [{"id": "tf", "mean": next(v), "unit": "ms"}]
    g.total_transform_index_times = []; g.total_transform_search_times = []
    return metrics.GlobalStats(g.as_dict())
class Cfg:
    def opts(s, sec, key, mandatory=True, default_value=None):
        return {"output.path": "", "format": "markdown", "numbers.align": "right", "output.processingtime": True, "rally.cwd": "."}.get(key, default_value)
R = reporter.ComparisonReporter(Cfg())
strip = lambda x: re.sub(r"\x1b\[[0-9;]*m", "", x) if isinstance(x, str) else x
def colour(x):
    m = re.match(r"\x1b\[(\d+);1m", x); return {"32": "green", "31": "red", "39": "neutral"}[m.group(1)]
bad = 0; rows_seen = 0
for trial in range(300):
    pick = lambda: rnd.choice([0, 0.0, 1, 2.5, 1000, 60000, 1e-7, 123456789])
    a = [pick() for _ in range(120)]; b = [pick() if rnd.random() < 0.7 else x for x in a]
    A, B = stats(a), stats(b)
    rich = R._metrics_table(A, B, plain=False); plain = R._metrics_table(A, B, plain=True)
    swap = R._metrics_table(B, A, plain=False); self_ = R._metrics_table(A, A, plain=False)
    if [[strip(c) for c in r] for r in rich] != plain: bad += 1; print("PLAIN != RICH")
    if len(swap) != len(rich): bad += 1; print("ROW COUNT")
    for r, s_ in zip(rich, swap):
        rows_seen += 1
        higher_better = "hroughput" in r[0]
        c, cs = colour(r[4]), colour(s_[4])
        text = strip(r[4])
        val = float(text)
        if c == "neutral":
            if abs(val) >= 1e-5 + 1e-12: bad += 1; print("NEUTRAL BUT NONZERO", r)
        else:
            exp = ("green" if val > 0 else "red") if higher_better else ("red" if val > 0 else "green")
            if c != exp: bad += 1; print("DIRECTION", r)
            if (val > 0) != text.startswith("+"): bad += 1; print("SIGN", r)
        if cs != {"green": "red", "red": "green", "neutral": "neutral"}[c]: bad += 1; print("SWAP", r, s_)
    for r in self_:
        if colour(r[4]) != "neutral" or float(strip(r[4])) != 0: bad += 1; print("SELF", r)
print("trials 300, rows", rows_seen, "bad", bad)
