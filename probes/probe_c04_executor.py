import sys, z3, time as _time, threading
sys.path.insert(0, __import__("os").environ.get("VERIF_REPO", "/repo")); sys.path.insert(0, __import__("os").path.dirname(__file__))
import symx_prototype as symx
from symx_prototype import SInt, SBool, SReal
from esrally.driver import driver
from esrally.client import context
from esrally import track, metrics
symx.shadow(driver)

class Clock:
    def __init__(self): self.now = SInt(z3.IntVal(0)); self.n = 0
    def tick(self):
        self.n += 1; d = SInt(z3.Int(f"dt{self.n}"))
        symx.assume_fresh(d.z >= 0)
        self.now = self.now + d; return self.now
    def perf_counter(self): return self.tick()
    def time(self): return self.now
CLK = None
class FakeAsyncio:
    @staticmethod
    async def sleep(d):
        # wakes at or after the deadline
        CLK.now = CLK.now + d; CLK.tick()
class Es(context.RequestContextHolder):
    pass
class Runner:
    completed = None; percent_completed = None
    async def __aenter__(self): return self
    async def __aexit__(self, *a): return False
    async def __call__(self, es, params):
        es["default"].on_request_start(); es["default"].on_request_end()
        return {"weight": 1, "unit": "ops", "success": True}
class Handle:
    ramp_up_wait_time = 0
    def __init__(self, times): self.times = times
    def start(self): pass
    def before_request(self, now): pass
    def after_request(self, *a): pass
    def __call__(self):
        async def gen():
            for i, t in enumerate(self.times):
                yield t, metrics.SampleType.Normal, (i + 1) / len(self.times), Runner(), {}
        return gen()

K = 2
def mk(): return [[SInt(z3.Int(f"s{i}")) for i in range(K)]]
def pre(times):
    prev = 0
    for t in times:
        if not t >= prev: return False
        prev = t
    return True
def prop(times):
    global CLK
    CLK = Clock()
    driver.time = CLK; context.time = CLK; driver.asyncio = FakeAsyncio
    sampler = driver.Sampler(start_timestamp=0)
    task = track.Task("t", track.Operation("o", "search"))
    ex = driver.AsyncExecutor(0, task, Handle(times), {"default": Es()}, sampler, threading.Event(), threading.Event(), "continue")
    co = ex()
    try: co.send(None); return False
    except StopIteration: pass
    ss = sampler.samples
    if len(ss) != K: return False
    for s, t in zip(ss, times):
        if not (s.service_time >= 0 and s.processing_time >= s.service_time): return False
        if t > 0:
            if not s.latency >= s.service_time: return False
        else:
            if not s.latency == s.service_time: return False
    return True
r = symx.explore(prop, mk, pre=pre, timeout=120)
print(r[0], r[2], "paths", round(r[3], 2), "s", r[1] if r[1] is not None else "")
