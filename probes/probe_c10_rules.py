"""Plumbing probe for C10: real TrackSpecificationReader on spec dicts; brute force over presence of the timing fields."""
import sys, itertools, logging
sys.path.insert(0, __import__("os").environ.get("VERIF_REPO", "/repo")); logging.disable(logging.CRITICAL)
from esrally.track import loader
from esrally import exceptions
F = ["warmup-iterations", "iterations", "warmup-time-period", "time-period", "ramp-up-time-period"]
V = {"warmup-iterations": [0, 3], "iterations": [1, 5], "warmup-time-period": [0, 10], "time-period": [1, 20], "ramp-up-time-period": [0, 5, 15]}
n = bad = 0
def load(task_spec, parallel=None):
    sched = [{"parallel": dict(parallel, tasks=[task_spec])}] if parallel is not None else [task_spec]
    spec = {"operations": [{"name": "s", "operation-type": "search"}], "challenges": [{"name": "c", "schedule": sched}]}
    return loader.TrackSpecificationReader()("t", spec, "/m").challenges[0].schedule[0]
for present in itertools.product([False, True], repeat=5):
    for vals in itertools.product(*[V[f] if p else [None] for f, p in zip(F, present)]):
        ts = {"operation": "s"}
        for f, v in zip(F, vals):
            if v is not None: ts[f] = v
        wi, it, wt, tp, ru = vals
        reject = (wi is not None and tp is not None) or (wt is not None and it is not None) \
                 or ((wi is not None or it is not None) and ru is not None) \
                 or (ru is not None and (wt is None or wt < ru))
        try:
            t = load(ts); ok = True
        except exceptions.InvalidSyntax:
            ok = False
        n += 1
        if ok == reject:
            bad += 1; print("MISMATCH", ts, "loaded" if ok else "rejected")
        if ok and (t.warmup_iterations, t.iterations, t.warmup_time_period, t.time_period, t.ramp_up_time_period, t.clients) != (wi, it, wt, tp, ru, 1):
            bad += 1; print("FIDELITY", ts)
print("cases", n, "bad", bad)
# inheritance from parallel
p = load({"operation": "s", "iterations": 7}, parallel={"warmup-iterations": 2, "iterations": 9, "clients": 3})
t = p.tasks[0]; print("inherit:", t.warmup_iterations, t.iterations, t.clients, p.clients)
