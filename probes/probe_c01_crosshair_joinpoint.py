from typing import List
from esrally.driver import driver
from esrally import track

class Cfg:
    def opts(self, section, key, mandatory=True, default_value=None):
        if (section, key) == ("track", "test.mode.enabled"): return False
        return default_value
class MS:
    opened = True
    def to_externalizable(self, clear=False): return b"x"
    def close(self): self.opened = False
    def reset_relative_time(self): pass
class Tele:
    def on_benchmark_stop(self): pass
class DA:
    def __init__(self): self.drive=[]; self.complete=[]; self.finished=0; self.done=0
    def drive_at(self, w, ts): self.drive.append(w)
    def complete_current_task(self, w): self.complete.append(w)
    def on_task_finished(self, m, t): self.finished += 1
    def on_benchmark_complete(self, m): self.done += 1
class PR:
    def print(self, *a): pass
    def finish(self): pass

def step(W: int, S: int, cur: int, done: List[bool], sent: bool, wid: int) -> bool:
    """
    pre: 2 <= W <= 3 and 1 <= S <= 3 and 0 <= cur < S
    pre: len(done) == W and 0 <= wid < W and not done[wid]
    post: _
    """
    op = track.Operation("op", "search")
    sched = [track.Task("t%d" % i, op, clients=W) for i in range(S)]
    alloc = driver.Allocator(sched)
    da = DA()
    d = driver.Driver.__new__(driver.Driver)
    import logging
    d.logger = logging.getLogger("x"); d.driver_actor = da; d.config = Cfg()
    d.metrics_store = MS(); d.telemetry = Tele(); d.progress_reporter = PR(); d.quiet = True
    d.sample_post_processor = lambda s: None
    d.raw_samples = []; d.most_recent_sample_per_client = {}
    d.generated_api_key_ids = []
    d.workers = ["w%d" % i for i in range(W)]
    d.clients_per_worker = {i: i for i in range(W)}
    d.number_of_steps = len(alloc.join_points) - 1
    d.tasks_per_join_point = alloc.tasks_per_joinpoint
    d.current_step = cur
    d.workers_completed_current_step = {i: (0.0, 0.0) for i in range(W) if done[i]}
    d.currently_completed = len(d.workers_completed_current_step)
    d.complete_current_task_sent = sent
    n_before = d.currently_completed
    jp = alloc.join_points[cur + 1]
    d.joinpoint_reached(wid, 1.0, [driver.ClientAllocation(wid, jp)])
    if n_before + 1 == W:
        # barrier released
        if d.current_step != cur + 1 or d.currently_completed != 0: return False
        if cur + 1 == S:
            return da.done == 1 and da.drive == []
        return da.finished == 1 and sorted(da.drive) == sorted(d.workers) and da.done == 0
    else:
        return d.current_step == cur and da.drive == [] and da.done == 0 and d.currently_completed == n_before + 1
