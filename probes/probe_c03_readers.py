"""Plumbing probe for C03/A2: real reader stack over in-memory sources, brute force over a tiny space (no solver yet)."""
import sys, itertools, math, logging
sys.path.insert(0, __import__("os").environ.get("VERIF_REPO", "/repo")); logging.disable(logging.CRITICAL)
from esrally import track
from esrally.track import params
from esrally.utils import io

FILES = {}
class MemSource:
    def __init__(self, file_name, mode, encoding="utf-8"): self.lines = FILES[file_name]; self.i = 0
    def open(self): return self
    def seek(self, off): assert off == 0; self.i = 0
    def readline(self):
        if self.i >= len(self.lines): return b""
        l = self.lines[self.i]; self.i += 1; return l
    def readlines(self, n):
        out = []
        for _ in range(n):
            l = self.readline()
            if l == b"": break
            out.append(l)
        return out
    def close(self): pass
params.io = type("IO", (), {"MmapSource": MemSource, "skip_lines": staticmethod(io.skip_lines)})

def run(doc_counts, with_meta, clients, groups, bulk, batch_mult, pct):
    FILES.clear(); docs = []
    for fi, (n, wm) in enumerate(zip(doc_counts, with_meta)):
        name = f"/nonexistent/f{fi}.json"
        FILES[name] = [l for i in range(n) for l in (([b'{"index":{}}\n'] if wm else []) + [b'{"f":%d,"i":%d}\n' % (fi, i)])]
        docs.append(track.Documents("bulk", document_file=name, number_of_documents=n, includes_action_and_meta_data=wm, target_index="idx"))
    t = track.Track("t", corpora=[track.DocumentCorpus("c", docs)], indices=[track.Index("idx")])
    seen = []
    for g in groups:   # g = list of client indices co-located in one worker
        src = params.BulkIndexParamSource(t, {"bulk-size": bulk, "batch-size": bulk * batch_mult, "ingest-percentage": pct})
        parts = [src.partition(c, clients) for c in g]
        body = []; nb = 0
        while True:
            try: p = parts[nb % len(parts)].params()
            except StopIteration: break
            nb += 1
            assert p["bulk-size"] <= bulk, p["bulk-size"]
            lines = p["body"].split(b"\n")[:-1]
            assert len(lines) == 2 * p["bulk-size"], (len(lines), p["bulk-size"])
            body += lines[1::2]
        seen.append((g, nb, body))
    return seen

bad = 0; n = 0
for doc_counts in itertools.product(range(0, 6), repeat=2):
    if sum(doc_counts) == 0: continue
    for with_meta in itertools.product([False, True], repeat=2):
        for clients in (1, 2, 3):
            for split in ({1: [[[0]]], 2: [[[0], [1]], [[0, 1]]], 3: [[[0], [1], [2]], [[0, 1], [2]], [[0], [1, 2]], [[0, 1, 2]]]}[clients]):
                for bulk in (1, 2, 3):
                    for bm in (1, 2):
                        n += 1
                        try:
                            seen = run(doc_counts, with_meta, clients, split, bulk, bm, 100)
                        except Exception as e:
                            bad += 1
                            if bad < 6: print("EXC", type(e).__name__, e, doc_counts, with_meta, clients, split, bulk, bm)
                            continue
                        allb = sorted(l for _, _, b in seen for l in b)
                        exp = sorted(b'{"f":%d,"i":%d}' % (fi, i) for fi, c in enumerate(doc_counts) for i in range(c))
                        if allb != exp:
                            bad += 1
                            if bad < 6: print("MISMATCH", doc_counts, with_meta, clients, split, bulk, bm, len(allb), len(exp))
print("cases", n, "bad", bad)

# ingest percentage: each co-located group stops after ceil(p%) of its bulks
bad = 0; n = 0
for doc_counts in [(5, 3), (4, 0), (5, 5)]:
    for clients, split in [(2, [[0], [1]]), (2, [[0, 1]]), (3, [[0, 1], [2]])]:
        for bulk in (1, 2):
            full = run(doc_counts, (False, False), clients, split, bulk, 1, 100)
            for pct in (1, 10, 34, 50, 99.9):
                part = run(doc_counts, (False, False), clients, split, bulk, 1, pct)
                for (g, nb_full, bf), (_, nb, b) in zip(full, part):
                    n += 1
                    if nb != math.ceil(nb_full * pct / 100) or b != bf[:len(b)]:
                        bad += 1; print("PCT", doc_counts, clients, split, bulk, pct, nb_full, nb)
print("pct cases", n, "bad", bad)
