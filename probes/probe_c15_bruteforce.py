"""Plumbing probe for C15/V2: real best_match on rendered names vs the documented precedence, brute force (no solver yet)."""
import sys, itertools, logging, collections
sys.path.insert(0, __import__("os").environ.get("VERIF_REPO", "/repo")); logging.disable(logging.CRITICAL)
from esrally.utils import versions
def universe(M, m, p):
    u = ["master", "foo"]
    for MM in (M - 1, M, M + 1):
        u.append(f"{MM}")
        for mm in sorted({0, max(m - 1, 0), m, m + 1}):
            u.append(f"{MM}.{mm}")
    u += [f"{M}.{m}.{p}", f"{M}.{m}.{p}-beta1", f"{M}.{m}.{p + 1}", f"{M}.{max(m - 1, 0)}.{p}"]
    return sorted(set(u))
def oracle(names, M, m, p, sfx):
    if sfx and f"{M}.{m}.{p}-{sfx}" in names: return f"{M}.{m}.{p}-{sfx}"
    if f"{M}.{m}.{p}" in names: return f"{M}.{m}.{p}"
    if f"{M}.{m}" in names: return f"{M}.{m}"
    prior = []
    for n in names:
        parts = n.split(".")
        if len(parts) == 2 and all(x.isdigit() for x in parts) and int(parts[0]) == M and int(parts[1]) <= m: prior.append(int(parts[1]))
    if prior: return f"{M}.{max(prior)}"
    if f"{M}" in names: return f"{M}"
    majors = [int(n.split(".")[0].split("-")[0]) for n in names if n[0].isdigit()]
    return "master" if all(M > x for x in majors) else None
n = 0; bad = collections.Counter(); ex = {}
for (M, m, p, sfx) in [(7, 0, 0, None), (7, 2, 1, None), (7, 1, 0, "beta1"), (6, 3, 2, None)]:
    U = universe(M, m, p)
    v = f"{M}.{m}.{p}" + (f"-{sfx}" if sfx else "")
    for k in (0, 1, 2, 3):
        for names in itertools.combinations(U, k):
            got = versions.best_match(list(names), v); exp = oracle(names, M, m, p, sfx); n += 1
            if got != exp:
                bad[v] += 1; ex.setdefault(v, (names, got, exp))
print("cases", n, "mismatches", dict(bad)); [print("  e.g.", k, v) for k, v in ex.items()]
print("no version / serverless:", versions.best_match(["7", "master"], None), versions.best_match(["7", "master"], "serverless"), versions.best_match(["7"], ""))
