"""Plumbing probe for C09: single faults on the real Driver/Worker closed system; race control must get a BenchmarkFailure, never completion."""
import sys, os, collections, time, logging
sys.path.insert(0, os.path.dirname(__file__)); logging.disable(logging.CRITICAL)
import probe_c01_fake_actor_system as fs
import thespian.actors as ta
from esrally import track, actor, exceptions
from esrally.driver import driver
op = track.Operation("s", "search")

class SysF(fs.System):
    fault = None          # ("run", n) : n-th run fails ; ("store", n): n-th post-processing raises ; ("cancel", n)
    def __init__(self): super().__init__(); global SYS; SYS = self; self.count = collections.Counter()
    def enabled(self):
        out = []
        for e in super().enabled():
            if e[0] == "timer":
                a = self.actors[self.timers[e[1]][0]]
                if isinstance(a, driver.DriverActor): continue
                if isinstance(a, driver.Worker):
                    fut = a.executor_future
                    if not a.start_driving and fut is not None and not fut.done() and not a.cancel.is_set(): continue
            out.append(e)
        return out
    def fire(self, ev):
        if ev[0] == "fin" and self.fault[0] == "run":
            self.count["run"] += 1
            if self.count["run"] == self.fault[1]:
                r = self.runs[ev[1]]; r.finished = True; r.error = exceptions.RallyError("Cannot run task"); return
        if ev[0] == "msg":
            # thespian contract: handler exception -> retry once -> PoisonMessage to sender
            src, m = self.chan[ev[1]][0]
            try: return super().fire(ev)
            except Exception as e:
                try: self.actors[ev[1][1]].receiveMessage(m, src)
                except Exception as e2:
                    self.chan[(ev[1][1], ev[1][0])].append((self.addr[ev[1][1]], ta.PoisonMessage(m, str(e2))))
                return
        return super().fire(ev)

def run(sched, fault, order, max_events=150):
    fs.System = SysF; SysF.fault = fault
    pp_count = [0]
    orig = fs.run
    # wrap: need to inject a failing sample_post_processor after Driver creation -> patch Driver.post_process_samples
    orig_pp = driver.Driver.post_process_samples
    def pp(self):
        pp_count[0] += 1
        if fault[0] == "store" and pp_count[0] == fault[1]: raise exceptions.RallyError("metrics store down")
        return orig_pp(self)
    driver.Driver.post_process_samples = pp
    try: got, n = fs.run(sched, order=order, max_events=max_events)
    finally: driver.Driver.post_process_samples = orig_pp
    return got, n

def explore(sched, fault, tmax=60):
    prefix = []; paths = 0; bad = collections.Counter(); t0 = time.time(); ex = {}
    while True:
        pos = [0]
        def order(evs):
            i = pos[0]; pos[0] += 1
            if i < len(prefix): return prefix[i][0]
            prefix.append([0, len(evs)]); return 0
        got, n = run(sched, fault, order); paths += 1
        v = None
        if "BenchmarkFailure" not in got and "PoisonMessage" not in got: v = "no failure at race control: " + ",".join(got)
        elif "BenchmarkComplete" in got: v = "completed despite failure: " + ",".join(got)
        if v: bad[v] += 1
        del prefix[pos[0]:]
        while prefix and prefix[-1][0] + 1 >= prefix[-1][1]: prefix.pop()
        if not prefix: return paths, dict(bad), round(time.time() - t0, 1), True
        prefix[-1][0] += 1
        if time.time() - t0 > tmax: return paths, dict(bad), round(time.time() - t0, 1), False
S1 = [track.Task("x", op, iterations=1)]
S2 = [track.Task("x", op, iterations=1), track.Task("y", op, iterations=1)]
for fault in [("run", 1), ("store", 1), ("store", 2)]:
    print("1 task x 1 client, fault", fault, explore(S1, fault))
for fault in [("run", 2), ("store", 3)]:
    print("2 tasks x 1 client, fault", fault, explore(S2, fault, tmax=40))
