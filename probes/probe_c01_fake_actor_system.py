import collections, logging, sys
import thespian.actors as ta
from esrally import actor, log, track, metrics
from esrally.utils import console
from esrally.driver import driver
log.post_configure_actor_logging = lambda: None
driver.load_local_config = lambda c: c
driver.load_track = lambda *a, **k: None
driver.track.set_absolute_data_path = lambda *a, **k: None
driver.runner.register_default_runners = lambda *a, **k: None

class Cfg:
    def opts(self, section, key, mandatory=True, default_value=None):
        v = {("track", "test.mode.enabled"): True, ("driver", "on.error"): "continue",
             ("driver", "load_driver_hosts"): ["localhost"]}.get((section, key), default_value)
        return v
class Ref:
    def __init__(self, sys_, addr): self.sys = sys_; self.address = addr
    def actor_send(self, target, msg): self.sys.chan[(self.address.addressDetails, target.addressDetails)].append((self.address, msg))
    def wakeupAfter(self, period, payload): self.sys.timers.append((self.address.addressDetails, ta.WakeupMessage(period, payload)))
    def createActor(self, cls, req, gn, sh): return self.sys.create(cls, parent=self.address)
class Fut:
    def __init__(self, run): self.run = run
    def done(self): return self.run.finished
    def running(self): return not self.run.finished
    def exception(self, timeout=None): return self.run.error
    def result(self):
        assert self.run.finished
        if self.run.error: raise self.run.error
class Run:
    def __init__(self, ex): self.ex = ex; self.finished = False; self.error = None
    def can_finish(self):
        # finite tasks may finish any time; tasks without iterations/time-period finish only once 'complete' is set
        inf = [ta_.task.task for ta_ in self.ex.task_allocations if ta_.task.task.iterations is None and ta_.task.task.time_period is None]
        return not inf or self.ex.complete.is_set()
    def finish(self):
        self.finished = True
        for ca in self.ex.task_allocations:
            t = ca.task.task
            if t.completes_parent or t.any_completes_parent: self.ex.complete.set()
class Pool:
    def __init__(self, sys_): self.sys = sys_
    def submit(self, ex): r = Run(ex); self.sys.runs.append(r); return Fut(r)
    def shutdown(self): pass
class System:
    def __init__(self):
        self.n = 0; self.actors = {}; self.chan = collections.defaultdict(collections.deque); self.timers = []; self.runs = []; self.log = []; self.addr = {}
    def create(self, cls, parent=None):
        self.n += 1; addr = ta.ActorAddress(self.n); a = cls(); a._myRef = Ref(self, addr); self.actors[addr.addressDetails] = a; self.addr[addr.addressDetails] = addr
        if isinstance(a, driver.Worker): a.pool = Pool(self)
        return addr
    def enabled(self):
        ev = [("msg", k) for k, q in self.chan.items() if q and k[1] in self.actors]
        ev += [("timer", i) for i in range(len(self.timers))]
        ev += [("fin", i) for i, r in enumerate(self.runs) if not r.finished and r.can_finish()]
        return ev
    def fire(self, ev):
        kind, x = ev
        if kind == "msg":
            src, m = self.chan[x].popleft(); self.actors[x[1]].receiveMessage(m, src)
        elif kind == "timer":
            a, m = self.timers.pop(x); self.actors[a].receiveMessage(m, self.addr[a])
        else:
            self.runs[x].finish()

class RaceControl(ta.ActorTypeDispatcher):
    def __init__(self): self.got = []
    def receiveMessage(self, m, s): self.got.append(type(m).__name__)
# stub the async adapter: we never run it
driver.AsyncIoAdapter = lambda cfg, trk, task_allocations, sampler, cancel, complete, on_error, ctxs, wid: type("Ex", (), dict(task_allocations=task_allocations, complete=complete, cancel=cancel))()

def run(schedule, order=lambda evs: 0, max_events=200):
    s = System(); rc = s.create(RaceControl); da_addr = s.create(driver.DriverActor); da = s.actors[da_addr.addressDetails]
    d = driver.Driver(da, Cfg()); da.driver = d; da.benchmark_actor = rc
    class MS:
        opened = True
        def to_externalizable(self, clear=False): return None
        def close(self): self.opened = False
        def reset_relative_time(self): pass
        def flush(self, refresh=True): pass
    class Tel:
        def on_benchmark_start(self): pass
        def on_benchmark_stop(self): pass
    d.metrics_store = MS(); d.telemetry = Tel(); d.quiet = True; d.sample_post_processor = lambda x: None
    d.track = track.Track("t"); d.challenge = track.Challenge("c", schedule=schedule)
    d.load_driver_hosts = [{"host": "localhost", "cores": 2}]
    class CO:  # client options
        all_client_options = {"default": {}}
    d.config.opts = lambda sec, key, mandatory=True, default_value=None: CO() if (sec, key) == ("client", "options") else Cfg.opts(d.config, sec, key, mandatory, default_value)
    s.chan[(rc.addressDetails, da_addr.addressDetails)].append((rc, driver.StartBenchmark()))
    for i in range(max_events):
        evs = s.enabled()
        # drop the driver's own periodic wakeups to keep this finite
        evs = [e for e in evs if not (e[0] == "timer" and s.timers[e[1]][0] == da_addr.addressDetails)]
        if not evs: break
        s.fire(evs[order(evs)])
    return s.actors[rc.addressDetails].got, i

op = track.Operation("s", "search")
A = track.Task("A", op, iterations=1, completes_parent=True)
B = track.Task("B", op, iterations=1)
print("sequential:", run([track.Task("x", op, iterations=1, clients=2), track.Task("y", op, iterations=1)]))
print("parallel capped completed-by A:", run([track.Parallel([A, B], clients=1), track.Task("z", op, iterations=1)]))
def fair(evs):
    for i, e in enumerate(evs):
        if e[0] != "timer": return i
    return 0
print("sequential(fair):", run([track.Task("x", op, iterations=1, clients=2), track.Task("y", op, iterations=1)], order=fair))
print("parallel capped completed-by A (fair):", run([track.Parallel([A, B], clients=1), track.Task("z", op, iterations=1)], order=fair))
print("parallel uncapped completed-by A (fair):", run([track.Parallel([A, track.Task("B2", op)],), track.Task("z", op, iterations=1)], order=fair))
