import sys, z3
sys.path.insert(0, __import__("os").environ.get("VERIF_REPO", "/repo")); sys.path.insert(0, __import__("os").path.dirname(__file__))
import symx_prototype as symx
from symx_prototype import SInt, SBool
from esrally.driver import driver
from esrally import track, metrics
symx.shadow(driver)

class S:
    def __init__(self, t, ops, st):
        self.absolute_time = t; self.total_ops = ops; self.sample_type = st
        self.task = TASK; self.throughput = None; self.time_period = 0; self.total_ops_unit = "docs"
        self.relative_time = t; self.client_id = 0
TASK = track.Task("t", track.Operation("op", "bulk"))
N = metrics.SampleType.Normal

def I(n): return SInt(z3.Int(n))
def B(n): return SBool(z3.Bool(n))
def mk():
    return [I(x) for x in ("ut1","uo1","ut2","uo2","total","interval","k")] + [B("has")] + [I(x) for x in ("bt1","bo1","bt2","bo2")]

def pre(ut1, uo1, ut2, uo2, total, interval, k, has, bt1, bo1, bt2, bo2):
    for v in (ut1, uo1, ut2, uo2, total, bt1, bo1, bt2, bo2):
        if not v >= 0: return False
    return bool(interval >= 1) and bool(k >= 1) and bool(interval < 10 * k) and bool(ut1 <= interval) and bool(ut2 <= interval)

def mkprop(nu, nb):
    def prop(ut1, uo1, ut2, uo2, total, interval, k, has, bt1, bo1, bt2, bo2):
        un = [(ut1, uo1), (ut2, uo2)][:nu]
        batch = [(bt1, bo1), (bt2, bo2)][:nb]
        tc = driver.ThroughputCalculator()
        st = driver.ThroughputCalculator.TaskStats(bucket_interval=10, sample_type=N, start_time=0)
        st.unprocessed = [S(t, o, N) for (t, o) in un]
        st.total_count = total; st.interval = interval; st.bucket = 10 * k; st.has_samples_in_sample_type = has
        tc.task_stats[TASK] = st
        seen = total
        for (_, o) in un + batch: seen = seen + o
        tc.calculate([S(t, o, N) for (t, o) in batch], bucket_interval_secs=10)
        got = st.total_count
        for s in st.unprocessed: got = got + s.total_ops
        return bool(got == seen)
    return prop

for nu in (0, 1, 2):
    for nb in (1, 2):
        r = symx.explore(mkprop(nu, nb), mk, pre=pre, timeout=120)
        print(nu, nb, r[0], r[2], "paths", round(r[3], 2), "s", r[1] if r[1] is not None else "")
print(symx.STATS)
