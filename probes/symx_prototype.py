"""Prototype 2: DFS with boolean and enumeration decisions."""
import z3, time, builtins
class PathAbort(BaseException): pass
class Ctx:
    def __init__(self, prefix):
        self.solver = z3.Solver(); self.prefix = prefix; self.pos = 0
CTX = None
STATS = {"checks": 0}
def branch(cond):
    c = CTX; cond = z3.simplify(cond)
    if z3.is_true(cond): return True
    if z3.is_false(cond): return False
    if c.pos < len(c.prefix):
        d = c.prefix[c.pos]["v"]
    else:
        STATS["checks"] += 2
        t = c.solver.check(cond) == z3.sat; f = c.solver.check(z3.Not(cond)) == z3.sat
        if not t and not f: raise PathAbort()
        d = t; c.prefix.append({"k": "b", "v": d, "more": t and f})
    c.pos += 1; c.solver.add(cond if d else z3.Not(cond)); return d
def assume_fresh(cond):
    CTX.solver.add(cond)
def concretize(term, limit=64):
    c = CTX
    if c.pos < len(c.prefix):
        e = c.prefix[c.pos]
    else:
        vals = []
        while True:
            STATS["checks"] += 1
            if c.solver.check(*[term != t for t in vals]) != z3.sat: break
            vals.append(c.solver.model().eval(term, model_completion=True).as_long())
            if len(vals) > limit: raise RuntimeError("unbounded concretization")
        assert vals
        e = {"k": "e", "vals": vals, "i": 0}; c.prefix.append(e)
    v = e["vals"][e["i"]]
    c.pos += 1; c.solver.add(term == v); return v
def backtrack(prefix):
    while prefix:
        e = prefix[-1]
        if e["k"] == "b" and e["more"]:
            e["v"] = not e["v"]; e["more"] = False; return True
        if e["k"] == "e" and e["i"] + 1 < len(e["vals"]):
            e["i"] += 1; return True
        prefix.pop()
    return False
def zv(v):
    if isinstance(v, Sym): return v.z
    if isinstance(v, bool): return z3.BoolVal(v)
    if isinstance(v, int): return z3.IntVal(v)
    if isinstance(v, float): return z3.RealVal(repr(v))
    raise TypeError(type(v))
class Sym: pass
class SBool(Sym):
    def __init__(self, z): self.z = z
    def __bool__(self): return branch(self.z)
def num(z): return SInt(z) if z.sort() == z3.IntSort() else SReal(z)
def R(a): return z3.ToReal(a) if a.sort() == z3.IntSort() else a
def both(a, b):
    a, b = zv(a), zv(b)
    if a.sort() != b.sort(): a, b = R(a), R(b)
    return a, b
class SNum(Sym):
    def __init__(self, z): self.z = z
    def __add__(s, o): a, b = both(s, o); return num(a + b)
    def __radd__(s, o): a, b = both(o, s); return num(a + b)
    def __sub__(s, o): a, b = both(s, o); return num(a - b)
    def __rsub__(s, o): a, b = both(o, s); return num(a - b)
    def __mul__(s, o): a, b = both(s, o); return num(a * b)
    def __rmul__(s, o): a, b = both(o, s); return num(a * b)
    def __truediv__(s, o): a, b = both(s, o); return SReal(R(a) / R(b))
    def __rtruediv__(s, o): a, b = both(o, s); return SReal(R(a) / R(b))
    def __neg__(s): return num(-s.z)
    def __lt__(s, o): a, b = both(s, o); return SBool(a < b)
    def __le__(s, o): a, b = both(s, o); return SBool(a <= b)
    def __gt__(s, o): a, b = both(s, o); return SBool(a > b)
    def __ge__(s, o): a, b = both(s, o); return SBool(a >= b)
    def __eq__(s, o): a, b = both(s, o); return SBool(a == b)
    def __ne__(s, o): a, b = both(s, o); return SBool(a != b)
    __hash__ = None
    def __bool__(s): return branch(s.z != 0)
class SInt(SNum):
    def __index__(s): return concretize(s.z)
    def __floordiv__(s, o): return SInt(s.z / zv(o))
    def __mod__(s, o): return SInt(s.z % zv(o))
    def __floor__(s): return s
    def __ceil__(s): return s
class SReal(SNum):
    def __floor__(s): return SInt(z3.ToInt(s.z))
    def __ceil__(s): return SInt(-z3.ToInt(-s.z))
def sx_int(x=0, *a):
    if isinstance(x, SInt): return x
    if isinstance(x, SReal): return SInt(z3.If(x.z >= 0, z3.ToInt(x.z), -z3.ToInt(-x.z)))
    return builtins.int(x, *a)
def sx_float(x=0.0):
    if isinstance(x, SInt): return SReal(z3.ToReal(x.z))
    if isinstance(x, SReal): return x
    return builtins.float(x)
def shadow(module): module.int = sx_int; module.float = sx_float
def explore(fn, make_args, timeout=60, pre=None):
    global CTX
    t0 = time.time(); paths = 0; prefix = []
    while True:
        CTX = Ctx(prefix); args = make_args()
        try:
            if pre is None or pre(*args):
                ok = fn(*args); paths += 1
                if not ok:
                    assert CTX.solver.check() == z3.sat
                    return "cex", CTX.solver.model(), paths, time.time() - t0
        except PathAbort: pass
        del prefix[CTX.pos:]
        if not backtrack(prefix): return "confirmed", None, paths, time.time() - t0
        if time.time() - t0 > timeout: return "timeout", None, paths, time.time() - t0
