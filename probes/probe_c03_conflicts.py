"""Plumbing probe for C03 (conflict ids): real GenerateActionMetaData / build_conflicting_ids with adversarial random stubs."""
import sys, itertools, logging, re
sys.path.insert(0, __import__("os").environ.get("VERIF_REPO", "/repo")); logging.disable(logging.CRITICAL)
from esrally.track import params
bad = n = 0
for mode in (params.IndexIdConflict.SequentialConflicts, params.IndexIdConflict.RandomConflicts):
    for docs in (1, 2, 5):
        for offset in (0, 7):
            for prob in (25, 100):
                for recency in (0, 0.5, 1):
                    for rands in itertools.product([0.0, 0.24, 0.26, 1.0], repeat=3):
                        for rexp in (0.0, 0.3, 5.0):
                            ids = params.build_conflicting_ids(mode, docs, offset, shuffle=lambda l: l.reverse())
                            ri = iter(itertools.cycle(rands))
                            g = params.GenerateActionMetaData("idx", None, ids, prob, "update", recency, rand=lambda: next(ri),
                                                              randint=lambda a, b: b, randexp=lambda lam: rexp)
                            emitted = set(); out = []
                            for _ in range(40):
                                try: action, line = next(g)
                                except StopIteration: break
                                i = re.search(r'"_id": "(\d+)"', line).group(1)
                                if action == "update" and i not in emitted: bad += 1; print("UPDATE OF UNSEEN ID", mode, docs, i)
                                if action == "index" and i in emitted and False: pass
                                if action == "index": emitted.add(i)
                                out.append((action, i))
                            n += 1
                            if sorted(emitted) != sorted(ids) and len(out) < 40: bad += 1; print("NOT ALL IDS", mode, docs, out)
                            if any(not (offset <= int(i) < offset + docs) for i in emitted): bad += 1; print("RANGE")
print("generators", n, "bad", bad)
