import json
from esrally.driver import runner

class Resp:
    def __init__(self, s): self.s = s
    def getvalue(self): return self
    def decode(self, enc): return self.s

def esc(s: str) -> str:
    out = ""
    for ch in s:
        if ch == '"': out += '\\"'
        elif ch == '\\': out += '\\\\'
        else: out += ch
    return out

def last_sort(s: str, n: int) -> bool:
    """
    pre: len(s) <= 3
    pre: all(' ' <= ch <= '~' for ch in s)
    pre: 0 <= n <= 9
    post: _
    """
    text = '{"took":1,"hits":{"hits":[{"_id":"a","sort":[1,"x"]},{"_id":"b","sort":[' + str(n) + ',"' + esc(s) + '"]}]}}'
    got = runner.SearchAfterExtractor()._get_last_sort(Resp(text))
    return got == [n, s]
