#!/usr/bin/env python3
"""Regenerates MANIFEST.json from manifest_src.json (checks that exist) + properties.jsonl (everything else -> not_applicable)."""
import json, os, sys
V = os.path.dirname(os.path.dirname(os.path.abspath(__file__)))
src = json.load(open(os.path.join(V, "manifest_src.json")))
props = [json.loads(l)["id"] for l in open(os.path.join(V, "properties.jsonl"))]
checks = []
for pid in props:
    c = src["checks"].get(pid)
    if not c:
        continue
    e = {"property_id": pid, "engine": c.get("engine", "symx"),
         "quick_cmd": "./check %s --tier quick" % pid,
         "thorough_cmd": "./check %s --tier thorough" % pid,
         "replay_cmd_template": "./check %s --replay {path}" % pid,
         "evidence_file": "evidence/%s.json" % pid,
         "technique": c["technique"],
         "level_claimed": {"category": "other", "design_ref": "DESIGN.md §4 %s" % pid, "text": c["text"]},
         "level_note": c["note"]}
    checks.append(e)
na = [{"property_id": p, "reason": src["not_applicable"].get(p, "check not built yet in this session (planned, see DESIGN.md §4); nothing is claimed")}
      for p in props if p not in src["checks"]]
m = {"version": 1, "setup_cmd": "./bin/setup.sh",
     "hooks": src["hooks"], "engines": src["engines"], "checks": checks, "not_applicable": na, "notes": src["notes"]}
json.dump(m, open(os.path.join(V, "MANIFEST.json"), "w"), indent=1)
try:
    import jsonschema
    jsonschema.validate(m, json.load(open("/root/.vp/MANIFEST.schema.json")))
    print("MANIFEST.json valid:", len(checks), "checks,", len(na), "not applicable")
except ImportError:
    print("written (jsonschema not available)")
