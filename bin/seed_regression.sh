#!/bin/bash
# bin/seed_regression.sh [ID ...]: applies every kept seeded change (seeded/<ID>-sN/patch.diff) to a scratch worktree of /repo HEAD,
# runs the property's quick check against it (VERIF_REPO) and prints whether it is still detected (rc=1). The worktree is removed afterwards.
cd "$(dirname "$0")/.."
W=$(mktemp -d /tmp/seedreg.XXXXXX)
git -C /repo worktree add -q --detach "$W/wt" HEAD || exit 2
trap 'git -C /repo worktree remove --force "$W/wt" >/dev/null 2>&1; rm -rf "$W"' EXIT
ids="$*"
for d in seeded/*/; do
  n=$(basename "$d"); p=${n%%-*}
  if [ -n "$ids" ] && ! echo " $ids " | grep -q " $p "; then continue; fi
  git -C "$W/wt" checkout -q -- . ; git -C "$W/wt" clean -qfd
  if ! git -C "$W/wt" apply "$PWD/$d/patch.diff" 2>/dev/null; then echo "$n: patch does not apply"; continue; fi
  out=$(VERIF_REPO="$W/wt" ./check "$p" --no-evidence 2>&1); rc=$?
  by=$(echo "$out" | grep -E "^  harness=" | sed 's/.*harness=\([a-z_0-9]*\).*/\1/' | sort -u | tr '\n' ' ')
  note=""
  if [ $rc != 1 ]; then
    # does the change still break the property on this tree? (a later repair may have neutralised it)
    if (cd "$W/wt" && PYTHONPATH="$W/wt" timeout 600 /venv/bin/python "$OLDPWD/$d/demo.py" >/dev/null 2>&1); then note=" (its own demo passes on this tree: neutralised)"; fi
  fi
  echo "$n: rc=$rc $( [ $rc = 1 ] && echo detected || echo NOT-DETECTED )$note by: $by"
done
