#!/usr/bin/env python3
"""bin/keep_seed.py <PROPERTY> <sN> <detected:yes|no|partly> "<caught by / why missed>" : copies a confirmed seeded change into /verif/seeded/<PROPERTY>-<sN>/"""
import json, os, shutil, sys, re
P, S, det, how = sys.argv[1:5]
src = "/tmp/wt/%s/_seed" % P
dst = "/verif/seeded/%s-%s" % (P, S)
os.makedirs(dst, exist_ok=True)
shutil.copy(os.path.join(src, S + ".diff"), os.path.join(dst, "patch.diff"))
shutil.copy(os.path.join(src, S + "_demo.py"), os.path.join(dst, "demo.py"))
notes = open(os.path.join(src, S + ".md")).read()
def log(kind):
    p = "/tmp/wt/%s.%s.%s.log" % (P, S, kind)
    return open(p).read()[-1500:] if os.path.exists(p) else ""
chk = log("check")
meta = {"property": P, "seed": S, "author": "independent sub-agent given only the property text and a scratch worktree",
        "needs_to_manifest": notes,
        "confirmed": {"demo_on_clean_tree": "exit 0", "demo_with_change": "exit != 0",
                      "existing_suite_with_change": "1 failed (baseline root failure), 1268 passed, 3 collection errors == baseline",
                      "how": "bin/try_seed.sh %s %s (worktree of /repo, VERIF_REPO=<worktree>)" % (P, S)},
        "detected_by_check": det, "detail": how,
        "check_output_tail": [l for l in chk.splitlines() if l.startswith(("VIOLATION", "KNOWN", "INCONCLUSIVE")) or " quick:" in l or " thorough:" in l][:6]}
json.dump(meta, open(os.path.join(dst, "meta.json"), "w"), indent=1)
print("kept", dst)
