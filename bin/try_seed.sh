#!/bin/bash
# bin/try_seed.sh <PROPERTY> <sN> [check args]: evaluates a seeded change produced in /tmp/wt/<PROPERTY>/_seed/<sN>.diff
#  1. demo passes on the clean worktree   2. apply   3. demo fails   4. existing test suite still gives the baseline
#  5. our check (quick unless told otherwise) run with VERIF_REPO=<worktree>   6. revert
P="$1"; S="$2"; shift 2
W=/tmp/wt/$P
cd "$W" || exit 2
git checkout -q -- . 
PYTHONPATH=$W timeout 600 /venv/bin/python _seed/${S}_demo.py >/tmp/wt/$P.$S.clean.log 2>&1; echo "demo on clean tree: rc=$? (want 0)"
git apply _seed/$S.diff || { echo "diff does not apply"; exit 2; }
PYTHONPATH=$W timeout 600 /venv/bin/python _seed/${S}_demo.py >/tmp/wt/$P.$S.mut.log 2>&1; echo "demo with change: rc=$? (want != 0)"
if [ -z "$SKIP_SUITE" ]; then
PYTHONPATH=$W timeout 1800 /venv/bin/python -m pytest -q -p no:cacheprovider --timeout=900 --continue-on-collection-errors -q 2>&1 | tail -1
fi
VERIF_REPO=$W /verif/check $P --no-evidence "$@" > /tmp/wt/$P.$S.check.log 2>&1; echo "check rc=$? (want 1)"
grep -E "^VIOLATION|^KNOWN|^INCONCLUSIVE|ENGINE-ERROR" /tmp/wt/$P.$S.check.log | head -5
tail -1 /tmp/wt/$P.$S.check.log
git checkout -q -- .
