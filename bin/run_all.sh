#!/bin/bash
# bin/run_all.sh [quick|thorough]: runs every registered check once, prints one line per check
T=${1:-quick}
cd "$(dirname "$0")/.."
for p in $(python3 -c "import json;print(' '.join(c['property_id'] for c in json.load(open('MANIFEST.json'))['checks']))"); do
  s=$(date +%s); out=$(./check $p --tier $T 2>&1); rc=$?; e=$(date +%s)
  echo "$p rc=$rc $((e-s))s $(echo "$out" | grep -cE '^VIOLATION') violations $(echo "$out" | grep -cE '^INCONCLUSIVE') inconclusive $(echo "$out" | grep -c ENGINE-ERROR) engine-errors"
done
