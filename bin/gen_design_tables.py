#!/usr/bin/env python3
"""Regenerates the generated tables of DESIGN.md (harnesses per property, seeded changes) between their markers.
Run as:  PYTHONPATH=/repo:/verif ELASTIC_RALLY_VERIF=1 .venv/bin/python bin/gen_design_tables.py"""
import glob
import importlib
import json
import os
import re

ROOT = os.path.dirname(os.path.dirname(os.path.abspath(__file__)))


def harness_table():
    rows = ["| id | harnesses (kind) | auxiliary |", "|---|---|---|"]
    for i in range(1, 21):
        pid = "C%02d" % i
        m = importlib.import_module("harness." + pid.lower())
        hs = ", ".join("`%s` (%s)" % (h.name, "sym" if h.kind == "symbolic" else "b-exh") for h in m.HARNESSES)
        aux = ", ".join("`%s`" % getattr(a, "__name__", str(a)) for a in getattr(m, "AUX", [])) or "—"
        prem = getattr(m, "PREMISES", [])
        if prem:
            aux += " ; premises: " + ", ".join("`%s`" % getattr(p, "__name__", str(p)) for p in prem)
        rows.append("| %s | %s | %s |" % (pid, hs, aux))
    return "\n".join(rows)


def seed_table():
    rows = ["| seed | detected | by which harness / why not |", "|---|---|---|"]
    metas = []
    for p in sorted(glob.glob(os.path.join(ROOT, "seeded", "*", "meta.json"))):
        metas.append(json.load(open(p)))
    for m in metas:
        rows.append("| %s-%s | %s | %s |" % (m["property"], m["seed"], m["detected_by_check"], m["detail"].replace("|", "/").replace("\n", " ")))
    n = len(metas)
    yes = len([m for m in metas if m["detected_by_check"] == "yes"])
    partly = len([m for m in metas if m["detected_by_check"] == "partly"])
    obsolete = len([m for m in metas if m["detected_by_check"] == "obsolete"])
    no = n - yes - partly - obsolete
    head = ("%d seeded changes kept; detected by a deciding (solver) harness: %d; only by an auxiliary (enumeration/sweep) part: %d; "
            "neutralised by a later repair in /repo (no longer a violation, own demo passes): %d; missed: %d.\n\n" % (n, yes, partly, obsolete, no))
    return head + "\n".join(rows)


def main():
    path = os.path.join(ROOT, "DESIGN.md")
    s = open(path).read()
    for name, fn in (("harness-table", harness_table), ("seed-table", seed_table)):
        pat = re.compile(r"(<!-- BEGIN:%s -->\n).*?(\n<!-- END:%s -->)" % (name, name), re.S)
        assert pat.search(s), name
        body = fn()
        s = pat.sub(lambda m: m.group(1) + body + m.group(2), s)
    open(path, "w").write(s)


if __name__ == "__main__":
    main()
