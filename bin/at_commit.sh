#!/bin/bash
# bin/at_commit.sh <commit-ish> <check args...>: run a check against a scratch worktree of /repo at <commit-ish> (removed afterwards).
# Used to confirm that a check reports the defect a fix: commit repaired (run it at <fix>^). Writes no evidence.
C="$1"; shift
D=$(mktemp -d /tmp/verif-wt-XXXXXX)
git -C /repo worktree add -q --detach "$D" "$C" || exit 3
VERIF_REPO="$D" "$(dirname "$0")/../check" "$@" --no-evidence
rc=$?
git -C /repo worktree remove --force "$D"
exit $rc
