#!/bin/bash
# Builds /verif/.venv: an overlay on the repository's /venv with z3-solver and crosshair-tool from the offline wheelhouse.
# Idempotent; safe to call concurrently (flock).
set -e
VERIF="$(cd "$(dirname "$0")/.." && pwd)"
VENV="$VERIF/.venv"
exec 9>"$VERIF/.venv.lock"
flock 9
if [ -x "$VENV/bin/python" ] && "$VENV/bin/python" -c "import z3, crosshair, esrally, cvc5" 2>/dev/null; then
  exit 0
fi
rm -rf "$VENV"
/venv/bin/python -m venv "$VENV"
SP="$VENV/lib/python3.12/site-packages"
echo "import site; site.addsitedir('/venv/lib/python3.12/site-packages')" > "$SP/_base.pth"
PIP_NO_INDEX=1 "$VENV/bin/pip" install -q --no-index --find-links /opt/veriftools/wheels z3-solver crosshair-tool cvc5 >/dev/null
"$VENV/bin/python" -c "import z3, crosshair; print('setup ok: z3', z3.get_version_string())"
