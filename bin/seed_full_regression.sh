#!/bin/bash
# bin/seed_full_regression.sh [ID ...]: for every kept seeded change (seeded/<ID>-sN) on a scratch worktree of /repo HEAD:
#   its own demo passes on the unchanged tree, fails with the change applied, and the property's quick check reports a VIOLATION (rc=1).
# Prints one line per seed; the worktree is removed afterwards. (bin/seed_regression.sh is the check-only variant.)
cd "$(dirname "$0")/.."
W=$(mktemp -d /tmp/seedfull.XXXXXX)
git -C /repo worktree add -q --detach "$W/wt" HEAD || exit 2
trap 'git -C /repo worktree remove --force "$W/wt" >/dev/null 2>&1; rm -rf "$W"' EXIT
ids="$*"
for d in seeded/*/; do
  n=$(basename "$d"); p=${n%%-*}
  if [ -n "$ids" ] && ! echo " $ids " | grep -q " $p "; then continue; fi
  git -C "$W/wt" checkout -q -- . ; git -C "$W/wt" clean -qfd
  (cd "$W/wt" && PYTHONPATH="$W/wt" timeout 600 /venv/bin/python "$OLDPWD/$d/demo.py" >/dev/null 2>&1); c=$?
  if ! git -C "$W/wt" apply "$PWD/$d/patch.diff" 2>/dev/null; then echo "$n: patch does not apply"; continue; fi
  (cd "$W/wt" && PYTHONPATH="$W/wt" timeout 600 /venv/bin/python "$OLDPWD/$d/demo.py" >/dev/null 2>&1); m=$?
  out=$(VERIF_REPO="$W/wt" ./check "$p" --no-evidence 2>&1); rc=$?
  by=$(echo "$out" | grep -E "^  harness=" | sed 's/.*harness=\([a-z_0-9]*\).*/\1/' | sort -u | tr '\n' ' ')
  echo "$n: demo clean rc=$c, demo with change rc=$m, check rc=$rc $( [ $rc = 1 ] && echo detected || echo NOT-DETECTED ) by: $by"
done
