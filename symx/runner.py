"""Entry point behind /verif/check: runs the harnesses of one property, writes evidence, prints the verdict lines.

exit 0  property held on everything explored (or only listed known findings were hit)
exit 1  a violation that replayed natively against the real code and is not a listed known finding
exit 3  engine/harness error (poisoned path, non-replaying counterexample, harness exception)
"""
import argparse
import concurrent.futures
import hashlib
import importlib
import inspect
import json
import logging
import multiprocessing
import os
import random
import sys
import time

VERIF = os.path.dirname(os.path.dirname(os.path.abspath(__file__)))
REPO = os.path.realpath(os.environ.get("VERIF_REPO", "/repo"))
if sys.path[0] != REPO:
    sys.path.insert(0, REPO)
if VERIF not in sys.path:
    sys.path.insert(1, VERIF)

logging.disable(logging.CRITICAL)

from symx import core, explore  # noqa: E402

BUDGET = {"quick": 150, "thorough": 900}


def load_known():
    p = os.path.join(VERIF, "known_findings.json")
    if not os.path.exists(p):
        return []
    with open(p) as f:
        return json.load(f).get("findings", [])


def load_module(pid):
    return importlib.import_module("harness.%s" % pid.lower())


def _run_slice(args):
    pid, hname, sl, deadline, known = args
    mod = load_module(pid)
    h = [x for x in mod.HARNESSES if x.name == hname][0]
    if h.setup:
        h.setup()
    try:
        return explore.explore_slice(h, sl, deadline, known_regions=known)
    except Exception:  # noqa: BLE001
        import traceback

        return {"harness": hname, "slice": sl, "paths": 0, "reached": 0, "vacuous": 0, "queries": 0, "solver_s": 0.0,
                "undecided": 0, "exhaustive": False, "violations": [], "known_hits": [], "samples": [],
                "errors": ["engine error:\n" + traceback.format_exc()], "validated": 0, "validation_diverged": 0,
                "functions": [], "obligations": 0, "nonreplaying": 0, "max_depth": 0, "wall_s": 0.0}


def _run_aux(args):
    pid, idx, tier, deadline = args
    mod = load_module(pid)
    try:
        return mod.AUX[idx](tier, deadline)
    except Exception:  # noqa: BLE001
        import traceback

        return {"name": getattr(mod.AUX[idx], "__name__", "aux"), "errors": ["aux error:\n" + traceback.format_exc()]}


def source_hash(obj):
    try:
        src = inspect.getsource(obj)
        fn = inspect.getsourcefile(obj)
    except (TypeError, OSError):
        return None
    name = getattr(obj, "__qualname__", getattr(obj, "__name__", str(obj)))
    modname = getattr(obj, "__module__", "")
    return {"name": "%s.%s" % (modname, name), "file": os.path.relpath(fn, REPO) if fn else None,
            "sha256": hashlib.sha256(src.encode()).hexdigest()[:16]}


def write_replay(pid, entry):
    d = os.path.join(VERIF, "replays", pid)
    os.makedirs(d, exist_ok=True)
    blob = json.dumps(entry, sort_keys=True, default=str)
    digest = hashlib.sha256(blob.encode()).hexdigest()[:10]
    p = os.path.join(d, "%s-%s.json" % (entry["harness"], digest))
    with open(p, "w") as f:
        json.dump(dict(entry, property=pid), f, indent=1, sort_keys=True, default=str)
    return os.path.relpath(p, VERIF)


def replay(pid, path):
    mod = load_module(pid)
    with open(path) as f:
        entry = json.load(f)
    if entry.get("kind") == "aux":
        ok, msg = mod.AUX_REPLAY[entry["harness"]](entry)
        print(msg)
        if not ok:
            print("VIOLATION property=%s replay=%s" % (pid, path))
            return 1
        return 0
    h = [x for x in mod.HARNESSES if x.name == entry["harness"]][0]
    if h.setup:
        h.setup()
    import fractions

    inputs = {k: (fractions.Fraction(v) if isinstance(v, str) and "/" in v else v) for k, v in entry["inputs"].items()}
    failed, c = explore.native_run(h, entry["slice"], inputs, entry.get("choices", []))
    print("replay of %s/%s slice=%s" % (pid, h.name, entry["slice"]))
    print("  inputs: %s" % json.dumps(entry["inputs"], default=str))
    for k, v in c.notes.items():
        print("  %s: %s" % (k, v))
    if c.error:
        print("  native run raised:\n%s" % c.error)
        return 3
    if c.assumption_failed:
        print("  inputs violate a harness assumption (%s): not a counterexample" % c.assumption_failed)
        return 0
    if failed:
        print("  obligations violated natively: %s" % failed)
        print("VIOLATION property=%s replay=%s" % (pid, path))
        return 1
    print("  all obligations hold natively on these inputs")
    return 0


def main(argv=None):
    ap = argparse.ArgumentParser()
    ap.add_argument("property")
    ap.add_argument("--tier", default=os.environ.get("VERIF_TIER", "quick"), choices=["quick", "thorough"])
    ap.add_argument("--replay")
    ap.add_argument("--only", help="run only this harness")
    ap.add_argument("--budget", type=float)
    ap.add_argument("--jobs", type=int, default=int(os.environ.get("VERIF_JOBS", "16")))
    ap.add_argument("--no-evidence", action="store_true")
    a = ap.parse_args(argv)
    pid = a.property.upper()
    if a.replay:
        return replay(pid, a.replay)
    seed = int(os.environ.get("VERIF_SEED", "0"))
    t0 = time.time()
    mod = load_module(pid)
    budget = a.budget or getattr(mod, "BUDGET", BUDGET)[a.tier]
    deadline = t0 + budget
    known_all = [k for k in load_known() if k.get("property") == pid]
    known_active = [k for k in known_all if k.get("status") == "known"]
    jobs = []
    for h in mod.HARNESSES:
        if a.only and h.name != a.only:
            continue
        regions = tuple(k["region"] for k in known_active if k.get("harness") == h.name)
        for sl in h.slices(a.tier):
            jobs.append((pid, h.name, sl, deadline, regions))
    random.Random(seed).shuffle(jobs)
    # longest-first hint: harnesses may put a "_w" weight in the slice
    jobs.sort(key=lambda j: -j[2].get("_w", 0))
    aux_jobs = [] if a.only else [(pid, i, a.tier, deadline) for i in range(len(getattr(mod, "AUX", [])))]
    results, aux_results = [], []
    ctxmp = multiprocessing.get_context("fork")
    ex = concurrent.futures.ProcessPoolExecutor(max_workers=a.jobs, mp_context=ctxmp)
    futs = [ex.submit(_run_slice, j) for j in jobs]
    afuts = [ex.submit(_run_aux, j) for j in aux_jobs]
    # watchdog: a path that never returns (loop on a symbolic condition inside code under test) must not hang the check
    grace = 60 + 0.25 * budget
    concurrent.futures.wait(futs + afuts, timeout=max(1.0, deadline + grace - time.time()))
    hung = 0
    for f, j in zip(futs, jobs):
        if f.done():
            results.append(f.result())
        else:
            hung += 1
            results.append({"harness": j[1], "slice": j[2], "paths": 0, "reached": 0, "vacuous": 0, "queries": 0, "solver_s": 0.0, "undecided": 1,
                            "exhaustive": False, "violations": [], "known_hits": [], "samples": [], "errors": [], "validated": 0, "validation_diverged": 0,
                            "functions": [], "obligations": 0, "nonreplaying": 0, "max_depth": 0, "wall_s": 0.0,
                            "inconclusive_reasons": ["slice did not return within the budget + grace (a path that does not terminate?)"]})
    for f, j in zip(afuts, aux_jobs):
        if f.done():
            aux_results.append(f.result())
        else:
            hung += 1
            aux_results.append({"name": "aux-%d" % j[1], "exhaustive": False, "errors": [], "violations": []})
    if hung:
        for proc in list(getattr(ex, "_processes", {}).values()):
            proc.kill()
    ex.shutdown(wait=not hung, cancel_futures=True)
    wall = time.time() - t0

    # ---------------------------------------------------------------------------------------------- aggregate
    per_h = {}
    errors, violations, known_hits, samples = [], [], [], []
    fn_seen = {}
    for r in results:
        d = per_h.setdefault(r["harness"], {"name": r["harness"], "slices": 0, "slices_exhausted": 0, "paths": 0,
                                            "reached_observation": 0, "vacuous_paths": 0, "solver_queries": 0,
                                            "solver_s": 0.0, "undecided": 0, "validated_natively": 0,
                                            "validation_diverged": 0, "obligation_instances": 0, "max_decision_depth": 0})
        d["slices"] += 1
        d["slices_exhausted"] += 1 if r["exhaustive"] else 0
        d["paths"] += r["paths"]
        d["reached_observation"] += r["reached"]
        d["vacuous_paths"] += r["vacuous"]
        d["solver_queries"] += r["queries"]
        d["solver_s"] = round(d["solver_s"] + r["solver_s"], 3)
        d["undecided"] += r["undecided"]
        d["validated_natively"] += r["validated"]
        d["validation_diverged"] += r["validation_diverged"]
        d["obligation_instances"] += r["obligations"]
        for kk in ("cvc5_rechecked", "cvc5_agree", "cvc5_unknown", "cvc5_disagree"):
            d[kk] = d.get(kk, 0) + r.get(kk, 0)
        if r.get("cvc5_errors"):
            d.setdefault("cvc5_errors", [])
            d["cvc5_errors"] = (d["cvc5_errors"] + r["cvc5_errors"])[:3]
        d["max_decision_depth"] = max(d["max_decision_depth"], r["max_depth"])
        errors += r["errors"]
        for reason in r.get("inconclusive_reasons", [])[:3]:
            print("INCONCLUSIVE: property=%s harness=%s %s" % (pid, r["harness"], reason))
        violations += r["violations"]
        known_hits += r["known_hits"]
        if len(samples) < 6 and r["samples"]:
            samples.append(r["samples"][0])
        for f in r["functions"]:
            fn_seen[tuple(f)] = True
    hmeta = {h.name: h for h in mod.HARNESSES}
    for name, d in per_h.items():
        h = hmeta[name]
        d["kind"] = h.kind
        d["doc"] = h.doc
        d["bounds"] = h.bounds
        d["float_model"] = h.float_model
        d["twin_violated"] = d["reached_observation"] > 0  # reachability twin: path condition sat at the observation
        if d["reached_observation"] < h.min_reached and d["slices_exhausted"] == d["slices"]:
            errors.append("vacuity: harness %s reached its observation on %d paths (< %d)" % (name, d["reached_observation"], h.min_reached))
    aux_out = []
    for r in aux_results:
        errors += r.get("errors", [])
        for v in r.get("violations", []):
            violations.append(dict(v, kind="aux", harness=r["name"]))
        for kh in r.get("known_hits", []):
            known_hits.append(dict(kh, harness=r["name"]))
        aux_out.append({k: v for k, v in r.items() if k not in ("violations", "errors", "known_hits")})

    # ---------------------------------------------------------------------------------------------- verdict lines
    rc = 0
    printed_known = set()
    for kh in known_hits:
        entry = [k for k in known_active if k.get("region") == kh["region"] and k.get("harness") == kh["harness"]]
        what = entry[0]["what"] if entry else kh["region"]
        key = (kh["harness"], kh["region"])
        if key not in printed_known:
            printed_known.add(key)
            print("KNOWN-FINDING: property=%s %s [harness=%s region=%s inputs=%s]" % (
                pid, what, kh["harness"], kh["region"], json.dumps(kh.get("inputs", {}), default=str)[:300]))
    seen_v = set()
    for v in violations:
        path = write_replay(pid, v)
        if path in seen_v:
            continue
        seen_v.add(path)
        rc = 1
        print("VIOLATION property=%s replay=%s" % (pid, path))
        print("  harness=%s slice=%s failed=%s" % (v["harness"], v.get("slice"), v.get("failed_native", v.get("failed"))))
    if errors:
        for e in errors[:10]:
            print("ENGINE-ERROR: %s" % e, file=sys.stderr)
        if rc == 0:
            rc = 3
    total_slices = sum(d["slices"] for d in per_h.values())
    exhausted = sum(d["slices_exhausted"] for d in per_h.values())
    undecided = sum(d["undecided"] for d in per_h.values())
    exhaustive = exhausted == total_slices and undecided == 0 and all(x.get("exhaustive", True) for x in aux_out)
    premises = []
    for pf in getattr(mod, "PREMISES", []):
        ok, text = pf()
        premises.append({"premise": text, "holds": bool(ok)})
        if not ok:
            exhaustive = False
            print("INCONCLUSIVE: property=%s premise of a harness does not hold on this tree: %s" % (pid, text))
    if exhaustive is False and exhausted == total_slices and undecided == 0:
        pass
    elif not exhaustive:
        print("INCONCLUSIVE: property=%s %d/%d slices exhausted within the budget, %d solver answers unknown" % (
            pid, exhausted, total_slices, undecided))

    # ---------------------------------------------------------------------------------------------- evidence
    functions = []
    for h in mod.HARNESSES:
        for obj in h.reads:
            sh = source_hash(obj)
            if sh and sh not in functions:
                functions.append(sh)
    executed = sorted("%s:%s" % (f[0], f[1]) for f in fn_seen)
    paths = sum(d["paths"] for d in per_h.values()) + sum(x.get("evaluations", 0) for x in aux_out)
    reached = sum(d["reached_observation"] for d in per_h.values()) + sum(x.get("distinct_nontrivial", 0) for x in aux_out)
    obligations = len(per_h) + len(aux_out)
    discharged = sum(1 for d in per_h.values() if d["slices_exhausted"] == d["slices"] and d["undecided"] == 0) + sum(
        1 for x in aux_out if x.get("exhaustive", True))
    ev = {
        "property_id": pid, "tier": a.tier, "seed": seed, "level": "other", "wall_s": round(wall, 2),
        "violations": len(seen_v),
        "coverage": {
            "explanation": getattr(mod, "EXPLANATION", "") + " Deciding step: symbolic execution of the real code objects imported from "
            + REPO + " with z3 terms as inputs (symx, /verif/symx); every branch and every final obligation is a z3 query; a property "
            "counts as held only if the path search terminated and every final query was unsat. Bounds are listed per harness.",
            "evaluations": paths,
            "distinct_nontrivial": reached,
            "rule": "one evaluation = one feasible path of a harness through the real code (distinct decision sequence, so all paths are distinct); "
                    "non-trivial = the path reached the final observation with a satisfiable path condition (reachability twin)",
            "samples": samples,
            "obligations": obligations, "discharged": discharged,
            "exhaustive": exhaustive,
            "undecided": undecided,
            "harnesses": sorted(per_h.values(), key=lambda d: d["name"]),
            "auxiliary": aux_out,
            "traces_validated_against_impl": sum(d["validated_natively"] for d in per_h.values()) + sum(
                x.get("validated", 0) for x in aux_out),
            "functions_declared": functions,
            "functions_executed": executed,
            "solver": "z3 %s (python wheel), per-query timeout %d ms" % (core.z3.get_version_string(), core.QUERY_TIMEOUT_MS),
            "cvc5_rechecked": sum(d.get("cvc5_rechecked", 0) for d in per_h.values()),
            "cvc5_agree": sum(d.get("cvc5_agree", 0) for d in per_h.values()),
            "cvc5_unknown_or_error": sum(d.get("cvc5_unknown", 0) for d in per_h.values()),
            "cvc5_disagree": sum(d.get("cvc5_disagree", 0) for d in per_h.values()),
            "solver_queries": sum(d["solver_queries"] for d in per_h.values()),
            "solver_s": round(sum(d["solver_s"] for d in per_h.values()), 2),
            "premises": premises,
            "known_findings_hit": sorted("%s/%s" % k for k in printed_known),
            "engine_errors": len(errors),
            "budget_s": budget,
            "repo": REPO,
        },
        "assumptions": sorted(set(sum([h.assumptions + ["stub: " + s for s in h.stubs] for h in mod.HARNESSES], [])
                                  + list(getattr(mod, "ASSUMPTIONS", [])))),
    }
    if not a.no_evidence and not a.only:
        os.makedirs(os.path.join(VERIF, "evidence"), exist_ok=True)
        with open(os.path.join(VERIF, "evidence", "%s.json" % pid), "w") as f:
            json.dump(ev, f, indent=1, sort_keys=True, default=str)
    print("%s %s: %d harnesses, %d slices (%d exhausted), %d paths (%d reached the observation), %d queries, solver %.1fs, wall %.1fs, rc=%d" % (
        pid, a.tier, len(per_h), total_slices, exhausted, paths, reached, ev["coverage"]["solver_queries"],
        ev["coverage"]["solver_s"], wall, rc))
    for d in sorted(per_h.values(), key=lambda d: d["name"]):
        print("  %-34s %-18s slices %3d/%-3d paths %6d reached %6d undecided %d validated %d" % (
            d["name"], d["kind"], d["slices_exhausted"], d["slices"], d["paths"], d["reached_observation"], d["undecided"],
            d["validated_natively"]))
    for x in aux_out:
        print("  aux %-30s %s" % (x.get("name"), {k: v for k, v in x.items() if k in ("states", "transitions", "evaluations", "exhaustive", "wall_s")}))
    return rc


if __name__ == "__main__":
    try:
        rc = main()
    except SystemExit:
        raise
    except BaseException:  # noqa: BLE001 - an exception of the machinery itself (e.g. a harness module that cannot be imported against a changed
        # tree) must never look like a violation (exit 1 is reserved for replayed counterexamples): reserved harness-error code
        import traceback

        traceback.print_exc()
        print("ENGINE-ERROR: the check itself failed (see traceback); nothing is claimed either way")
        rc = 3
    sys.exit(rc)
