"""symx core: z3-backed symbolic values executed through the REAL code objects of /repo.

Mechanism (DESIGN.md §2.1): operator overloading + re-execution DFS.  Every branch on symbolic data is a pair of
satisfiability queries; `choose`/`__index__` are eager enumeration decisions.  The same harness runs natively
(concrete mode) for replay and engine validation: `fresh_*` then return plain Python values from an input dict.

Nothing here raises inside code under test except native Python errors the code itself would raise
(ZeroDivisionError on the zero side of a division fork).  Unsupported operations set a poison flag.
"""
import builtins
import fractions
import math
import numbers
import time

import z3

# --------------------------------------------------------------------------------------------------------------
# path context
# --------------------------------------------------------------------------------------------------------------


class Ctx:
    def __init__(self, prefix, mode="sym", inputs=None, choices=None):
        self.mode = mode  # "sym" | "native"
        self.prefix = prefix
        self.pos = 0
        self.solver = z3.Solver() if mode == "sym" else None
        self.poisoned = None
        self.dead = False  # path condition became unsatisfiable (inconsistent assumption)
        self.vars = {}  # name -> (kind, z3 var)
        self.var_order = []
        self.obs = []  # (label, z3 bool | python bool)
        self.trace = []  # (label, value) for engine validation
        self.regions = {}  # finding-region name -> z3 bool / python bool
        self.notes = {}
        self.inputs = inputs or {}
        self.native_choices = list(choices or [])
        self.choice_log = []  # concrete values taken by choose(), in order
        self.assumption_failed = None  # native mode: an assumption on inputs does not hold
        self.queries = 0
        self.solver_s = 0.0
        self.undecided = 0
        self.inconclusive = []  # reasons why this path can neither pass nor alarm (e.g. CTI without reachable witness)
        self.deltas = {}  # float error model: (op, a, b) -> delta var
        self.float_model = "R"

    # -- solver helpers ------------------------------------------------------------------------------------
    def add(self, expr):
        # low-level assert: Solver.add() spends most of its time coercing arguments
        z3.Z3_solver_assert(self.solver.ctx.ref(), self.solver.solver, expr.as_ast())

    def check(self, *assumptions):
        t0 = time.perf_counter()
        r = self.solver.check(*assumptions)
        self.solver_s += time.perf_counter() - t0
        self.queries += 1
        if r == z3.unknown:
            self.undecided += 1
        return r


CTX = None
QUERY_TIMEOUT_MS = 20000
MAX_DECISIONS_PER_PATH = 4000


def ctx():
    return CTX


def symbolic():
    return CTX is not None and CTX.mode == "sym"


def poison(reason):
    if CTX is not None and CTX.poisoned is None:
        CTX.poisoned = reason


# --------------------------------------------------------------------------------------------------------------
# decisions
# --------------------------------------------------------------------------------------------------------------


def branch(cond):
    """Fork on a z3 Bool.  Returns a Python bool; both feasible sides are explored on successive runs."""
    c = CTX
    cond = z3.simplify(cond)
    if z3.is_true(cond):
        return True
    if z3.is_false(cond):
        return False
    if c.dead:
        return False
    if c.pos >= MAX_DECISIONS_PER_PATH:
        # a loop whose trip count grows with a symbolic value: stop forking, the path is reported as inconclusive (never as a pass)
        c.dead = True
        c.inconclusive.append("path exceeded %d decisions (loop on a symbolic condition?)" % MAX_DECISIONS_PER_PATH)
        return False
    if c.pos < len(c.prefix):
        e = c.prefix[c.pos]
        d = e["v"]
    else:
        rt = c.check(cond)
        t = rt == z3.sat
        if rt == z3.unsat:
            # the path condition is satisfiable (invariant of the search; re-checked at the observation), so the other side is feasible
            rf, f = z3.sat, True
        else:
            rf = c.check(z3.Not(cond))
            f = rf == z3.sat
        if not t and not f:
            # unknown on both sides or inconsistent path: do not raise inside code under test
            if rt == z3.unknown or rf == z3.unknown:
                poison("solver returned unknown on both sides of a branch")
            c.dead = True
            return False
        d = t
        c.prefix.append({"k": "b", "v": d, "more": t and f})
    c.pos += 1
    c.add(cond if d else z3.Not(cond))
    return d


def concretize(term, limit=256):
    """Enumeration decision: all feasible integer values of `term`, explored one by one."""
    c = CTX
    term = z3.simplify(term)
    if z3.is_int_value(term):
        return term.as_long()
    if c.dead:
        return 0
    if c.pos < len(c.prefix):
        e = c.prefix[c.pos]
    else:
        vals = []
        while True:
            r = c.check(*[term != v for v in vals])
            if r != z3.sat:
                if r == z3.unknown:
                    poison("unknown during concretization")
                break
            vals.append(c.solver.model().eval(term, model_completion=True).as_long())
            if len(vals) > limit:
                poison("unbounded concretization of %s" % term)
                break
        if not vals:
            c.dead = True
            return 0
        vals.sort()
        e = {"k": "e", "vals": vals, "i": 0}
        c.prefix.append(e)
    v = e["vals"][e["i"]]
    c.pos += 1
    c.add(term == v)
    return v


def choose(n, label="choice"):
    """Enumeration decision over range(n) (schedules, outcome classes, fault points)."""
    c = CTX
    if n <= 0:
        raise ValueError("choose() needs n >= 1")
    if c.mode == "native":
        v = c.native_choices.pop(0) if c.native_choices else 0
        if v >= n:
            c.assumption_failed = "choice %s out of range" % label
            v = 0
        c.choice_log.append(v)
        return v
    if n == 1:
        c.choice_log.append(0)
        return 0
    if c.pos < len(c.prefix):
        e = c.prefix[c.pos]
    else:
        e = {"k": "e", "vals": list(range(n)), "i": 0, "label": label}
        c.prefix.append(e)
    c.pos += 1
    v = e["vals"][e["i"]]
    c.choice_log.append(v)
    return v


def backtrack(prefix):
    while prefix:
        e = prefix[-1]
        if e["k"] == "b" and e["more"]:
            e["v"] = not e["v"]
            e["more"] = False
            return True
        if e["k"] == "e" and e["i"] + 1 < len(e["vals"]):
            e["i"] += 1
            return True
        prefix.pop()
    return False


# --------------------------------------------------------------------------------------------------------------
# values
# --------------------------------------------------------------------------------------------------------------


class Sym:
    __slots__ = ("z",)


def is_sym(v):
    return isinstance(v, Sym)


_INT_CACHE = {}
_INT_SORT = z3.IntSort()
_REAL_SORT = z3.RealSort()
_TRUE, _FALSE = z3.BoolVal(True), z3.BoolVal(False)
_ONE_I, _ZERO_I = z3.IntVal(1), z3.IntVal(0)


def _intval(v):
    r = _INT_CACHE.get(v)
    if r is None:
        r = z3.IntVal(v)
        if -4096 <= v <= 4096:
            _INT_CACHE[v] = r
    return r


def zv(v):
    if isinstance(v, Sym):
        return v.z
    if isinstance(v, bool):
        return _TRUE if v else _FALSE
    if isinstance(v, int):
        return _intval(v)
    if isinstance(v, float):
        if v != v or v in (math.inf, -math.inf):
            poison("nan/inf constant meets a symbolic value")
            return z3.RealVal(0)
        return z3.RealVal(fractions.Fraction(v))
    if isinstance(v, fractions.Fraction):
        return z3.RealVal(v)
    raise TypeError(type(v))


def _numlike(v):
    return isinstance(v, (SNum, int, float, fractions.Fraction)) or isinstance(v, SBool)


def R(a):
    srt = a.sort_kind()
    if srt == z3.Z3_INT_SORT:
        return z3.ToReal(a)
    if srt == z3.Z3_BOOL_SORT:
        return z3.If(a, z3.RealVal(1), z3.RealVal(0))
    return a


def _I(a):
    if a.sort_kind() == z3.Z3_BOOL_SORT:
        return z3.If(a, _ONE_I, _ZERO_I)
    return a


def _kind(v):
    """'i' / 'r' / 'b' from the Python-level type (no z3 calls)"""
    if isinstance(v, SInt):
        return "i"
    if isinstance(v, SReal):
        return "r"
    if isinstance(v, (SBool, bool)):
        return "b"
    if isinstance(v, int):
        return "i"
    return "r"


def both(a, b):
    ka, kb = _kind(a), _kind(b)
    za, zb = zv(a), zv(b)
    if ka == "b":
        za, ka = z3.If(za, _ONE_I, _ZERO_I), "i"
    if kb == "b":
        zb, kb = z3.If(zb, _ONE_I, _ZERO_I), "i"
    if ka != kb:
        if ka == "i":
            za = z3.ToReal(za)
        else:
            zb = z3.ToReal(zb)
    return za, zb


def num(z):
    return SInt(z) if z.sort_kind() == z3.Z3_INT_SORT else SReal(z)


class SBool(Sym):
    __slots__ = ()

    def __init__(self, z):
        self.z = z

    def __bool__(self):
        return branch(self.z)

    def __and__(self, o):
        if isinstance(o, (SBool, bool)):
            return SBool(z3.And(self.z, zv(o)))
        return NotImplemented

    __rand__ = __and__

    def __or__(self, o):
        if isinstance(o, (SBool, bool)):
            return SBool(z3.Or(self.z, zv(o)))
        return NotImplemented

    __ror__ = __or__

    def __invert__(self):
        return SBool(z3.Not(self.z))

    def __eq__(self, o):
        if isinstance(o, (SBool, bool)):
            return SBool(self.z == zv(o))
        return NotImplemented

    def __ne__(self, o):
        if isinstance(o, (SBool, bool)):
            return SBool(self.z != zv(o))
        return NotImplemented

    def __hash__(self):
        return hash(bool(self))

    def __repr__(self):
        return "<sym-bool>"

    def __int__(self):
        return SInt(z3.If(self.z, z3.IntVal(1), z3.IntVal(0)))

    def __index__(self):
        return 1 if bool(self) else 0


def _cmp(op):
    def f(s, o):
        if not _numlike(o):
            return NotImplemented
        a, b = both(s, o)
        return SBool(op(a, b))

    return f


class SNum(Sym):
    __slots__ = ()

    def __init__(self, z):
        self.z = z

    # arithmetic: exact over Int/Real; SFloatE overrides with the error model
    def __add__(s, o):
        if not _numlike(o):
            return NotImplemented
        if isinstance(o, SFloatE):
            return o.__radd__(s)
        a, b = both(s, o)
        return num(a + b)

    def __radd__(s, o):
        if not _numlike(o):
            return NotImplemented
        a, b = both(o, s)
        return num(a + b)

    def __sub__(s, o):
        if not _numlike(o):
            return NotImplemented
        if isinstance(o, SFloatE):
            return o.__rsub__(s)
        a, b = both(s, o)
        return num(a - b)

    def __rsub__(s, o):
        if not _numlike(o):
            return NotImplemented
        a, b = both(o, s)
        return num(a - b)

    def __mul__(s, o):
        if not _numlike(o):
            return NotImplemented
        if isinstance(o, SFloatE):
            return o.__rmul__(s)
        a, b = both(s, o)
        return num(a * b)

    def __rmul__(s, o):
        if not _numlike(o):
            return NotImplemented
        a, b = both(o, s)
        return num(a * b)

    def __truediv__(s, o):
        if not _numlike(o):
            return NotImplemented
        if isinstance(o, SFloatE):
            return o.__rtruediv__(s)
        return _truediv(s, o)

    def __rtruediv__(s, o):
        if not _numlike(o):
            return NotImplemented
        return _truediv(o, s)

    def __neg__(s):
        return type(s)(-s.z) if not isinstance(s, SFloatE) else SFloatE(-s.z)

    def __pos__(s):
        return s

    def __abs__(s):
        return type(s)(z3.If(s.z >= 0, s.z, -s.z))

    __lt__ = _cmp(lambda a, b: a < b)
    __le__ = _cmp(lambda a, b: a <= b)
    __gt__ = _cmp(lambda a, b: a > b)
    __ge__ = _cmp(lambda a, b: a >= b)
    __eq__ = _cmp(lambda a, b: a == b)
    __ne__ = _cmp(lambda a, b: a != b)

    def __bool__(s):
        return branch(s.z != 0)

    def __repr__(s):
        return "<sym>"

    __str__ = __repr__

    def __format__(s, spec):
        return "<sym>"


def _truediv(a, b):
    za, zb = both(a, b)
    # Python raises ZeroDivisionError: fork on the divisor
    if branch(zb == 0):
        raise ZeroDivisionError("division by zero")
    ra, rb = R(za), R(zb)
    if CTX.float_model == "E":
        return SFloatE(ra / rb * (1 + _delta("/", ra, rb)))
    return SReal(ra / rb)


def _py_floordiv(a, b):
    # Python floor division on ints, for any sign of b (SMT-LIB div is Euclidean)
    return z3.If(b > 0, a / b, (-a) / (-b))


def _poisoning(name):
    def f(self, *a):
        poison("%s on int()/float() of a symbolic value outside a shadowed module (the result is only fit for message formatting)" % name)
        return NotImplemented

    return f


class SymIntProxy(int):
    """what int(<symbolic>) returns where `int` is NOT shadowed: good for '%d' in messages, poisons the path on any computation"""

    def __new__(cls, sym):
        o = int.__new__(cls, 0)
        o.sym = sym
        return o

    __hash__ = int.__hash__


class SymFloatProxy(float):
    def __new__(cls, sym):
        o = float.__new__(cls, 0.0)
        o.sym = sym
        return o

    __hash__ = float.__hash__


for _n in ("__add__", "__radd__", "__sub__", "__rsub__", "__mul__", "__rmul__", "__truediv__", "__rtruediv__", "__floordiv__", "__rfloordiv__",
           "__mod__", "__rmod__", "__lt__", "__le__", "__gt__", "__ge__", "__eq__", "__ne__", "__neg__", "__abs__", "__bool__", "__index__",
           "__pow__", "__round__"):
    if _n != "__index__":
        setattr(SymFloatProxy, _n, _poisoning(_n))
    setattr(SymIntProxy, _n, _poisoning(_n))


class SInt(SNum):
    __slots__ = ()

    def __index__(s):
        return concretize(s.z)

    def __hash__(s):
        return hash(concretize(s.z))

    def __int__(s):
        return SymIntProxy(s)

    def __float__(s):
        return SymFloatProxy(s)

    def __floordiv__(s, o):
        if isinstance(o, (SInt, int)) and not isinstance(o, bool):
            a, b = s.z, zv(o)
            if branch(b == 0):
                raise ZeroDivisionError("integer division or modulo by zero")
            return SInt(_py_floordiv(a, b))
        if _numlike(o):
            q = _truediv(s, o)
            return SReal(z3.ToReal(z3.ToInt(q.z)))
        return NotImplemented

    def __rfloordiv__(s, o):
        if isinstance(o, int) and not isinstance(o, bool):
            return SInt(z3.IntVal(o)).__floordiv__(s)
        return NotImplemented

    def __mod__(s, o):
        if isinstance(o, (SInt, int)) and not isinstance(o, bool):
            a, b = s.z, zv(o)
            if branch(b == 0):
                raise ZeroDivisionError("integer division or modulo by zero")
            return SInt(a - b * _py_floordiv(a, b))
        return NotImplemented

    def __rmod__(s, o):
        if isinstance(o, int) and not isinstance(o, bool):
            return SInt(z3.IntVal(o)).__mod__(s)
        return NotImplemented

    def __divmod__(s, o):
        return s // o, s % o

    def __floor__(s):
        return s

    def __ceil__(s):
        return s

    def __trunc__(s):
        return s

    def __round__(s, n=None):
        return s

    def __pow__(s, o):
        if isinstance(o, int) and 0 <= o <= 4:
            r = SInt(z3.IntVal(1))
            for _ in range(o):
                r = r * s
            return r
        poison("pow on symbolic int")
        return s

    def __rpow__(s, o):
        # base ** symbolic exponent: enumerate the exponent
        return o ** concretize(s.z)


class SReal(SNum):
    __slots__ = ()

    def __hash__(s):
        poison("hash of a symbolic real")
        return 0

    def __floor__(s):
        return SInt(z3.ToInt(s.z))

    def __ceil__(s):
        return SInt(-z3.ToInt(-s.z))

    def __trunc__(s):
        return SInt(z3.If(s.z >= 0, z3.ToInt(s.z), -z3.ToInt(-s.z)))

    def __int__(s):
        return SymIntProxy(s)

    def __float__(s):
        return SymFloatProxy(s)

    def __round__(s, n=None):
        if n is None or (isinstance(n, int) and n == 0 and False):
            return SInt(_round_half_even(s.z))
        if isinstance(n, int):
            k = 10 ** n if n >= 0 else fractions.Fraction(1, 10 ** (-n))
            kk = z3.RealVal(k)
            return SReal(z3.ToReal(_round_half_even(s.z * kk)) / kk)
        poison("round with symbolic digits")
        return s

    def __floordiv__(s, o):
        if not _numlike(o):
            return NotImplemented
        q = _truediv(s, o)
        return SReal(z3.ToReal(z3.ToInt(q.z)))

    def __mod__(s, o):
        if not _numlike(o):
            return NotImplemented
        q = _truediv(s, o)
        a, b = both(s, o)
        return SReal(R(a) - R(b) * z3.ToReal(z3.ToInt(q.z)))

    def is_integer(s):
        return SBool(z3.ToReal(z3.ToInt(s.z)) == s.z)


def _round_half_even(x):
    f = z3.ToInt(x)
    fr = x - z3.ToReal(f)
    half = z3.Q(1, 2)
    return z3.If(fr < half, f, z3.If(fr > half, f + 1, z3.If(f % 2 == 0, f, f + 1)))


# -- float error model (E): every op result r becomes r*(1+d), |d| <= 2^-53, one d per distinct (op, operands) ----
U53 = z3.Q(1, 2**53)


def _delta(op, a, b):
    c = CTX
    key = (op, a.sexpr(), b.sexpr())
    d = c.deltas.get(key)
    if d is None:
        d = z3.Real("_d%d" % len(c.deltas))
        c.deltas[key] = d
        c.solver.add(z3.And(d >= -U53, d <= U53))
    return d


class SFloatE(SReal):
    __slots__ = ()

    def _bin(s, o, op, f, rev=False):
        if not _numlike(o):
            return NotImplemented
        a, b = (zv(o), s.z) if rev else (s.z, zv(o))
        a, b = R(_I(a)), R(_I(b))
        return SFloatE(f(a, b) * (1 + _delta(op, a, b)))

    def __mul__(s, o):
        return s._bin(o, "*", lambda a, b: a * b)

    def __rmul__(s, o):
        return s._bin(o, "*", lambda a, b: a * b, rev=True)

    def __add__(s, o):
        return s._bin(o, "+", lambda a, b: a + b)

    def __radd__(s, o):
        return s._bin(o, "+", lambda a, b: a + b, rev=True)

    def __sub__(s, o):
        return s._bin(o, "-", lambda a, b: a - b)

    def __rsub__(s, o):
        return s._bin(o, "-", lambda a, b: a - b, rev=True)

    def __truediv__(s, o):
        if not _numlike(o):
            return NotImplemented
        return _truediv(s, o)

    def __rtruediv__(s, o):
        if not _numlike(o):
            return NotImplemented
        return _truediv(o, s)


numbers.Integral.register(SInt)
numbers.Real.register(SReal)

# --------------------------------------------------------------------------------------------------------------
# fresh inputs, assumptions, observations
# --------------------------------------------------------------------------------------------------------------


def _register(name, kind, var):
    c = CTX
    if name in c.vars:
        raise RuntimeError("duplicate symbolic input %s" % name)
    c.vars[name] = (kind, var)
    c.var_order.append(name)


def fresh_int(name, lo=None, hi=None):
    c = CTX
    if c.mode == "native":
        v = builtins.int(c.inputs.get(name, lo if lo is not None else 0))
        if (lo is not None and v < lo) or (hi is not None and v > hi):
            c.assumption_failed = "range of %s" % name
        c.vars[name] = ("int", v)
        return v
    var = z3.Int(name)
    _register(name, "int", var)
    if lo is not None:
        c.solver.add(var >= lo)
    if hi is not None:
        c.solver.add(var <= hi)
    return SInt(var)


def fresh_real(name, lo=None, hi=None, float_e=False):
    c = CTX
    if c.mode == "native":
        v = c.inputs.get(name, lo if lo is not None else 0.0)
        v = builtins.float(fractions.Fraction(v)) if isinstance(v, str) else builtins.float(v)
        if (lo is not None and v < lo) or (hi is not None and v > hi):
            c.assumption_failed = "range of %s" % name
        c.vars[name] = ("real", v)
        return v
    var = z3.Real(name)
    _register(name, "real", var)
    if lo is not None:
        c.solver.add(var >= zv(lo))
    if hi is not None:
        c.solver.add(var <= zv(hi))
    return SFloatE(var) if float_e else SReal(var)


def fresh_bool(name):
    c = CTX
    if c.mode == "native":
        v = builtins.bool(c.inputs.get(name, False))
        c.vars[name] = ("bool", v)
        return v
    var = z3.Bool(name)
    _register(name, "bool", var)
    return SBool(var)


def assume(cond):
    """Constrain FRESH inputs only (assumptions are not retroactive).  Never raises."""
    c = CTX
    if c.mode == "native":
        if not cond:
            c.assumption_failed = "assume()"
        return
    if isinstance(cond, bool):
        if not cond:
            c.dead = True
        return
    c.solver.add(cond.z)


def observe(label, cond):
    """Property obligation at this point of the path; decided by the solver at the end of the path."""
    c = CTX
    if isinstance(cond, SBool):
        c.obs.append((label, cond.z))
    else:
        c.obs.append((label, builtins.bool(cond)))


def trace(label, value):
    """Record a value for engine validation (symbolic term vs native execution under the path's model)."""
    CTX.trace.append((label, value))


def region(name, cond):
    """Declare a finding region (DESIGN §1.5): inputs matching a listed known finding."""
    c = CTX
    prev = c.regions.get(name)
    if isinstance(cond, SBool):
        cond = cond.z
    elif not isinstance(cond, z3.ExprRef):
        cond = builtins.bool(cond)
    if prev is not None:
        if c.mode == "native":
            cond = builtins.bool(prev) or builtins.bool(cond)
        else:
            cond = z3.Or(zv(prev) if isinstance(prev, bool) else prev, zv(cond) if isinstance(cond, bool) else cond)
    c.regions[name] = cond


def note(key, value):
    CTX.notes[key] = value


def inconclusive(reason):
    """This path is neither a pass nor an alarm (e.g. a counterexample-to-induction from a state no schedule reaches)."""
    CTX.inconclusive.append(reason)


def ite(cond, a, b):
    """Symbolic if-then-else without forking (for oracles)."""
    if isinstance(cond, SBool):
        za, zb = both(a, b)
        return num(z3.If(cond.z, za, zb))
    return a if cond else b


def s_and(*xs):
    if any(isinstance(x, SBool) for x in xs):
        return SBool(z3.And(*[zv(x) if isinstance(x, (SBool, bool)) else zv(builtins.bool(x)) for x in xs]))
    return all(xs)


def s_or(*xs):
    if any(isinstance(x, SBool) for x in xs):
        return SBool(z3.Or(*[zv(x) if isinstance(x, (SBool, bool)) else zv(builtins.bool(x)) for x in xs]))
    return any(xs)


def s_not(x):
    if isinstance(x, SBool):
        return SBool(z3.Not(x.z))
    return not x


def implies(a, b):
    return s_or(s_not(a), b)


def s_min(*xs):
    r = xs[0]
    for x in xs[1:]:
        r = ite(x < r, x, r) if (is_sym(x) or is_sym(r)) else builtins.min(x, r)
    return r


def s_max(*xs):
    r = xs[0]
    for x in xs[1:]:
        r = ite(x > r, x, r) if (is_sym(x) or is_sym(r)) else builtins.max(x, r)
    return r


# --------------------------------------------------------------------------------------------------------------
# shadows for builtins (installed as module globals of the module under test)
# --------------------------------------------------------------------------------------------------------------


def sx_int(x=0, *a):
    if isinstance(x, SInt):
        return x
    if isinstance(x, SReal):
        return x.__trunc__()
    if isinstance(x, SBool):
        return x.__int__()
    return builtins.int(x, *a)


def sx_float(x=0.0):
    if isinstance(x, SInt):
        if CTX is not None and CTX.float_model == "E":
            return SFloatE(z3.ToReal(x.z))
        return SReal(z3.ToReal(x.z))
    if isinstance(x, SReal):
        return x
    if isinstance(x, SBool):
        return SReal(R(x.z))
    return builtins.float(x)


def sx_round(x, n=None):
    if isinstance(x, Sym):
        return x.__round__(n)
    return builtins.round(x, n) if n is not None else builtins.round(x)


def sx_isinstance(obj, cls):
    if isinstance(obj, Sym):
        classes = cls if isinstance(cls, tuple) else (cls,)
        for k in classes:
            if k is bool and isinstance(obj, SBool):
                return True
            if k is int and isinstance(obj, (SInt, SBool)):
                return True
            if k is float and isinstance(obj, SReal):
                return True
            if k in (numbers.Number, numbers.Real) and isinstance(obj, SNum):
                return True
            if k is numbers.Integral and isinstance(obj, SInt):
                return True
        return builtins.isinstance(obj, cls)
    return builtins.isinstance(obj, cls)


def sx_bool(x=False):
    if isinstance(x, SBool):
        return x
    if isinstance(x, SNum):
        return SBool(x.z != 0)
    return builtins.bool(x)


def sx_abs(x):
    if isinstance(x, SNum):
        return x.__abs__()
    return builtins.abs(x)


def sx_min(*a, **kw):
    if len(a) == 1:
        a = tuple(a[0])
    if not kw and any(is_sym(x) for x in a):
        return s_min(*a)
    return builtins.min(*a, **kw) if len(a) > 1 else builtins.min(a, **kw)


def sx_max(*a, **kw):
    if len(a) == 1:
        a = tuple(a[0])
    if not kw and any(is_sym(x) for x in a):
        return s_max(*a)
    return builtins.max(*a, **kw) if len(a) > 1 else builtins.max(a, **kw)


class _MathShadow:
    """math.* on symbolic values"""

    def __getattr__(self, name):
        return getattr(math, name)

    @staticmethod
    def floor(x):
        return x.__floor__() if isinstance(x, Sym) else math.floor(x)

    @staticmethod
    def ceil(x):
        return x.__ceil__() if isinstance(x, Sym) else math.ceil(x)

    @staticmethod
    def trunc(x):
        return x.__trunc__() if isinstance(x, Sym) else math.trunc(x)

    @staticmethod
    def fabs(x):
        return x.__abs__() if isinstance(x, Sym) else math.fabs(x)


math_shadow = _MathShadow()

_SHADOWS = {
    "int": sx_int,
    "float": sx_float,
    "round": sx_round,
    "isinstance": sx_isinstance,
    "bool": sx_bool,
    "abs": sx_abs,
}


class shadowed:
    """Context manager: install shadows as globals of `module` (names default to int/float/round/isinstance)."""

    def __init__(self, module, names=("int", "float", "round", "isinstance"), extra=None):
        self.module = module
        self.items = {n: _SHADOWS[n] for n in names}
        if extra:
            self.items.update(extra)
        self.saved = {}

    def __enter__(self):
        d = vars(self.module)
        for k, v in self.items.items():
            self.saved[k] = d.get(k, _MISSING)
            d[k] = v
        return self

    def __exit__(self, *exc):
        d = vars(self.module)
        for k, v in self.saved.items():
            if v is _MISSING:
                d.pop(k, None)
            else:
                d[k] = v
        return False


_MISSING = object()


# --------------------------------------------------------------------------------------------------------------
# model extraction
# --------------------------------------------------------------------------------------------------------------


def model_value(m, kind, var):
    v = m.eval(var, model_completion=True)
    if kind == "int":
        return v.as_long()
    if kind == "bool":
        return z3.is_true(v)
    if z3.is_algebraic_value(v):
        v = v.approx(20)
    fr = fractions.Fraction(v.numerator_as_long(), v.denominator_as_long())
    return fr


def jsonable(v):
    if isinstance(v, fractions.Fraction):
        if v.denominator == 1:
            return builtins.float(v.numerator) if abs(v.numerator) < 2**53 else str(v)
        f = builtins.float(v)
        return f if fractions.Fraction(f) == v else str(v)
    return v
