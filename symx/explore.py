"""Exploration of one harness slice: re-execution DFS, final queries, counterexample extraction, native replay."""
import builtins
import fractions
import os
import sys
import time
import traceback

import z3

from . import core

REPO = os.path.realpath(os.environ.get("VERIF_REPO", "/repo"))


class HarnessError(Exception):
    pass


CVC5_EVERY = int(os.environ.get("VERIF_CVC5_EVERY", "0"))  # 0 = off; n = re-decide every n-th final query with cvc5
CVC5_MAX_PER_SLICE = int(os.environ.get("VERIF_CVC5_MAX", "40"))


def cvc5_recheck(assertions, timeout_ms=10000):
    """Second solver on the SMT-LIB2 dump of a final query (DESIGN §1.4).  Returns 'unsat' / 'sat' / 'unknown' / 'error: ...'."""
    try:
        import cvc5
    except ImportError:
        return "error: cvc5 wheel not installed"
    s2 = z3.Solver()
    s2.add(*assertions)
    text = s2.to_smt2()
    try:
        slv = cvc5.Solver()
        slv.setOption("tlimit-per", str(timeout_ms))
        slv.setLogic("ALL")
        parser = cvc5.InputParser(slv)
        parser.setStringInput(cvc5.InputLanguage.SMT_LIB_2_6, text, "final-query")
        sm = parser.getSymbolManager()
        res = "unknown"
        while True:
            cmd = parser.nextCommand()
            if cmd.isNull():
                break
            out = str(cmd.invoke(slv, sm)).strip()
            if out in ("sat", "unsat", "unknown"):
                res = out
            elif out.startswith("(error"):
                return "error: " + out[:200]
        return res
    except Exception as e:  # noqa: BLE001 - parse errors etc. are inconclusive, never success
        return "error: %r" % (e,)


class Harness:
    """A harness = ordinary Python calling real code from /repo on inputs made with core.fresh_*.

    fn(sl) runs one path; it reports obligations with core.observe(label, cond).
    """

    def __init__(self, name, fn, kind, slices, reads=(), bounds=None, stubs=(), assumptions=(), min_reached=1,
                 float_model="R", doc="", real_valued=False, setup=None):
        self.name = name
        self.fn = fn
        self.kind = kind  # "symbolic" | "bounded-exhaustive"
        self.slices = slices  # tier -> list of dict
        self.reads = list(reads)
        self.bounds = bounds or {}
        self.stubs = list(stubs)
        self.assumptions = list(assumptions)
        self.min_reached = min_reached
        self.float_model = float_model
        self.doc = doc
        self.real_valued = real_valued
        self.setup = setup


def _profile_collector(store):
    def prof(frame, event, arg):
        if event == "call":
            co = frame.f_code
            fn = co.co_filename
            if fn.startswith(REPO + os.sep) and os.sep + "esrally" + os.sep in fn:
                store.add((os.path.relpath(fn, REPO), co.co_qualname, co.co_firstlineno))

    return prof


def run_path(h, sl, prefix, mode="sym", inputs=None, choices=None, profile=None):
    """Runs the harness once.  Returns the context.  Exceptions escaping the harness are engine errors."""
    c = core.Ctx(prefix, mode=mode, inputs=inputs, choices=choices)
    c.float_model = h.float_model
    if mode == "sym":
        c.solver.set("timeout", core.QUERY_TIMEOUT_MS)
    core.CTX = c
    err = None
    if profile is not None:
        sys.setprofile(_profile_collector(profile))
    try:
        h.fn(sl)
    except Exception:  # noqa: BLE001 - reported as engine/harness error
        err = traceback.format_exc()
    finally:
        if profile is not None:
            sys.setprofile(None)
    c.error = err
    return c


def _nice_model(c, extra):
    """Prefer models whose real inputs are small integers / dyadic (so they replay exactly under IEEE floats)."""
    reals = [v for (k, v) in c.vars.values() if k == "real"]
    ints = [v for (k, v) in c.vars.values() if k == "int"]
    s = c.solver
    attempts = []
    if reals:
        attempts.append([z3.ToReal(z3.ToInt(v)) == v for v in reals] + [z3.And(v <= 1000, v >= -1000) for v in reals]
                        + [z3.And(v <= 1000, v >= -1000) for v in ints])
        attempts.append([z3.ToReal(z3.ToInt(v)) == v for v in reals])
        attempts.append([z3.ToReal(z3.ToInt(v * 8)) == v * 8 for v in reals])
    elif ints:
        attempts.append([z3.And(v <= 1000, v >= -1000) for v in ints])
    for a in attempts:
        s.push()
        s.add(*a)
        r = c.check(*extra)
        if r == z3.sat:
            m = s.model()
            s.pop()
            return m
        s.pop()
    r = c.check(*extra)
    return s.model() if r == z3.sat else None


def extract_inputs(c, m):
    out = {}
    for name in c.var_order:
        kind, var = c.vars[name]
        out[name] = core.model_value(m, kind, var)
    return out


def decisions_of(prefix, upto):
    """choose() decisions taken on this path, in order (enumeration decisions with a label)."""
    out = []
    for e in prefix[:upto]:
        if e["k"] == "e" and "label" in e:
            out.append(e["vals"][e["i"]])
    return out


def native_run(h, sl, inputs, choices):
    """Runs the harness natively on concrete inputs.  Returns (failed_labels, ctx)."""
    saved = core.CTX
    try:
        conc = {k: (builtins.float(v) if isinstance(v, fractions.Fraction) else v) for k, v in inputs.items()}
        c = run_path(h, sl, [], mode="native", inputs=conc, choices=list(choices))
        failed = [lab for (lab, ok) in c.obs if not ok]
        return failed, c
    finally:
        core.CTX = saved


def _eval_num(m, v):
    if isinstance(v, core.SBool):
        return z3.is_true(m.eval(v.z, model_completion=True))
    if isinstance(v, core.SInt):
        return m.eval(v.z, model_completion=True).as_long()
    if isinstance(v, core.SReal):
        x = m.eval(v.z, model_completion=True)
        if z3.is_algebraic_value(x):
            x = x.approx(20)
        return fractions.Fraction(x.numerator_as_long(), x.denominator_as_long())
    return v


def _close(a, b):
    if isinstance(a, bool) or isinstance(b, bool):
        return builtins.bool(a) == builtins.bool(b)
    if a is None or b is None:
        return a is b
    if isinstance(a, (str, tuple, list)) or isinstance(b, (str, tuple, list)):
        return a == b
    try:
        fa, fb = builtins.float(a), builtins.float(b)
    except (TypeError, ValueError):
        return a == b
    return abs(fa - fb) <= 1e-7 * builtins.max(1.0, abs(fa), abs(fb))


def explore_slice(h, sl, deadline, known_regions=(), max_cex=1, validate_every=7, max_samples=2, want_profile=True):
    """Exhaustive DFS over the feasible paths of h.fn(sl).  Returns a result dict (picklable)."""
    t0 = time.time()
    res = {
        "harness": h.name, "slice": sl, "paths": 0, "reached": 0, "vacuous": 0, "queries": 0, "solver_s": 0.0,
        "undecided": 0, "exhaustive": False, "violations": [], "known_hits": [], "errors": [], "samples": [],
        "validated": 0, "validation_diverged": 0, "functions": [], "obligations": 0, "nonreplaying": 0,
        "max_depth": 0, "cvc5_rechecked": 0, "cvc5_agree": 0, "cvc5_unknown": 0, "cvc5_disagree": 0,
    }
    profile = set() if want_profile else None
    prefix = []
    cex_seen = 0
    known_seen = set()
    while True:
        c = run_path(h, sl, prefix, profile=profile if res["paths"] < 3 else None)
        res["paths"] += 1
        res["max_depth"] = builtins.max(res["max_depth"], c.pos)
        # a harness that trips over the consequences of an obligation it has already recorded as false is a violation path, not an engine error
        already_false = any(t is False for (_, t) in c.obs)
        if c.error and not already_false:
            res["errors"].append("harness raised on a path:\n" + c.error)
        elif c.poisoned:
            res["errors"].append("poisoned path: %s" % c.poisoned)
        elif c.dead:
            res["vacuous"] += 1
            if c.inconclusive:
                res["exhaustive_blocked"] = True
        else:
            # reachability twin: the path condition itself must be satisfiable here
            r = c.check()
            if r != z3.sat:
                if r != z3.unknown:
                    res["vacuous"] += 1
            else:
                res["reached"] += 1
                path_model = c.solver.model()
                obs_terms = [(lab, t) for (lab, t) in c.obs]
                res["obligations"] += len(obs_terms)
                sym_terms = [core.zv(t) if isinstance(t, bool) else t for (_, t) in obs_terms]
                neg = z3.Not(z3.And(*sym_terms)) if sym_terms else z3.BoolVal(False)
                # regions of listed known findings are excluded from the search for NEW violations
                active = [core.zv(c.regions[n]) if isinstance(c.regions[n], bool) else c.regions[n]
                          for n in known_regions if n in c.regions]
                not_known = [z3.Not(a) for a in active]
                r = c.check(neg, *not_known)
                if (r == z3.unsat and CVC5_EVERY and res["cvc5_rechecked"] < CVC5_MAX_PER_SLICE and res["reached"] % CVC5_EVERY == 1 and sym_terms
                        and not all(z3.is_true(t) for t in sym_terms)):
                    v = cvc5_recheck(list(c.solver.assertions()) + [neg] + not_known)
                    res["cvc5_rechecked"] += 1
                    if v == "unsat":
                        res["cvc5_agree"] += 1
                    elif v == "sat":
                        res["cvc5_disagree"] += 1
                        res["errors"].append("solver disagreement: z3 says unsat, cvc5 says sat on a final query of %s slice %s" % (h.name, sl))
                    else:
                        res["cvc5_unknown"] += 1
                        if v.startswith("error"):
                            res.setdefault("cvc5_errors", []).append(v[:160])
                if r == z3.unknown:
                    pass
                elif r == z3.sat and cex_seen < max_cex:
                    m = _nice_model(c, [neg] + not_known)
                    if m is None:
                        c.undecided += 1
                    else:
                        cex_seen += 1
                        inputs = extract_inputs(c, m)
                        failing = [lab for (lab, t) in zip([o[0] for o in obs_terms], sym_terms)
                                   if z3.is_false(m.eval(t, model_completion=True))]
                        choices = list(c.choice_log)
                        failed_native, nc = native_run(h, sl, inputs, choices)
                        entry = {"harness": h.name, "slice": sl, "inputs": {k: core.jsonable(v) for k, v in inputs.items()},
                                 "choices": choices, "failed_symbolic": failing, "failed_native": failed_native,
                                 "notes": {k: str(v) for k, v in nc.notes.items()}}
                        if nc.error:
                            entry["native_error"] = nc.error
                        if failed_native and not nc.assumption_failed:
                            res["violations"].append(entry)
                        else:
                            res["nonreplaying"] += 1
                            entry["assumption_failed"] = nc.assumption_failed
                            if h.float_model == "E" and not nc.error:
                                # the error model over-approximates IEEE floats: a model that does not replay is inconclusive
                                c.undecided += 1
                                res.setdefault("inconclusive_models", []).append(entry["inputs"])
                            else:
                                res["errors"].append("counterexample does not replay natively: %r" % (entry,))
                elif r == z3.sat:
                    cex_seen += 1
                # known findings: report each listed region that is actually hit (replayed)
                for n, a in zip([n for n in known_regions if n in c.regions], active):
                    if n in known_seen:
                        continue
                    r2 = c.check(neg, a)
                    if r2 == z3.sat:
                        m = _nice_model(c, [neg, a])
                        if m is None:
                            continue
                        inputs = extract_inputs(c, m)
                        failed_native, nc = native_run(h, sl, inputs, list(c.choice_log))
                        if failed_native and not nc.assumption_failed and not nc.error:
                            known_seen.add(n)
                            res["known_hits"].append({"region": n, "harness": h.name, "slice": sl,
                                                      "inputs": {k: core.jsonable(v) for k, v in inputs.items()},
                                                      "choices": list(c.choice_log), "failed_native": failed_native})
                # engine validation + samples
                if res["reached"] % validate_every == 1 or len(res["samples"]) < max_samples:
                    inputs = extract_inputs(c, path_model)
                    if len(res["samples"]) < max_samples:
                        res["samples"].append({"harness": h.name, "slice": sl,
                                               "inputs": {k: core.jsonable(v) for k, v in inputs.items()},
                                               "choices": list(c.choice_log), "decisions": c.pos,
                                               "obligations": [o[0] for o in obs_terms],
                                               "verdict": "sat" if r == z3.sat else str(r)})
                    validate = r == z3.unsat and res["reached"] % validate_every == 1
                    if validate and active:
                        # validate with inputs OUTSIDE the listed known-finding regions (inside them obligations are expected to fail)
                        if c.check(*not_known) == z3.sat:
                            inputs = extract_inputs(c, c.solver.model())
                            path_model = c.solver.model()
                        else:
                            validate = False
                    if validate:
                        failed_native, nc = native_run(h, sl, inputs, list(c.choice_log))
                        ok = not nc.error and not nc.assumption_failed
                        if ok:
                            sym_trace = [(lab, _eval_num(path_model, v)) for (lab, v) in c.trace]
                            nat_trace = nc.trace
                            same = len(sym_trace) == len(nat_trace) and all(
                                a[0] == b[0] and _close(a[1], b[1]) for a, b in zip(sym_trace, nat_trace))
                            if same and not failed_native:
                                res["validated"] += 1
                            else:
                                res["validation_diverged"] += 1
                                if not h.real_valued:
                                    res["errors"].append(
                                        "engine validation: native run disagrees with symbolic path: inputs=%r failed=%r sym=%r nat=%r"
                                        % (inputs, failed_native, sym_trace[:8], nat_trace[:8]))
                        elif nc.error:
                            res["validation_diverged"] += 1
                            if not h.real_valued:
                                res["errors"].append("engine validation: native run raised:\n%s" % nc.error)
        if c.inconclusive:
            c.undecided += len(c.inconclusive)
            for r_ in c.inconclusive:
                if len(res.setdefault("inconclusive_reasons", [])) < 5:
                    res["inconclusive_reasons"].append(r_)
        res["queries"] += c.queries
        res["solver_s"] += c.solver_s
        res["undecided"] += c.undecided
        del prefix[c.pos:]
        if len(res["errors"]) > 5:
            break
        if not core.backtrack(prefix):
            res["exhaustive"] = not res.get("exhaustive_blocked", False)
            break
        if time.time() > deadline:
            break
    if profile is not None:
        res["functions"] = sorted(profile)
    res["wall_s"] = time.time() - t0
    core.CTX = None
    return res
