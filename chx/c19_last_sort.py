"""CrossHair condition for C19: SearchAfterExtractor._get_last_sort on a response whose last hit holds a SYMBOLIC sort string.
Run by harness/c19.py (auxiliary engine): crosshair check --report_all --per_condition_timeout T chx/c19_last_sort.py"""
from esrally.driver import runner


class Resp:
    """BytesIO stand-in: keeps the text symbolic (no encode/decode round trip through C code)"""

    def __init__(self, s):
        self.s = s

    def getvalue(self):
        return self

    def decode(self, enc):
        return self.s if enc.replace("-", "").lower() == "utf8" else self.s.encode("utf-8").decode(enc)


def esc(s: str) -> str:
    out = ""
    for ch in s:
        if ch == '"':
            out += chr(92) + '"'
        elif ch == chr(92):
            out += chr(92) + chr(92)
        else:
            out += ch
    return out


def last_sort(s: str, n: int) -> bool:
    """
    pre: len(s) <= 3
    pre: all(' ' <= ch <= '~' for ch in s)
    pre: 0 <= n <= 9
    post: _
    """
    text = '{"took":1,"hits":{"hits":[{"_id":"a","sort":[1,"x"]},{"_id":"b","sort":[' + str(n) + ',"' + esc(s) + '"]}]}}'
    got = runner.SearchAfterExtractor()._get_last_sort(Resp(text))
    return got == [n, s]
